/-
C16 — specification vocabulary: the ownership heap the property statement talks about, and
the naive (reachability-style) observations on it.  Import-free.

* a **region** is one `Bytes` (arrow-buffer/src/bytes.rs): its visible bytes, its capacity,
  how it is deallocated (`Deallocation::Standard(layout)` / `Deallocation::Custom(owner, _)`),
  the strong count of the `Arc<Bytes>`, whether (and how often) it has been released, and its
  pool reservation;
* a **handle** is a `Buffer { data: Arc<Bytes>, ptr, length }` = (region, byte offset, length);
* an **owner** is an `Arc<dyn Allocation>`: a user allocation, a `Buffer` wrapped as the owner
  of another buffer, or an `FFI_ArrowArray` (whose private data holds `Buffer` handles and
  whose release callback is one-shot);
* a **slot** is a variable of the client program: empty, a `Buffer`, a `MutableBuffer`
  (exclusive owner of a region) or an exported-but-not-yet-imported `FFI_ArrowArray`.

The naive observations are *counting* definitions (who references what); the model
(`Model.lean`) never uses them — it keeps reference counts like `Arc` does — and the theorems
say the two agree in every reachable state.
-/
namespace ArrowModel.C16

/-- `Deallocation` (arrow-buffer/src/alloc/mod.rs): `Standard(layout)` keeps the layout's
alignment (the size is `Region.cap`), `Custom(owner, size)` the owner. -/
inductive Kind where
  | standard (align : Nat)
  | custom (owner : Nat)
deriving DecidableEq, Repr

/-- one `Bytes` -/
structure Region where
  /-- the `len` visible bytes -/
  bytes : List Nat
  /-- `Bytes::capacity()`: `layout.size()` / the custom size -/
  cap : Nat
  kind : Kind
  /-- strong count of the `Arc<Bytes>` (1 for the region of a `MutableBuffer`) -/
  rc : Nat
  /-- `Drop for Bytes` (or `Drop for MutableBuffer`, or the hand-over in `into_vec`) has run -/
  released : Bool
  /-- how many times it has run -/
  relCount : Nat
  /-- size of the `MemoryReservation` held in `Bytes::reservation`, if any -/
  claimed : Option Nat
  /-- which pool that reservation was made in (meaningful only while `claimed` is `some`) -/
  claimPool : Nat
deriving DecidableEq, Repr

/-- one `Buffer` -/
structure Handle where
  region : Nat
  off : Nat
  len : Nat
deriving DecidableEq, Repr

/-- one `Arc<dyn Allocation>` -/
structure Owner where
  /-- strong count -/
  rc : Nat
  /-- how many times the owner's `drop` / release callback has run -/
  drops : Nat
  /-- the `Buffer`s the owner itself keeps alive (`ArrayPrivateData::buffers`) -/
  held : List Handle
deriving DecidableEq, Repr

inductive Slot where
  | empty
  | buf (h : Handle)
  | mut (region : Nat) (len : Nat)
  | ffi (owner : Nat)
deriving DecidableEq, Repr

structure State where
  regions : List Region
  owners : List Owner
  slots : List Slot
  /-- `TrackingMemoryPool::used()` of every pool of the program (a family indexed by `Nat`) -/
  pool : Nat → Nat

/-- `Σ f` over a list -/
def sumMap {α : Type} (f : α → Nat) : List α → Nat
  | [] => 0
  | a :: l => f a + sumMap f l

def Slot.region? : Slot → Option Nat
  | .buf h => some h.region
  | .mut r _ => some r
  | _ => none

/-- 1 if the slot holds a handle (immutable or mutable) on region `r` -/
def Slot.refs (r : Nat) (sl : Slot) : Nat := if sl.region? = some r then 1 else 0

/-- 1 if the slot holds the exported struct `o` -/
def Slot.ffiRefs (o : Nat) (sl : Slot) : Nat := if sl = .ffi o then 1 else 0

def Handle.refs (r : Nat) (h : Handle) : Nat := if h.region = r then 1 else 0

/-- number of handles on `r` the owner keeps -/
def Owner.heldRefs (r : Nat) (o : Owner) : Nat := sumMap (Handle.refs r) o.held

/-- number of client variables referring to region `r` -/
def slotRefs (s : State) (r : Nat) : Nat := sumMap (Slot.refs r) s.slots

/-- number of handles on `r` kept by owners (exported structs, wrappers) -/
def heldRefs (s : State) (r : Nat) : Nat := sumMap (Owner.heldRefs r) s.owners

/-- **number of live handles on region `r`** — what the `Arc` count is supposed to be -/
def referenced (s : State) (r : Nat) : Nat := slotRefs s r + heldRefs s r

def Region.ownedBy (o : Nat) (reg : Region) : Nat :=
  if reg.kind = .custom o ∧ reg.released = false then 1 else 0

/-- **number of live references to owner `o`**: unreleased regions whose `Deallocation` is
`Custom(o)`, plus the client variable holding it as an exported struct -/
def ownerRefs (s : State) (o : Nat) : Nat :=
  sumMap (Region.ownedBy o) s.regions + sumMap (Slot.ffiRefs o) s.slots

/-- capacity of the region if it is live and claimed, else 0 -/
def Region.claimedCap (reg : Region) : Nat :=
  if reg.released then 0 else match reg.claimed with | some _ => reg.cap | none => 0

/-- **what pool `p` must report**: Σ capacity of the live regions whose reservation is in `p` -/
def poolExpected (s : State) (p : Nat) : Nat :=
  sumMap (fun reg => if reg.claimPool = p then reg.claimedCap else 0) s.regions

/-- number of pools the decidable check below looks at (the drivers use pools `0 … 2`) -/
def numPools : Nat := 3

/-- the bytes of a region (`[]` if it does not exist) -/
def regionBytes (s : State) (r : Nat) : List Nat :=
  match s.regions[r]? with
  | some reg => reg.bytes
  | none => []

/-- **the bytes visible through a handle**: `Buffer::as_slice` -/
def view (s : State) (h : Handle) : List Nat := ((regionBytes s h.region).drop h.off).take h.len

/-- the specification of a quiescent state, as a decidable check (used by the driver on
every state it visits; the theorems prove it for every history):
* a region is released iff nothing references it, and then exactly once;
* an owner has been dropped iff nothing references it, and then exactly once;
* every pool reports the total capacity of the live regions claimed in it. -/
def specOk (s : State) : Bool :=
  (List.range s.regions.length).all (fun r =>
    match s.regions[r]? with
    | some reg => (reg.released == (referenced s r == 0)) && (reg.relCount == if reg.released then 1 else 0)
    | none => true) &&
  (List.range s.owners.length).all (fun o =>
    match s.owners[o]? with
    | some ow => ow.drops == (if ownerRefs s o == 0 then 1 else 0)
    | none => true) &&
  (List.range numPools).all (fun p => s.pool p == poolExpected s p)

end ArrowModel.C16
