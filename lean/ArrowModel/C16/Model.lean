/-
C16 — model of the ownership protocol of `arrow-buffer` (`Bytes`, `Buffer`, `MutableBuffer`,
`Deallocation`, pool reservations) and of the C-Data-Interface export/import on top of it.

`step : State → Op → State × Out` mirrors, operation by operation, what the Rust code does to
reference counts, owners, reservations and bytes.  Reference counting is modelled the way
`Arc` implements it (a stored strong count that is incremented by `clone` and decremented by
`drop`; the destructor runs on the 1 → 0 transition), *not* by looking at who references
what: that the two views agree is what the theorems prove.
Imports only the specification vocabulary and the generated constants, so the driver links.
-/
import ArrowModel.C16.Spec
import ArrowModel.Generated.C16
namespace ArrowModel.C16
open ArrowModel.Generated.C16

/-- observable outcome of one operation -/
inductive Out where
  /-- done (for conversions: `Ok`; for in-place kernels: done in place) -/
  | ok
  /-- conversion returned `Err(self)` / kernel fell back to a copy -/
  | declined
  /-- the Rust call panics (slice out of range) — state unchanged -/
  | panic
  /-- the operation does not apply to the slots named (the harness does not run it) -/
  | bad
deriving DecidableEq, Repr

inductive BitOp where
  | and | or | xor
deriving DecidableEq, Repr

inductive Op where
  /-- `Buffer::from_vec(Vec<T>)`, `size_of::<T>() = t`, `len`/`cap` in bytes -/
  | allocVec (d len cap t seed : Nat)
  /-- `MutableBuffer::with_capacity(cap)` + `extend_from_slice(len bytes)` -/
  | allocMut (d len cap seed : Nat)
  /-- `Buffer::from_custom_allocation(ptr, len, Arc::new(owner))` with a fresh owner -/
  | allocCustom (d len seed : Nat)
  /-- `Buffer::clone` -/
  | clone (i d : Nat)
  /-- `Buffer::slice_with_length(off, len)` -/
  | slice (i d off len : Nat)
  /-- `drop` of a `Buffer`, a `MutableBuffer` or an exported `FFI_ArrowArray` -/
  | drop (i : Nat)
  /-- `Buffer::into_mutable` -/
  | intoMutable (i : Nat)
  /-- `Buffer::into_vec::<T>` followed by `Buffer::from_vec` of the vector -/
  | intoVec (i t : Nat)
  /-- `Buffer::from(MutableBuffer)` -/
  | freeze (i : Nat)
  /-- `MutableBuffer::as_slice_mut()[pos] = val` -/
  | write (i pos val : Nat)
  /-- `MutableBuffer::extend_from_slice(&[val; n])` -/
  | extend (i n val : Nat)
  /-- `MutableBuffer::truncate(len)` -/
  | truncate (i len : Nat)
  /-- `Buffer::claim` / `MutableBuffer::claim` (through the handle in slot `i`) into pool `p` -/
  | claim (i p : Nat)
  /-- `Buffer::from_custom_allocation(ptr_i + off, len, Arc::new(holder of buffer_i.clone()))`:
  a buffer whose custom owner keeps another buffer alive (what FFI import does) -/
  | wrap (i d off len : Nat)
  /-- `BooleanBuffer::new(buffer_i, boff, blen) op= &BooleanBuffer::new(buffer_j, 0, blen)`
  (`BitAndAssign` / `BitOrAssign` / `BitXorAssign` → `bitwise_bin_op_assign`) -/
  | bitAssign (i j : Nat) (op : BitOp) (boff blen : Nat)
  /-- `FFI_ArrowArray::new(array)` of an array whose buffers are the handles in slots `srcs`
  (the array itself is dropped again) -/
  | exportFfi (srcs : List Nat) (d : Nat)
  /-- `from_ffi(struct_i, schema)`; the imported buffers go to the empty slots `dsts` -/
  | importFfi (i : Nat) (dsts : List Nat)
  /-- `PrimitiveArray::unary_mut` on an array without nulls whose values buffer is slot `i`
  (`into_builder` → `Buffer::into_mutable`), every byte `b ↦ (b + delta) % 256` -/
  | unaryMut (i delta : Nat)
  /-- any standard allocation with explicit capacity / alignment (`Buffer::from_slice_ref`,
  `MutableBuffer::from_len_zeroed`, …; the driver computes `cap`/`align` from the constructor) -/
  | allocGen (d len cap align seed : Nat) (asMut zeroed : Bool)
  /-- `MutableBuffer::resize(n, val)` -/
  | resize (i n val : Nat)
  /-- `Buffer::shrink_to_fit` -/
  | shrinkBuf (i : Nat)
  /-- `MutableBuffer::shrink_to_fit` -/
  | shrinkMut (i : Nat)
  /-- read-only round trips through other owners of the same memory that are completely
  dropped again inside the operation (`bytes::Bytes::from(buffer)` → `Buffer::from(bytes)`,
  export as a C stream → import every batch → drop): no net change -/
  | roundTrip (srcs : List Nat)
  /-- `arrow_arith::arity::binary_mut(a, &b, wrapping_add)` on two null-free `u8` arrays whose
  values buffers are slots `i` (consumed) and `j` (borrowed) -/
  | binaryMut (i j : Nat)
  /-- `PrimitiveArray::unary_mut` on a `u8` array WITH a validity buffer: values in slot `v`,
  validity bits in slot `n`; afterwards the harness replaces slot `n` by a fresh buffer holding
  the `len` validity bits packed from bit 0 -/
  | unaryMut2 (v n delta : Nat)
deriving Repr

/-! ### state access -/

def setRegion (s : State) (r : Nat) (reg : Region) : State := { s with regions := s.regions.set r reg }
def setOwner (s : State) (o : Nat) (ow : Owner) : State := { s with owners := s.owners.set o ow }
def setSlot (s : State) (i : Nat) (sl : Slot) : State := { s with slots := s.slots.set i sl }
def pushRegion (s : State) (reg : Region) : State := { s with regions := s.regions ++ [reg] }
def pushOwner (s : State) (ow : Owner) : State := { s with owners := s.owners ++ [ow] }

/-- a fresh `Arc<Bytes>` with one handle -/
def mkRegion (bytes : List Nat) (cap : Nat) (kind : Kind) : Region :=
  { bytes, cap, kind, rc := 1, released := false, relCount := 0, claimed := none, claimPool := 0 }

/-- deterministic content of a fresh allocation -/
def pattern (seed len : Nat) : List Nat := (List.range len).map (fun k => (seed + 7 * k) % 256)

/-- a reservation of pool `p` changes from `old` to `new` bytes (`Tracker::resize`, or
`Tracker::drop` with `new = 0`) -/
def poolAdjust (pool : Nat → Nat) (p old new : Nat) : Nat → Nat :=
  fun q => if q = p then pool q - old + new else pool q

def roundUp (n m : Nat) : Nat := if m = 0 then n else (n + m - 1) / m * m

/-! ### releasing

`Drop for Arc<T>`: decrement; on the 1 → 0 transition run the destructor.
The destructor of `Bytes` (bytes.rs `impl Drop for Bytes` + field drops) deallocates a
standard region or drops its clone of the owner `Arc`, and drops the reservation
(`Tracker::drop` gives the size back to the pool).  The destructor of an owner drops the
buffers it holds, which may release further regions: those decrements are returned as a
work list. -/

/-- drop one `Arc<dyn Allocation>` clone of owner `o`; returns the regions of the handles
the owner held if this was the last clone (they are dropped next). -/
def decOwner (o : Nat) (s : State) : State × List Nat :=
  match s.owners[o]? with
  | none => (s, [])
  | some ow =>
    if ow.rc ≤ 1 then
      (setOwner s o { ow with rc := 0, drops := ow.drops + 1, held := [] }, ow.held.map Handle.region)
    else (setOwner s o { ow with rc := ow.rc - 1 }, [])

/-- drop one `Arc<Bytes>` clone of region `r` -/
def decOne (r : Nat) (s : State) : State × List Nat :=
  match s.regions[r]? with
  | none => (s, [])
  | some reg =>
    if reg.rc ≤ 1 then
      let s1 : State :=
        { s with regions := s.regions.set r { reg with rc := 0, released := true, relCount := reg.relCount + 1, claimed := none },
                 pool := poolAdjust s.pool reg.claimPool (reg.claimed.getD 0) 0 }
      match reg.kind with
      | .standard _ => (s1, [])
      | .custom o => decOwner o s1
    else (setRegion s r { reg with rc := reg.rc - 1 }, [])

/-- run the pending decrements to completion -/
def drain : Nat → List Nat → State → State
  | 0, _, s => s
  | _, [], s => s
  | fuel + 1, r :: rest, s =>
    let (s', more) := decOne r s
    drain fuel (more ++ rest) s'

/-- total number of handles kept by owners: every `decOne` consumes one pending decrement and
adds at most the handles of one owner, which are then gone — so this much fuel suffices -/
def heldTotal (s : State) : Nat := sumMap (fun ow => ow.held.length) s.owners

def dropRegions (s : State) (rs : List Nat) : State := drain (heldTotal s + rs.length + 1) rs s

/-! ### bits (for the in-place mask operators) -/

def getBit (bs : List Nat) (k : Nat) : Bool := (bs.getD (k / 8) 0).testBit (k % 8)

def byteOfBits (f : Nat → Bool) : Nat :=
  (List.range 8).foldl (fun acc b => acc + if f b then 2 ^ b else 0) 0

def BitOp.apply : BitOp → Bool → Bool → Bool
  | .and, a, b => a && b
  | .or, a, b => a || b
  | .xor, a, b => a != b

/-- bytes `l` with bits `[boff, boff+blen)` replaced by `op l[boff+k] r[k]` -/
def applyBits (op : BitOp) (l r : List Nat) (boff blen : Nat) : List Nat :=
  (List.range l.length).map (fun bi => byteOfBits (fun b =>
    let k := 8 * bi + b
    if boff ≤ k ∧ k < boff + blen then op.apply (getBit l k) (getBit r (k - boff)) else getBit l k))

/-- the `blen` result bits packed from bit 0 into `⌈blen/8⌉` bytes -/
def packedBits (op : BitOp) (l r : List Nat) (boff blen : Nat) : List Nat :=
  (List.range ((blen + 7) / 8)).map (fun bi => byteOfBits (fun b =>
    let k := 8 * bi + b
    if k < blen then op.apply (getBit l (boff + k)) (getBit r k) else false))

/-! ### exporting a validity bitmap (`align_nulls`, arrow-data/src/ffi.rs)

The C Data Interface has one `offset` per array, so `FFI_ArrowArray::new` must hand out a
validity bitmap whose bit `data_offset + i` is the validity of element `i`, whatever bit offset
the array's own `NullBuffer` has.  Bitmaps are lists of bits here (bit `k` of the buffer). -/

/-- `align_nulls(data_offset, Some(nulls))`, `nulls` = bits `[nullsOff, nullsOff + len)` of the
buffer `vb`: the same buffer when the offsets agree; `nulls.inner().sliced()` (the range moved
to bit 0) when the data offset is 0; otherwise a new zeroed bitmap of `data_offset + len` bits
into which `set_bits` copies the range at `data_offset`. -/
def alignNullsBits (dataOff : Nat) (vb : List Bool) (nullsOff len : Nat) : List Bool :=
  if dataOff = nullsOff then vb
  else if dataOff = 0 then (vb.drop nullsOff).take len
  else List.replicate dataOff false ++ (vb.drop nullsOff).take len

/-! ### operations -/

def Region.isStandard (reg : Region) : Bool :=
  match reg.kind with | .standard _ => true | .custom _ => false

/-- the condition under which `Buffer::into_mutable` returns `Ok` (immutable.rs):
`ptr_offset() == 0`, `Arc::try_unwrap` succeeds (strong count 1), and
`MutableBuffer::from_bytes` accepts the deallocation (`Standard`). -/
def canMutate (reg : Region) (h : Handle) : Bool :=
  h.off == 0 && reg.rc == 1 && (match reg.kind with | .standard _ => true | .custom _ => false)

/-- the condition under which `Buffer::into_vec::<T>` returns `Ok`: standard deallocation, no
offset, `layout == Layout::array::<T>(size / size_of::<T>())` (same alignment, size a
multiple of the element size), strong count 1. -/
def canIntoVec (reg : Region) (h : Handle) (t : Nat) : Bool :=
  (match reg.kind with | .standard a => a == t && reg.cap % t == 0 | .custom _ => false) &&
  h.off == 0 && reg.rc == 1

/-- a fresh standard region (`Arc::new(Bytes)`) whose only handle goes to the empty slot `d` -/
def allocStd (s : State) (d : Nat) (bytes : List Nat) (cap align : Nat) (asMut : Bool) : State × Out :=
  match s.slots[d]? with
  | some .empty =>
    let rid := s.regions.length
    (setSlot (pushRegion s (mkRegion bytes cap (.standard align))) d
      (if asMut then .mut rid bytes.length else .buf ⟨rid, 0, bytes.length⟩), .ok)
  | _ => (s, .bad)

/-- a fresh owner (`Arc::new(owner)`) and a region deallocated through it
(`Buffer::from_custom_allocation`), handle to the empty slot `d` -/
def allocCustomFresh (s : State) (d : Nat) (bytes : List Nat) : State × Out :=
  match s.slots[d]? with
  | some .empty =>
    let o := s.owners.length
    let rid := s.regions.length
    (setSlot (pushRegion (pushOwner s { rc := 1, drops := 0, held := [] })
      (mkRegion bytes bytes.length (.custom o))) d (.buf ⟨rid, 0, bytes.length⟩), .ok)
  | _ => (s, .bad)

/-- a region deallocated through a clone of the existing owner `o` -/
def allocCustomShared (s : State) (d : Nat) (bytes : List Nat) (o : Nat) : State × Out :=
  match s.slots[d]?, s.owners[o]? with
  | some .empty, some ow =>
    let rid := s.regions.length
    (setSlot (pushRegion (setOwner s o { ow with rc := ow.rc + 1 })
      (mkRegion bytes bytes.length (.custom o))) d (.buf ⟨rid, 0, bytes.length⟩), .ok)
  | _, _ => (s, .bad)

/-- the owner `o` takes a clone of handle `h` (`ArrayPrivateData::buffers`, a wrapper's field) -/
def holdOne (s : State) (o : Nat) (h : Handle) : State :=
  match s.regions[h.region]?, s.owners[o]? with
  | some reg, some ow =>
    setOwner (setRegion s h.region { reg with rc := reg.rc + 1 }) o { ow with held := ow.held ++ [h] }
  | _, _ => s

def holdAll (s : State) (o : Nat) : List Handle → State
  | [] => s
  | h :: hs => holdAll (holdOne s o h) o hs

/-- a new handle on an existing region in the empty slot `d`: `Arc::clone` -/
def addHandle (s : State) (d : Nat) (h : Handle) : State × Out :=
  match s.slots[d]?, s.regions[h.region]? with
  | some .empty, some reg => (setSlot (setRegion s h.region { reg with rc := reg.rc + 1 }) d (.buf h), .ok)
  | _, _ => (s, .bad)

/-- the variable in slot `i` goes out of scope -/
def dropSlot (s : State) (i : Nat) : State :=
  match s.slots[i]? with
  | some (.buf h) => dropRegions (setSlot s i .empty) [h.region]
  | some (.mut r _) => dropRegions (setSlot s i .empty) [r]
  | some (.ffi o) =>
    let (s1, more) := decOwner o (setSlot s i .empty)
    dropRegions s1 more
  | _ => s

def opAllocVec (s : State) (d len cap t seed : Nat) : State × Out :=
  if len ≤ cap ∧ 0 < t ∧ len % t = 0 ∧ cap % t = 0 then
    allocStd s d (pattern seed len) cap t false
  else (s, .bad)

def opAllocMut (s : State) (d len cap seed : Nat) : State × Out :=
  if len ≤ cap then
    allocStd s d (pattern seed len) (roundUp cap WITH_CAPACITY_ROUND) ALIGNMENT_X86_64 true
  else (s, .bad)

def opAllocCustom (s : State) (d len seed : Nat) : State × Out :=
  allocCustomFresh s d (pattern seed len)

def opClone (s : State) (i d : Nat) : State × Out :=
  match s.slots[i]? with
  | some (.buf h) => addHandle s d h
  | _ => (s, .bad)

def opSlice (s : State) (i d off len : Nat) : State × Out :=
  match s.slots[i]?, s.slots[d]? with
  | some (.buf h), some .empty =>
    if off + len ≤ h.len then addHandle s d ⟨h.region, h.off + off, len⟩ else (s, .panic)
  | _, _ => (s, .bad)

def opDrop (s : State) (i : Nat) : State × Out :=
  match s.slots[i]? with
  | some .empty => (s, .bad)
  | some _ => (dropSlot s i, .ok)
  | none => (s, .bad)

def opIntoMutable (s : State) (i : Nat) : State × Out :=
  match s.slots[i]? with
  | some (.buf h) =>
    match s.regions[h.region]? with
    | some reg =>
      if canMutate reg h then
        (setSlot (setRegion s h.region { reg with bytes := reg.bytes.take h.len }) i (.mut h.region h.len), .ok)
      else (s, .declined)
    | none => (s, .bad)
  | _ => (s, .bad)

def opIntoVec (s : State) (i t : Nat) : State × Out :=
  match s.slots[i]? with
  | some (.buf h) =>
    match s.regions[h.region]? with
    | some reg =>
      if 0 < t ∧ canIntoVec reg h t then
        -- the `Bytes` is consumed (its memory now belongs to the `Vec`; its reservation is
        -- given back), then `from_vec` makes a new `Bytes` over the same memory with
        -- `len / t` whole elements
        ((allocStd (dropSlot s i) i (reg.bytes.take (h.len / t * t)) reg.cap t false).1, .ok)
      else (s, .declined)
    | none => (s, .bad)
  | _ => (s, .bad)

def opFreeze (s : State) (i : Nat) : State × Out :=
  match s.slots[i]? with
  | some (.mut r l) => (setSlot s i (.buf ⟨r, 0, l⟩), .ok)
  | _ => (s, .bad)

def opWrite (s : State) (i pos val : Nat) : State × Out :=
  match s.slots[i]? with
  | some (.mut r l) =>
    match s.regions[r]? with
    | some reg =>
      if pos < l then (setRegion s r { reg with bytes := reg.bytes.set pos (val % 256) }, .ok) else (s, .bad)
    | none => (s, .bad)
  | _ => (s, .bad)

/-- `MutableBuffer::try_reserve`: new capacity when `len + n` exceeds the old one -/
def grownCap (cap need : Nat) : Nat :=
  if need > cap then max (roundUp need RESERVE_ROUND) (cap * RESERVE_GROWTH) else cap

def opExtend (s : State) (i n val : Nat) : State × Out :=
  match s.slots[i]? with
  | some (.mut r l) =>
    match s.regions[r]? with
    | some reg =>
      let cap' := grownCap reg.cap (l + n)
      -- `try_reallocate` resizes an existing reservation to the new `layout.size()`
      let claimed' := reg.claimed.map (fun _ => cap')
      ({ setSlot (setRegion s r { reg with bytes := reg.bytes ++ List.replicate n (val % 256), cap := cap', claimed := claimed' }) i (.mut r (l + n))
          with pool := poolAdjust s.pool reg.claimPool (reg.claimed.getD 0) (claimed'.getD 0) }, .ok)
    | none => (s, .bad)
  | _ => (s, .bad)

/-- the region in slot `i` gets new bytes and a new capacity; an existing reservation is resized
to the new capacity (`Bytes::try_realloc` → `resize_reservation`, `MutableBuffer::try_reallocate`) -/
def recap (s : State) (r : Nat) (reg : Region) (bytes : List Nat) (cap' : Nat) : State :=
  { setRegion s r { reg with bytes := bytes, cap := cap', claimed := reg.claimed.map (fun _ => cap') } with
      pool := poolAdjust s.pool reg.claimPool (reg.claimed.getD 0) ((reg.claimed.map (fun _ => cap')).getD 0) }

def opTruncate (s : State) (i len : Nat) : State × Out :=
  match s.slots[i]? with
  | some (.mut r l) =>
    match s.regions[r]? with
    | some reg =>
      if len > l then (s, .ok) else
      (setSlot (setRegion s r { reg with bytes := reg.bytes.take len }) i (.mut r len), .ok)
    | none => (s, .bad)
  | _ => (s, .bad)

def opAllocGen (s : State) (d len cap align seed : Nat) (asMut zeroed : Bool) : State × Out :=
  if len ≤ cap then
    allocStd s d (if zeroed then List.replicate len 0 else pattern seed len) cap align asMut
  else (s, .bad)

/-- `MutableBuffer::resize`: grow like `extend` (same `try_reserve`), shrink like `truncate` -/
def opResize (s : State) (i n val : Nat) : State × Out :=
  match s.slots[i]? with
  | some (.mut _ l) => if n > l then opExtend s i (n - l) val else opTruncate s i n
  | _ => (s, .bad)

/-- shrink the region behind `Buffer` `h` (slot `i`) to `desired` bytes if that is less than
its capacity, `Arc::get_mut` succeeds (unique) and the region is standard (`Bytes::try_realloc`) -/
def shrinkTo (s : State) (i : Nat) (h : Handle) (reg : Region) (desired : Nat) (h' : Handle) : State × Out :=
  if desired < reg.cap ∧ reg.rc = 1 ∧ reg.isStandard = true then
    (setSlot (recap s h.region reg (reg.bytes.take desired) desired) i (.buf h'), .ok)
  else (s, .ok)

/-- `Buffer::shrink_to_fit`: the desired capacity is `offset + len`, or 0 for an empty buffer
(whose pointer is then reset to the start) -/
def opShrinkBuf (s : State) (i : Nat) : State × Out :=
  match s.slots[i]? with
  | some (.buf h) =>
    match s.regions[h.region]? with
    | some reg =>
      if h.len = 0 then shrinkTo s i h reg 0 ⟨h.region, 0, 0⟩ else shrinkTo s i h reg (h.off + h.len) h
    | none => (s, .bad)
  | _ => (s, .bad)

/-- `MutableBuffer::shrink_to_fit`: capacity down to `len` rounded up to 64 -/
def opShrinkMut (s : State) (i : Nat) : State × Out :=
  match s.slots[i]? with
  | some (.mut r l) =>
    match s.regions[r]? with
    | some reg =>
      let cap' := roundUp l SHRINK_ROUND
      if cap' < reg.cap then (recap s r reg reg.bytes cap', .ok) else (s, .ok)
    | none => (s, .bad)
  | _ => (s, .bad)

/-- `Bytes::claim` / `MutableBuffer::claim`: "replacing any prior reservation" — the old
reservation is dropped (its size goes back to the pool it was made in) and `capacity()` bytes
are reserved in pool `p` -/
def opClaim (s : State) (i p : Nat) : State × Out :=
  match (s.slots[i]?).bind Slot.region? with
  | some r =>
    match s.regions[r]? with
    | some reg =>
      ({ setRegion s r { reg with claimed := some reg.cap, claimPool := p } with
          pool := poolAdjust (poolAdjust s.pool reg.claimPool (reg.claimed.getD 0) 0) p 0 reg.cap }, .ok)
    | none => (s, .bad)
  | none => (s, .bad)

def opWrap (s : State) (i d off len : Nat) : State × Out :=
  match s.slots[i]? with
  | some (.buf h) =>
    if off + len ≤ h.len then
      match allocCustomFresh s d (((view s h).drop off).take len) with
      | (s1, .ok) => (holdOne s1 s.owners.length h, .ok)
      | _ => (s, .bad)
    else (s, .bad)
  | _ => (s, .bad)

def opBitAssign (s : State) (i j : Nat) (op : BitOp) (boff blen : Nat) : State × Out :=
  match s.slots[i]?, s.slots[j]? with
  | some (.buf h), some (.buf g) =>
    match s.regions[h.region]? with
    | some reg =>
      if i ≠ j ∧ 0 < h.len ∧ boff + blen ≤ 8 * h.len ∧ blen ≤ 8 * g.len then
        if canMutate reg h then
          -- in place: `into_mutable` (length `h.len`), `apply_bitwise_binary_op`, `into()`
          (setRegion s h.region { reg with bytes := applyBits op (reg.bytes.take h.len) (view s g) boff blen }, .ok)
        else
          -- shared, offset or foreign: a new allocation; the old handle is dropped
          let bytes := packedBits op (view s h) (view s g) boff blen
          ((allocStd (dropSlot s i) i bytes bytes.length 1 false).1, .declined)
      else (s, .bad)
    | none => (s, .bad)
  | _, _ => (s, .bad)

/-- capacity of the vector `PrimitiveBuilder::new_from_buffer` ends up with (`u8` elements):
the old capacity when `Buffer::into_vec::<u8>` succeeds (alignment 1), else a copy of `len` -/
def builderCap (reg : Region) (len : Nat) : Nat :=
  match reg.kind with
  | .standard a => if a = 1 then reg.cap else len
  | .custom _ => len

/-- `PrimitiveArray::<UInt8Type>::unary_mut` on an array without nulls whose values buffer is
slot `i`.  `into_builder` succeeds iff `Buffer::into_mutable` does; otherwise `Err(self)` and
nothing changes.  On success `PrimitiveBuilder::new_from_buffer` turns the `MutableBuffer`
into a `Vec<u8>`: through `Buffer::into_vec` (same memory, same capacity; the old `Bytes` and
its reservation are gone) when the layout is that of a `Vec<u8>`, else by copying `len` bytes
(and freeing the old allocation).  `finish` wraps the vector in a new `Bytes`. -/
def opUnaryMut (s : State) (i delta : Nat) : State × Out :=
  match s.slots[i]? with
  | some (.buf h) =>
    match s.regions[h.region]? with
    | some reg =>
      if canMutate reg h then
        ((allocStd (dropSlot s i) i ((reg.bytes.take h.len).map (fun b => (b + delta) % 256)) (builderCap reg h.len) 1 false).1, .ok)
      else (s, .declined)
    | none => (s, .bad)
  | _ => (s, .bad)

/-- the handles in the slots `srcs` (all must be `Buffer`s) -/
def handlesOf (s : State) : List Nat → Option (List Handle)
  | [] => some []
  | i :: rest =>
    match s.slots[i]?, handlesOf s rest with
    | some (.buf h), some hs => some (h :: hs)
    | _, _ => none

/-- `FFI_ArrowArray::new`: the private data keeps a clone of every buffer; the struct's
release callback (one-shot) drops them.  The struct is an owner with one reference (the
client variable in slot `d`). -/
def opExportFfi (s : State) (srcs : List Nat) (d : Nat) : State × Out :=
  match handlesOf s srcs, s.slots[d]? with
  | some hs, some .empty =>
    -- the buffers of one array: all of the same length (`u8` columns of a struct)
    if hs.all (fun h => h.len == (hs.head?.map Handle.len).getD 0) then
      let o := s.owners.length
      (holdAll (setSlot (pushOwner s { rc := 1, drops := 0, held := [] }) d (.ffi o)) o hs, .ok)
    else (s, .bad)
  | _, _ => (s, .bad)

/-- one imported buffer per exported handle (`ImportedArrowArray::buffers`): a region whose
`Deallocation` is `Custom(Arc<FFI_ArrowArray>)` over the exported handle's memory; an empty
one is replaced by a fresh empty standard buffer -/
def importAll (s : State) (o : Nat) : List Handle → List Nat → State
  | h :: hs, d :: ds =>
    let s1 := if h.len = 0 then (allocStd s d [] 0 ALIGNMENT_X86_64 false).1
              else (allocCustomShared s d (view s h) o).1
    importAll s1 o hs ds
  | _, _ => s

def allEmpty (s : State) : List Nat → Bool
  | [] => true
  | d :: ds => (s.slots[d]? == some .empty) && !(ds.contains d) && allEmpty s ds

/-- `from_ffi`: the struct moves into an `Arc`; every buffer gets a clone of it as custom
owner; the local `Arc` is dropped at the end (so with no buffers the struct is released
at once). -/
def opImportFfi (s : State) (i : Nat) (dsts : List Nat) : State × Out :=
  match s.slots[i]? with
  | some (.ffi o) =>
    match s.owners[o]? with
    | some ow =>
      if ow.held.length = dsts.length ∧ allEmpty s dsts then
        (dropSlot (importAll s o ow.held dsts) i, .ok)
      else (s, .bad)
    | none => (s, .bad)
  | _ => (s, .bad)

/-- see `Op.roundTrip` -/
def opRoundTrip (s : State) (srcs : List Nat) : State × Out :=
  match handlesOf s srcs with
  | some hs => if hs.all (fun h => h.len == (hs.head?.map Handle.len).getD 0) then (s, .ok) else (s, .bad)
  | none => (s, .bad)

/-- `binary_mut`: `Err(a)` unless `a.into_builder()` succeeds -/
def opBinaryMut (s : State) (i j : Nat) : State × Out :=
  match s.slots[i]?, s.slots[j]? with
  | some (.buf h), some (.buf g) =>
    match s.regions[h.region]? with
    | some reg =>
      if i ≠ j ∧ 0 < h.len ∧ h.len = g.len then
        if canMutate reg h then
          ((allocStd (dropSlot s i) i
            (List.zipWith (fun a b => (a + b) % 256) (reg.bytes.take h.len) (view s g)) (builderCap reg h.len) 1 false).1, .ok)
        else (s, .declined)
      else (s, .bad)
    | none => (s, .bad)
  | _, _ => (s, .bad)

/-- the first `len` bits of `bs`, packed from bit 0 -/
def packedValidity (bs : List Nat) (len : Nat) : List Nat :=
  (List.range ((len + 7) / 8)).map (fun bi => byteOfBits (fun b => decide (8 * bi + b < len) && getBit bs (8 * bi + b)))

/-- second half of `opUnaryMut2`, on the state `s1` in which an all-valid validity buffer has
already been discarded -/
def um2Finish (s1 : State) (v n delta : Nat) (hv : Handle) (okn : Bool) (validity : List Nat) : State × Out :=
  match s1.regions[hv.region]? with
  | some reg =>
    if okn && canMutate reg hv then
      ((allocStd (dropSlot ((allocStd (dropSlot s1 v) v ((reg.bytes.take hv.len).map (fun b => (b + delta) % 256))
          (builderCap reg hv.len) 1 false).1) n) n validity validity.length 1 false).1, .ok)
    else ((allocStd (dropSlot s1 n) n validity validity.length 1 false).1, .declined)
  | none => (s1, .bad)

/-- `unary_mut` on an array with a validity buffer.  `into_data` discards an all-valid
validity buffer (its handle is dropped before anything else); otherwise `into_builder` needs
the validity buffer *and* the values buffer to be convertible with `into_mutable`. -/
def opUnaryMut2 (s : State) (v n delta : Nat) : State × Out :=
  match s.slots[v]?, s.slots[n]? with
  | some (.buf hv), some (.buf hn) =>
    if v ≠ n ∧ 0 < hv.len ∧ hv.len ≤ 8 * hn.len then
      let allValid := (List.range hv.len).all (fun k => getBit (view s hn) k)
      let okn := allValid || (match s.regions[hn.region]? with | some regn => canMutate regn hn | none => false)
      um2Finish (if allValid then dropSlot s n else s) v n delta hv okn (packedValidity (view s hn) hv.len)
    else (s, .bad)
  | _, _ => (s, .bad)

def step (s : State) : Op → State × Out
  | .allocVec d len cap t seed => opAllocVec s d len cap t seed
  | .allocMut d len cap seed => opAllocMut s d len cap seed
  | .allocCustom d len seed => opAllocCustom s d len seed
  | .clone i d => opClone s i d
  | .slice i d off len => opSlice s i d off len
  | .drop i => opDrop s i
  | .intoMutable i => opIntoMutable s i
  | .intoVec i t => opIntoVec s i t
  | .freeze i => opFreeze s i
  | .write i pos val => opWrite s i pos val
  | .extend i n val => opExtend s i n val
  | .truncate i len => opTruncate s i len
  | .claim i p => opClaim s i p
  | .wrap i d off len => opWrap s i d off len
  | .bitAssign i j op boff blen => opBitAssign s i j op boff blen
  | .exportFfi srcs d => opExportFfi s srcs d
  | .importFfi i dsts => opImportFfi s i dsts
  | .unaryMut i delta => opUnaryMut s i delta
  | .allocGen d len cap align seed asMut zeroed => opAllocGen s d len cap align seed asMut zeroed
  | .resize i n val => opResize s i n val
  | .shrinkBuf i => opShrinkBuf s i
  | .shrinkMut i => opShrinkMut s i
  | .roundTrip srcs => opRoundTrip s srcs
  | .binaryMut i j => opBinaryMut s i j
  | .unaryMut2 v n delta => opUnaryMut2 s v n delta

/-- the state after a history -/
def run (s : State) : List Op → State
  | [] => s
  | op :: ops => run (step s op).1 ops

/-- `n` empty slots, nothing allocated -/
def init (n : Nat) : State := { regions := [], owners := [], slots := List.replicate n .empty, pool := fun _ => 0 }

/-- the slots an operation consumes or overwrites (the end of the lifetime of the handle that
was there); every other slot keeps its handle -/
def Op.targets : Op → List Nat
  | .allocVec d .. => [d]
  | .allocMut d .. => [d]
  | .allocCustom d .. => [d]
  | .clone _ d => [d]
  | .slice _ d .. => [d]
  | .drop i => [i]
  | .intoMutable i => [i]
  | .intoVec i _ => [i]
  | .freeze i => [i]
  | .write i .. => [i]
  | .extend i .. => [i]
  | .truncate i _ => [i]
  | .claim _ _ => []
  | .wrap _ d .. => [d]
  | .bitAssign i .. => [i]
  | .exportFfi _ d => [d]
  | .importFfi i dsts => i :: dsts
  | .unaryMut i _ => [i]
  | .allocGen d .. => [d]
  | .resize i .. => [i]
  | .shrinkBuf i => [i]
  | .shrinkMut i => [i]
  | .roundTrip _ => []
  | .binaryMut i _ => [i]
  | .unaryMut2 v n _ => [v, n]

end ArrowModel.C16
