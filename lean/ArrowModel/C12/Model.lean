/-
C12 — algorithm model of the arithmetic / aggregation / boolean kernels.

* §1  `arrow_buffer::i256` on two limbs `(low : u128, high : i128)` exactly as written in
      `arrow-buffer/src/bigint/mod.rs` (carry propagation, `mulx`, `checked_mul`'s high-part
      tests, `wrapping_abs`, comparison, `to_i128`, `checked_pow` loop, `FromStr`).
      Long division (`bigint/div.rs`) is modelled by its contract (`Int.tdiv`/`Int.tmod`).
* §2  `ArrowNativeTypeOp` glue for the native widths (Rust std `checked_*`/`wrapping_*` are
      the trusted semantics, given on `Int` with an explicit range test).
* §3  `arity.rs`: `unary`, `try_unary`, `binary`, `try_binary` on (values, validity) lists.
* §4  `aggregate.rs`: lane-split accumulation + tree reduction, `sum_checked`, bit/bool
      aggregates.
* §5  `boolean.rs`: Kleene and/or/not bit formulas on 64-bit words.
* §6  `numeric.rs`: per-type slot operations and decimal result types.

u128 / i128 arithmetic is made explicit with `wrapU128` / `wrapI128`.
Imports only the generated constants (tools/translate.py), so the driver links.
-/
import ArrowModel.C12.Spec
import ArrowModel.Generated.C12
namespace ArrowModel.C12
open ArrowModel.Generated.C12

/-! ## §1 i256 -/

/-- truncation of an exact natural result to `u128` -/
def wrapU128 (n : Nat) : Nat := n % 2 ^ 128
/-- wrap of an exact integer result to `i128` -/
def wrapI128 (x : Int) : Int := (x + 2 ^ 127) % 2 ^ 128 - 2 ^ 127
/-- `x as u128` for an `i128` (two's complement reinterpretation) -/
def asU128 (x : Int) : Nat := (x % 2 ^ 128).toNat
/-- `n as i128` for a `u128` -/
def asI128 (n : Nat) : Int := if n % 2 ^ 128 < 2 ^ 127 then ((n % 2 ^ 128 : Nat) : Int) else ((n % 2 ^ 128 : Nat) : Int) - 2 ^ 128
/-- `!x` on `u128` -/
def notU128 (x : Nat) : Nat := 2 ^ 128 - 1 - x % 2 ^ 128
/-- `!x` on `i128` -/
def notI128 (x : Int) : Int := -x - 1
/-- `u128::overflowing_add` -/
def overflowingAddU (a b : Nat) : Nat × Bool := (wrapU128 (a + b), decide (2 ^ 128 ≤ a + b))
/-- `u128::overflowing_sub` -/
def overflowingSubU (a b : Nat) : Nat × Bool := (wrapU128 (a + 2 ^ 128 - b % 2 ^ 128), decide (a < b))
/-- `u128::wrapping_sub` -/
def wrappingSubU (a b : Nat) : Nat := wrapU128 (a + 2 ^ 128 - b % 2 ^ 128)
/-- `u128::checked_mul` -/
def checkedMulU (a b : Nat) : Option Nat := if a * b < 2 ^ 128 then some (a * b) else none
/-- `u128::checked_add` -/
def checkedAddU (a b : Nat) : Option Nat := if a + b < 2 ^ 128 then some (a + b) else none
/-- `bool as u128` / `bool as i128` -/
def b2n (c : Bool) : Nat := if c then 1 else 0
def b2i (c : Bool) : Int := if c then 1 else 0

/-- `struct i256 { low: u128, high: i128 }` -/
structure I256 where
  lo : Nat
  hi : Int
  deriving DecidableEq, Repr

/-- the limbs are in range -/
def I256.WF (a : I256) : Prop := a.lo < 2 ^ 128 ∧ -(2 ^ 127 : Int) ≤ a.hi ∧ a.hi < 2 ^ 127
/-- the integer an `i256` denotes: `high · 2^128 + low` -/
def I256.value (a : I256) : Int := a.hi * 2 ^ 128 + a.lo
/-- wrap of an exact integer to 256-bit two's complement range -/
def wrap256 (x : Int) : Int := (x + 2 ^ 255) % 2 ^ 256 - 2 ^ 255
/-- representable as i256 -/
def inRange256 (x : Int) : Bool := decide (-(2 ^ 255 : Int) ≤ x) && decide (x < 2 ^ 255)
/-- the `i256` denoting `x` modulo `2^256` (abstraction inverse; not a Rust function) -/
def I256.ofInt (x : Int) : I256 :=
  let w := wrap256 x
  ⟨(w % 2 ^ 128).toNat, w / 2 ^ 128⟩

def I256.ZERO : I256 := ⟨0, 0⟩
def I256.ONE : I256 := ⟨1, 0⟩
def I256.MINUS_ONE : I256 := ⟨2 ^ 128 - 1, -1⟩
def I256.MAX : I256 := ⟨2 ^ 128 - 1, 2 ^ 127 - 1⟩
def I256.MIN : I256 := ⟨0, -(2 ^ 127)⟩

/-- `i256::from_parts` -/
def I256.fromParts (low : Nat) (high : Int) : I256 := ⟨low, high⟩
/-- `i256::from_i128`: `from_parts(v as u128, v >> 127)` -/
def I256.fromI128 (v : Int) : I256 := I256.fromParts (asU128 v) (v >>> FROM_I128_SIGN_SHIFT)
/-- `i256::is_eq` -/
def I256.isEq (a b : I256) : Bool := (a.hi == b.hi) && (a.lo == b.lo)
/-- `i256::is_negative` -/
def I256.isNegative (a : I256) : Bool := decide (a.hi < 0)

/-- `i256::to_i128` -/
def I256.toI128 (a : I256) : Option Int :=
  let as_i128 := asI128 a.lo
  let high_negative := decide (a.hi < 0)
  let low_negative := decide (as_i128 < 0)
  let high_valid := (a.hi == -1) || (a.hi == 0)
  if (high_negative == low_negative) && high_valid then some (asI128 a.lo) else none

/-- `impl Ord for i256`: `self.high.cmp(&other.high).then(self.low.cmp(&other.low))` -/
def I256.cmp (a b : I256) : Ordering := (compare a.hi b.hi).then (compare a.lo b.lo)

/-- `i256::wrapping_add` -/
def I256.wrappingAdd (a b : I256) : I256 :=
  let (low, carry) := overflowingAddU a.lo b.lo
  let high := wrapI128 (wrapI128 (a.hi + b.hi) + b2i carry)
  ⟨low, high⟩

/-- `i256::wrapping_sub` -/
def I256.wrappingSub (a b : I256) : I256 :=
  let (low, carry) := overflowingSubU a.lo b.lo
  let high := wrapI128 (wrapI128 (a.hi - b.hi) - b2i carry)
  ⟨low, high⟩

/-- `i256::overflowing_add` -/
def I256.overflowingAdd (a b : I256) : I256 × Bool :=
  let (low, carry) := overflowingAddU a.lo b.lo
  let high := asI128 (wrapU128 (wrapU128 (asU128 a.hi + asU128 b.hi) + b2n carry))
  let overflow := (decide (a.hi < 0) == decide (b.hi < 0)) && (decide (high < 0) != decide (a.hi < 0))
  (⟨low, high⟩, overflow)

/-- `i256::overflowing_sub` -/
def I256.overflowingSub (a b : I256) : I256 × Bool :=
  let (low, borrow) := overflowingSubU a.lo b.lo
  let high := asI128 (wrappingSubU (wrappingSubU (asU128 a.hi) (asU128 b.hi)) (b2n borrow))
  let overflow := (decide (a.hi < 0) != decide (b.hi < 0)) && (decide (high < 0) != decide (a.hi < 0))
  (⟨low, high⟩, overflow)

/-- `i256::checked_add` -/
def I256.checkedAdd (a b : I256) : Option I256 :=
  let (r, overflow) := a.overflowingAdd b
  if overflow then none else some r

/-- `i256::checked_sub` -/
def I256.checkedSub (a b : I256) : Option I256 :=
  let (r, overflow) := a.overflowingSub b
  if overflow then none else some r

/-- `i256::wrapping_neg`: `from_parts(!low, !high).wrapping_add(ONE)` -/
def I256.wrappingNeg (a : I256) : I256 :=
  (I256.fromParts (notU128 a.lo) (notI128 a.hi)).wrappingAdd I256.ONE

/-- `i256::checked_neg` -/
def I256.checkedNeg (a : I256) : Option I256 :=
  if !(a.isEq I256.MIN) then some a.wrappingNeg else none

/-- `i256::wrapping_abs` -/
def I256.wrappingAbs (a : I256) : I256 :=
  let sa := a.hi >>> ABS_SIGN_SHIFT
  let sa := I256.fromParts (asU128 sa) sa
  (I256.fromParts (a.lo ^^^ sa.lo) (asI128 (asU128 a.hi ^^^ asU128 sa.hi))).wrappingSub sa

/-- `i256::checked_abs` -/
def I256.checkedAbs (a : I256) : Option I256 :=
  if !(a.isEq I256.MIN) then some a.wrappingAbs else none

/-- `u64::MAX as u128` -/
def MASK64 : Nat := 2 ^ 64 - 1

/-- `mulx::split` -/
def split64 (a : Nat) : Nat × Nat := (a &&& MASK64, a >>> MULX_SPLIT_SHIFT)

/-- `mulx(a, b) -> (low, high)`; every `+`, `*`, `<<` is a `u128` operation (a debug build
would panic on overflow; the theorem `mulx_exact` shows none can occur) -/
def mulx (a b : Nat) : Nat × Nat :=
  let (a_low, a_high) := split64 a
  let (b_low, b_high) := split64 b
  -- Carry stores the upper 64-bits of low and lower 64-bits of high
  let (low, carry) := split64 (wrapU128 (a_low * b_low))
  let carry := wrapU128 (carry + wrapU128 (a_high * b_low))
  -- Update low and high with corresponding parts of carry
  let low := wrapU128 (low + wrapU128 (carry <<< MULX_CARRY_SHIFT_1))
  let high := carry >>> MULX_HIGH_SHIFT_1
  -- Update carry with overflow from low
  let carry := low >>> MULX_LOW_CARRY_SHIFT
  let low := low &&& MASK64
  -- Perform multiply including overflow from low
  let carry := wrapU128 (carry + wrapU128 (b_high * a_low))
  -- Update low and high with values from carry
  let low := wrapU128 (low + wrapU128 (carry <<< MULX_CARRY_SHIFT_2))
  let high := wrapU128 (high + (carry >>> MULX_HIGH_SHIFT_2))
  -- Perform 4th multiplication
  let high := wrapU128 (high + wrapU128 (a_high * b_high))
  (low, high)

/-- `i256::wrapping_mul` -/
def I256.wrappingMul (a b : I256) : I256 :=
  let (low, high) := mulx a.lo b.lo
  let hl := wrapI128 (a.hi * asI128 b.lo)
  let lh := wrapI128 (asI128 a.lo * b.hi)
  ⟨low, wrapI128 (wrapI128 (asI128 high + hl) + lh)⟩

/-- `i256::checked_mul`, block "Perform checked multiplication on absolute values" …
"high.checked_add(lh)": `mulx` of the low limbs, the two cross products with `u128::checked_mul`,
accumulated into the high limb with `u128::checked_add`; `None` = overflow.
`ll`,`lh` = limbs of `l_abs` (high read `as u128`), `rl`,`rh` = limbs of `r_abs`. -/
def mulCore (ll lh rl rh : Nat) : Option (Nat × Nat) :=
  -- let (low, high) = mulx(l_abs.low, r_abs.low);
  match checkedMulU lh rl with            -- let Some(hl) = (l_abs.high as u128).checked_mul(r_abs.low)
  | none => none
  | some hl =>
  match checkedMulU ll rh with            -- let Some(lh) = l_abs.low.checked_mul(r_abs.high as u128)
  | none => none
  | some x =>
  match checkedAddU (mulx ll rl).2 hl with -- let Some(high) = high.checked_add(hl)
  | none => none
  | some h1 =>
  match checkedAddU h1 x with             -- let Some(high) = high.checked_add(lh)
  | none => none
  | some H => some ((mulx ll rl).1, H)

/-- `i256::checked_mul`, block "Reverse absolute value, if necessary":
`(low ^ out_sa).overflowing_sub(out_sa)`, `(high ^ out_sa).wrapping_sub(out_sa).wrapping_sub(c as u128) as i128` -/
def signFix (low H out_sa : Nat) : I256 :=
  ⟨(overflowingSubU (low ^^^ out_sa) out_sa).1,
   asI128 (wrappingSubU (wrappingSubU (H ^^^ out_sa) out_sa) (b2n (overflowingSubU (low ^^^ out_sa) out_sa).2))⟩

/-- `i256::checked_mul` -/
def I256.checkedMul (a b : I256) : Option I256 :=
  if a.isEq I256.ZERO || b.isEq I256.ZERO then some I256.ZERO else
  -- Overflow if both high parts are non-zero
  if a.wrappingAbs.hi != 0 && b.wrappingAbs.hi != 0 then none else
  match mulCore a.wrappingAbs.lo (asU128 a.wrappingAbs.hi) b.wrappingAbs.lo (asU128 b.wrappingAbs.hi) with
  | none => none
  | some (low, H) =>
    -- Shift sign bit down to construct mask of all set bits if negative: out_sa = (l_sa ^ r_sa) as u128
    let r := signFix low H (asU128 (a.hi >>> MUL_L_SIGN_SHIFT) ^^^ asU128 (b.hi >>> MUL_R_SIGN_SHIFT))
    -- Check for overflow in final conversion
    if decide (r.hi < 0) == (a.isNegative != b.isNegative) then some r else none

/-- `i256::div_rem` — the long division of `bigint/div.rs` is replaced by its contract
(`Int.tdiv`, `Int.tmod` of the absolute values); the sign fix-ups are as written.
`none` = `DivideByZero`, `some none` = `DivideOverflow`. -/
def I256.divRem (a b : I256) : Option (Option (I256 × I256)) :=
  if b.isEq I256.ZERO then none else
  if b.isEq I256.MINUS_ONE && a.isEq I256.MIN then some none else
  let x := a.wrappingAbs
  let y := b.wrappingAbs
  -- magnitudes as unsigned 256-bit numbers (`as_digits`)
  let xn : Int := (asU128 x.hi : Int) * 2 ^ 128 + x.lo
  let yn : Int := (asU128 y.hi : Int) * 2 ^ 128 + y.lo
  let div := I256.ofInt (Int.tdiv xn yn)
  let rem := I256.ofInt (Int.tmod xn yn)
  some (some (if a.isNegative == b.isNegative then div else div.wrappingNeg,
              if a.isNegative then rem.wrappingNeg else rem))

/-- `i256::checked_div` -/
def I256.checkedDiv (a b : I256) : Option I256 :=
  match a.divRem b with
  | some (some (q, _)) => some q
  | _ => none

/-- `i256::checked_rem` -/
def I256.checkedRem (a b : I256) : Option I256 :=
  match a.divRem b with
  | some (some (_, r)) => some r
  | _ => none

/-- `i256::wrapping_div`; `none` = panic (division by zero) -/
def I256.wrappingDiv (a b : I256) : Option I256 :=
  match a.divRem b with
  | some (some (q, _)) => some q
  | none => none
  | some none => some I256.MIN

/-- `i256::wrapping_rem`; `none` = panic (division by zero) -/
def I256.wrappingRem (a b : I256) : Option I256 :=
  match a.divRem b with
  | some (some (_, r)) => some r
  | none => none
  | some none => some I256.ZERO

/-- the `while exp > 1` loop of `i256::checked_pow` -/
def I256.checkedPowLoop (base acc : I256) (exp : Nat) : Option I256 :=
  if _h : exp > 1 then
    match (if exp % 2 = 1 then acc.checkedMul base else some acc) with
    | none => none
    | some acc =>
      match base.checkedMul base with
      | none => none
      | some base => I256.checkedPowLoop base acc (exp / 2)
  else acc.checkedMul base
termination_by exp
decreasing_by omega

/-- `i256::checked_pow` -/
def I256.checkedPow (a : I256) (exp : Nat) : Option I256 :=
  if exp = 0 then some (I256.fromI128 1) else I256.checkedPowLoop a (I256.fromI128 1) exp

/-- the `while exp > 1` loop of `i256::wrapping_pow` -/
def I256.wrappingPowLoop (base acc : I256) (exp : Nat) : I256 :=
  if _h : exp > 1 then
    I256.wrappingPowLoop (base.wrappingMul base) (if exp % 2 = 1 then acc.wrappingMul base else acc) (exp / 2)
  else acc.wrappingMul base
termination_by exp
decreasing_by omega

/-- `i256::wrapping_pow` -/
def I256.wrappingPow (a : I256) (exp : Nat) : I256 :=
  if exp = 0 then I256.fromI128 1 else I256.wrappingPowLoop a (I256.fromI128 1) exp

/-! ### `impl FromStr for i256` -/

def isDigit (c : Char) : Bool := '0' ≤ c && c ≤ '9'

def digitsToNat (cs : List Char) : Nat := cs.foldl (fun n c => 10 * n + (c.toNat - '0'.toNat)) 0

/-- `i128::from_str` (Rust std, trusted): optional sign, at least one digit, in range -/
def parseI128 (cs : List Char) : Option Int :=
  let (neg, ds) := match cs with
    | '-' :: r => (true, r)
    | '+' :: r => (false, r)
    | r => (false, r)
  if ds.isEmpty || !ds.all isDigit then none else
  let n : Int := digitsToNat ds
  let v := if neg then -n else n
  if -(2 ^ 127 : Int) ≤ v ∧ v < 2 ^ 127 then some v else none

/-- `parse_impl(s, negative)`: chunks of `PARSE_CHUNK_DIGITS` digits from the right -/
def parseImpl (fuel : Nat) (s : List Char) (negative : Bool) : Option I256 :=
  match fuel with
  | 0 => none
  | fuel + 1 =>
    if s.length ≤ PARSE_CHUNK_DIGITS then
      match parseI128 s with
      | none => none
      | some low =>
        some (if negative then I256.fromParts (asU128 (wrapI128 (-low))) (-1)
              else I256.fromParts (asU128 low) 0)
    else
      let split := s.length - PARSE_CHUNK_DIGITS
      if !(isDigit (s.getD split 'x')) then none else
      let hs := s.take split
      let ls := s.drop split
      match parseI128 ls with
      | none => none
      | some low =>
        match parseImpl fuel hs negative with
        | none => none
        | some high =>
          let low := if negative then -low else low
          let low := I256.fromI128 low
          match high.checkedMul (I256.fromI128 (10 ^ PARSE_CHUNK_POW)) with
          | none => none
          | some high => high.checkedAdd low

/-- `<i256 as FromStr>::from_str` (ASCII input) -/
def I256.fromStr (s : List Char) : Option I256 :=
  if s.length ≤ 38 then (parseI128 s).map I256.fromI128 else
  let (negative, s) := match s with
    | '-' :: r => (true, r)
    | '+' :: r => (false, r)
    | r => (false, r)
  let s := s.dropWhile (· = '0')
  match s with
  | [] => some I256.ZERO
  | c :: _ =>
    if !(isDigit c) then none else parseImpl (s.length + 1) s negative

/-! ## §2 `ArrowNativeTypeOp` (arrow-array/src/arithmetic.rs) -/

def optOr {α} (o : Option α) (e : Err) : Except Err α :=
  match o with
  | some a => .ok a
  | none => .error e

/-- Rust std `checked_{add,sub,mul}`: exact result if representable (trusted semantics) -/
def stdChecked (t : NT) (x : Int) : Option Int := if t.inRange x then some x else none
/-- Rust std `checked_div` -/
def stdCheckedDiv (t : NT) (a b : Int) : Option Int :=
  if b = 0 then none else stdChecked t (Int.tdiv a b)
/-- Rust std `checked_rem`: `None` for `rhs == 0` and for `MIN % -1` -/
def stdCheckedRem (t : NT) (a b : Int) : Option Int :=
  if b = 0 then none else if t.signed && a == t.lo && b == -1 then none else some (Int.tmod a b)

/-- `add_checked`, `sub_checked`, `mul_checked`: `self.checked_op(rhs).ok_or(ArithmeticOverflow)` -/
def addChecked (t : NT) (a b : Int) : Except Err Int := optOr (stdChecked t (a + b)) .overflow
def subChecked (t : NT) (a b : Int) : Except Err Int := optOr (stdChecked t (a - b)) .overflow
def mulChecked (t : NT) (a b : Int) : Except Err Int := optOr (stdChecked t (a * b)) .overflow
/-- `div_checked`: zero test first (`DivideByZero`), then `checked_div().ok_or(overflow)` -/
def divChecked (t : NT) (a b : Int) : Except Err Int :=
  if b = 0 then .error .divzero else optOr (stdCheckedDiv t a b) .overflow
/-- `mod_checked`: zero test first, then `checked_rem().ok_or(overflow)` -/
def modChecked (t : NT) (a b : Int) : Except Err Int :=
  if b = 0 then .error .divzero else optOr (stdCheckedRem t a b) .overflow
/-- `neg_checked`: `checked_neg().ok_or(overflow)` -/
def negChecked (t : NT) (a : Int) : Except Err Int := optOr (stdChecked t (-a)) .overflow
/-- `add_wrapping` … -/
def addWrapping (t : NT) (a b : Int) : Int := t.wrap (a + b)
def subWrapping (t : NT) (a b : Int) : Int := t.wrap (a - b)
def mulWrapping (t : NT) (a b : Int) : Int := t.wrap (a * b)
def negWrapping (t : NT) (a : Int) : Int := t.wrap (-a)
/-- `mod_wrapping` = `wrapping_rem` (only called with `rhs != 0`): `MIN % -1 = 0` -/
def modWrapping (_t : NT) (a b : Int) : Int := Int.tmod a b
/-- `pow_checked` = std `checked_pow` -/
def powChecked (t : NT) (a : Int) (e : Nat) : Except Err Int :=
  -- (|a| ≥ 2 and e > 256 cannot be representable; avoids evaluating astronomically large powers)
  if e > 256 ∧ (a < -1 ∨ 1 < a) then .error .overflow else optOr (stdChecked t (a ^ e)) .overflow
/-- `pow_wrapping` = std `wrapping_pow`, by repeated multiplication modulo `2^bits` -/
def powWrapping (t : NT) (a : Int) : Nat → Int
  | 0 => t.wrap 1
  | e + 1 => t.wrap (powWrapping t a e * a)

def t256 : NT := ⟨true, 256⟩

/-- the same trait methods for `i256` go through the limb code of §1 -/
def addChecked256 (a b : Int) : Except Err Int :=
  optOr (((I256.ofInt a).checkedAdd (I256.ofInt b)).map I256.value) .overflow
def subChecked256 (a b : Int) : Except Err Int :=
  optOr (((I256.ofInt a).checkedSub (I256.ofInt b)).map I256.value) .overflow
def mulChecked256 (a b : Int) : Except Err Int :=
  optOr (((I256.ofInt a).checkedMul (I256.ofInt b)).map I256.value) .overflow
def divChecked256 (a b : Int) : Except Err Int :=
  if (I256.ofInt b).isEq I256.ZERO then .error .divzero else
  optOr (((I256.ofInt a).checkedDiv (I256.ofInt b)).map I256.value) .overflow
def modChecked256 (a b : Int) : Except Err Int :=
  if (I256.ofInt b).isEq I256.ZERO then .error .divzero else
  optOr (((I256.ofInt a).checkedRem (I256.ofInt b)).map I256.value) .overflow
def negChecked256 (a : Int) : Except Err Int :=
  optOr ((I256.ofInt a).checkedNeg.map I256.value) .overflow
def powChecked256 (a : Int) (e : Nat) : Except Err Int :=
  optOr (((I256.ofInt a).checkedPow e).map I256.value) .overflow
def powWrapping256 (a : Int) (e : Nat) : Int := ((I256.ofInt a).wrappingPow e).value

/-! ## §3 `arity.rs` — (values, validity) arrays -/

/-- a primitive array: physical values (also under null slots) and validity bits -/
structure Arr (α : Type) where
  vals : List α
  valid : List Bool

/-- logical content: `none` at null slots -/
def decode {α} : List α → List Bool → List (Option α)
  | x :: xs, v :: vs => (if v then some x else none) :: decode xs vs
  | _, _ => []

def Arr.logical {α} (a : Arr α) : List (Option α) := decode a.vals a.valid

/-- `PrimitiveArray::unary`: `op` on **every** slot (also null ones), nulls cloned -/
def unary {α γ} (op : α → γ) (a : Arr α) : Arr γ := ⟨a.vals.map op, a.valid⟩

/-- the value loop of `PrimitiveArray::try_unary` / `try_binary` with a null buffer:
zero-initialised output, `op` only at valid indices in ascending order, `?` on error -/
def tryUnaryVals {α γ ε} (op : α → Except ε γ) (zero : γ) : List α → List Bool → Except ε (List γ)
  | x :: xs, v :: vs =>
    if v then
      match op x with
      | .ok c => (tryUnaryVals op zero xs vs).map (c :: ·)
      | .error e => .error e
    else (tryUnaryVals op zero xs vs).map (zero :: ·)
  | _, _ => .ok []

/-- `PrimitiveArray::try_unary` -/
def tryUnary {α γ ε} (op : α → Except ε γ) (zero : γ) (a : Arr α) : Except ε (Arr γ) :=
  (tryUnaryVals op zero a.vals a.valid).map (⟨·, a.valid⟩)

/-- `NullBuffer::union` on validity lists -/
def unionValid : List Bool → List Bool → List Bool
  | a :: as, b :: bs => (a && b) :: unionValid as bs
  | _, _ => []

/-- `arity::binary`: `op` on **every** pair of slots, validity = union -/
def binaryVals {α β γ} (op : α → β → γ) : List α → List β → List γ
  | a :: as, b :: bs => op a b :: binaryVals op as bs
  | _, _ => []

def binary {α β γ} (op : α → β → γ) (a : Arr α) (b : Arr β) : Arr γ :=
  ⟨binaryVals op a.vals b.vals, unionValid a.valid b.valid⟩

/-- `try_binary_no_nulls`: sequential loop over all indices -/
def tryBinaryNoNulls {α β γ ε} (op : α → β → Except ε γ) : List α → List β → Except ε (List γ)
  | a :: as, b :: bs =>
    match op a b with
    | .ok c => (tryBinaryNoNulls op as bs).map (c :: ·)
    | .error e => .error e
  | _, _ => .ok []

/-- `try_binary` with a null buffer: `nulls.try_for_each_valid_idx(|idx| slice[idx] = op(a[idx], b[idx])?)` -/
def tryBinaryVals {α β γ ε} (op : α → β → Except ε γ) (zero : γ) :
    List α → List β → List Bool → Except ε (List γ)
  | a :: as, b :: bs, v :: vs =>
    if v then
      match op a b with
      | .ok c => (tryBinaryVals op zero as bs vs).map (c :: ·)
      | .error e => .error e
    else (tryBinaryVals op zero as bs vs).map (zero :: ·)
  | _, _, _ => .ok []

/-- `arity::try_binary` (equal lengths): the no-null fast path when the union has no null,
otherwise the valid-index loop -/
def tryBinary {α β γ ε} (op : α → β → Except ε γ) (zero : γ) (a : Arr α) (b : Arr β) : Except ε (Arr γ) :=
  let nulls := unionValid a.valid b.valid
  if nulls.all id then (tryBinaryNoNulls op a.vals b.vals).map (⟨·, nulls⟩)
  else (tryBinaryVals op zero a.vals b.vals nulls).map (⟨·, nulls⟩)

/-! ## §4 `aggregate.rs` -/

/-- `NumericAccumulator` as a fold step: `accumulate_nullable(value, valid)` -/
def accNullable {α} (op : α → α → α) (acc : α) (x : α) (valid : Bool) : α :=
  if valid then op acc x else acc

/-- `aggregate_nullable_chunk` / the remainder loop: slot `i` of the chunk goes to lane `i` -/
def accChunk {α} (op : α → α → α) : List α → List (α × Bool) → List α
  | a :: acc, (x, v) :: xs => accNullable op a x v :: accChunk op acc xs
  | acc, [] => acc
  | [], _ => []

/-- `aggregate_nullable_lanes` / `aggregate_nonnull_lanes`: full chunks of `lanes` slots,
then the remainder into the first lanes.  (`fuel` ≥ number of slots.) -/
def lanesLoop {α} (op : α → α → α) (lanes : Nat) : Nat → List α → List (α × Bool) → List α
  | 0, acc, _ => acc
  | fuel + 1, acc, xs =>
    if lanes ≤ xs.length ∧ 0 < lanes then lanesLoop op lanes fuel (accChunk op acc (xs.take lanes)) (xs.drop lanes)
    else accChunk op acc xs

/-- one round of `reduce_accumulators`: `h[i].merge(t[i])` for the two halves -/
def mergeHalves {α} (op : α → α → α) (acc : List α) (mid : Nat) : List α :=
  List.zipWith op (acc.take mid) ((acc.drop mid).take mid)

/-- `reduce_accumulators`: `while len >= 2 { mid = len/2; …; len /= 2 }; acc[0]` -/
def reduceAccumulators {α} (op : α → α → α) (e : α) : Nat → List α → α
  | 0, acc => acc.headD e
  | fuel + 1, acc =>
    if acc.length ≥ 2 then reduceAccumulators op e fuel (mergeHalves op acc (acc.length / 2))
    else acc.headD e

/-- `aggregate::<T, P, A>` for a commutative accumulator with identity `e`
(`SumAccumulator`: wrapping add / 0, `MinAccumulator`: min / MAX_TOTAL_ORDER, …) -/
def aggregateLanes {α} (op : α → α → α) (e : α) (lanes : Nat) (vals : List α) (valid : List Bool) : Option α :=
  if (valid.zip vals).all (fun p => !p.1) then none else
  let acc := lanesLoop op lanes (vals.length + 1) (List.replicate lanes e) (vals.zip valid)
  some (reduceAccumulators op e (lanes + 1) acc)

/-- `sum_checked`: `try_fold` over the valid slots in index order, `add_checked` -/
def sumCheckedLoop (add : Int → Int → Except Err Int) : Int → List Int → List Bool → Except Err Int
  | acc, x :: xs, v :: vs =>
    if v then
      match add acc x with
      | .ok s => sumCheckedLoop add s xs vs
      | .error e => .error e
    else sumCheckedLoop add acc xs vs
  | acc, _, _ => .ok acc

def sumChecked (add : Int → Int → Except Err Int) (vals : List Int) (valid : List Bool) : Except Err (Option Int) :=
  if (valid.zip vals).all (fun p => !p.1) then .ok none else
  (sumCheckedLoop add 0 vals valid).map some

/-- `bit_and` / `bit_or` / `bit_xor`: fold over the valid slots -/
def bitAggregate (op : Int → Int → Int) (e : Int) (vals : List Int) (valid : List Bool) : Option Int :=
  if (valid.zip vals).all (fun p => !p.1) then none else
  some ((vals.zip valid).foldl (fun acc p => if p.2 then op acc p.1 else acc) e)

/-! ## §5 `boolean.rs` — Kleene logic on 64-bit words
`a` = left validity, `b` = left values, `c` = right validity, `d` = right values -/

/-- `and_kleene` validity, both sides nullable: `(a | (c & !d)) & (c | (a & !b))` -/
def andKleeneValidity (a b c d : BitVec 64) : BitVec 64 := (a ||| (c &&& ~~~d)) &&& (c ||| (a &&& ~~~b))
/-- `and_kleene` validity, only one side nullable (`a` its validity, `b` the other side's values): `a | !b` -/
def andKleeneValidity1 (a b : BitVec 64) : BitVec 64 := a ||| ~~~b
/-- `and_kleene` values: `left_values & right_values` -/
def andKleeneValues (b d : BitVec 64) : BitVec 64 := b &&& d
/-- `or_kleene` validity, both sides nullable: `(a | (c & d)) & (c | (a & b))` -/
def orKleeneValidity (a b c d : BitVec 64) : BitVec 64 := (a ||| (c &&& d)) &&& (c ||| (a &&& b))
/-- `or_kleene` validity, one side nullable: `a | b` -/
def orKleeneValidity1 (a b : BitVec 64) : BitVec 64 := a ||| b
/-- `or_kleene` values: `left_values | right_values` -/
def orKleeneValues (b d : BitVec 64) : BitVec 64 := b ||| d

/-- bit-level versions used by the driver on bit lists (same formulas) -/
def andKleeneBit (a b c d : Bool) : Bool × Bool := ((a || (c && !d)) && (c || (a && !b)), b && d)
def orKleeneBit (a b c d : Bool) : Bool × Bool := ((a || (c && d)) && (c || (a && b)), b || d)

/-- logical value of a (validity, value) bit pair -/
def optBit (valid value : Bool) : Option Bool := if valid then some value else none

/-! ## §6 `numeric.rs` — decimal result types as written (`i8`/`u8` arithmetic) -/

def satI8 (x : Int) : Int := max (-128) (min 127 x)
def wrapI8 (x : Int) : Int := (x + 128) % 256 - 128
def asU8 (x : Int) : Int := x % 256
def satU8 (x : Int) : Int := max 0 (min 255 x)

/-- add/sub: `(result_scale.saturating_add((p1 as i8 - s1).max(p2 as i8 - s2)) as u8).saturating_add(1).min(MAX_PRECISION)` -/
def decAddTypeM (maxP : Int) (p1 s1 p2 s2 : Int) : Int × Int :=
  let result_scale := max s1 s2
  let result_precision := min (satU8 (asU8 (satI8 (result_scale + max (wrapI8 (p1 - s1)) (wrapI8 (p2 - s2)))) + 1)) maxP
  (result_precision, result_scale)

/-- mul: `p1.saturating_add(p2 + 1).min(MAX_PRECISION)`, `s1.saturating_add(s2)` -/
def decMulTypeM (maxP : Int) (p1 s1 p2 s2 : Int) : Int × Int :=
  (min (satU8 (p1 + asU8 (p2 + 1))) maxP, satI8 (s1 + s2))

/-- div: `result_scale = s1.saturating_add(4).min(MAX_SCALE)`, `mul_pow = result_scale - s1 + s2`,
`(mul_pow.saturating_add(p1 as i8) as u8).min(MAX_PRECISION)` -/
def decDivTypeM (maxP maxS : Int) (p1 s1 _p2 s2 : Int) : (Int × Int) × Int :=
  let result_scale := min (satI8 (s1 + DECIMAL_DIV_SCALE_INCREMENT)) maxS
  let mul_pow := wrapI8 (wrapI8 (result_scale - s1) + s2)
  let result_precision := min (asU8 (satI8 (mul_pow + wrapI8 p1))) maxP
  ((result_precision, result_scale), mul_pow)

/-- rem: `(result_scale.saturating_add((p1 as i8 - s1).min(p2 as i8 - s2)) as u8).min(MAX_PRECISION)` -/
def decRemTypeM (maxP : Int) (p1 s1 p2 s2 : Int) : Int × Int :=
  let result_scale := max s1 s2
  let result_precision := min (asU8 (satI8 (result_scale + min (wrapI8 (p1 - s1)) (wrapI8 (p2 - s2))))) maxP
  (result_precision, result_scale)

/-- `validate_decimal_precision_and_scale` -/
def decTypeValid (maxP maxS : Int) (p s : Int) : Bool :=
  !(p == 0) && !(decide (p > maxP)) && !(decide (s > maxS)) && !(decide (s > 0) && decide (s > p))

end ArrowModel.C12
