import ArrowModel.C12.Model
/-
C12 — helper lemmas: the two-limb `i256` code against `Int` arithmetic (§1), list inductions
for the `arity.rs` loops (§3) and the lane-split aggregates (§4).
-/
set_option linter.unusedSimpArgs false
set_option linter.unusedVariables false
namespace ArrowModel.C12
open ArrowModel.Generated.C12

/-! ## §1 i256 limbs -/

theorem asI128_eq (n : Nat) : asI128 n = wrapI128 (n : Int) := by
  simp only [asI128, wrapI128]
  by_cases h : n % 2 ^ 128 < 2 ^ 127 <;> simp only [h, ↓reduceIte] <;> omega

theorem addHigh_eq (x y : Int) (c : Nat) :
    asI128 (wrapU128 (wrapU128 (asU128 x + asU128 y) + c)) = wrapI128 (x + y + c) := by
  rw [asI128_eq]
  simp only [wrapU128, asU128, wrapI128]
  omega

theorem overflowingAdd_spec (a b : I256) (ha : a.WF) (hb : b.WF) :
    (a.overflowingAdd b).1.WF ∧ (a.overflowingAdd b).1.value = wrap256 (a.value + b.value) ∧
    ((a.overflowingAdd b).2 = true ↔ ¬ (-(2^255 : Int) ≤ a.value + b.value ∧ a.value + b.value < 2^255)) := by
  obtain ⟨alo, ahi⟩ := a
  obtain ⟨blo, bhi⟩ := b
  simp only [I256.WF] at ha hb
  simp only [I256.overflowingAdd, overflowingAddU, addHigh_eq]
  simp only [I256.WF, I256.value, wrap256, wrapU128, wrapI128, b2n]
  by_cases hcar : 2 ^ 128 ≤ alo + blo <;> simp only [hcar, decide_true, decide_false, ↓reduceIte, Bool.false_eq_true] <;>
  by_cases h1 : ahi < 0 <;> by_cases h2 : bhi < 0 <;>
  simp only [h1, h2, decide_true, decide_false, Bool.true_and, Bool.false_and, beq_self_eq_true, bne_iff_ne, ne_eq, decide_eq_true_eq, decide_eq_false_iff_not, Bool.false_eq_true, false_iff, Bool.and_eq_true, beq_iff_eq, not_false_eq_true, not_true_eq_false, false_and, true_and, reduceCtorEq] <;> omega


theorem subHigh_eq (x y : Int) (c : Nat) (hc : c ≤ 1) :
    asI128 (wrappingSubU (wrappingSubU (asU128 x) (asU128 y)) c) = wrapI128 (x - y - c) := by
  rw [asI128_eq]
  simp only [wrappingSubU, wrapU128, asU128, wrapI128]
  omega

theorem wrappingSub_value (a b : I256) (ha : a.WF) (hb : b.WF) :
    (a.wrappingSub b).WF ∧ (a.wrappingSub b).value = wrap256 (a.value - b.value) := by
  obtain ⟨alo, ahi⟩ := a
  obtain ⟨blo, bhi⟩ := b
  simp only [I256.WF] at ha hb
  simp only [I256.wrappingSub, overflowingSubU, wrapU128, wrapI128, b2i, I256.WF, I256.value, wrap256]
  by_cases hc : alo < blo <;> simp only [hc, decide_true, decide_false, ↓reduceIte, Bool.false_eq_true] <;> omega

theorem overflowingSub_spec (a b : I256) (ha : a.WF) (hb : b.WF) :
    (a.overflowingSub b).1.WF ∧ (a.overflowingSub b).1.value = wrap256 (a.value - b.value) ∧
    ((a.overflowingSub b).2 = true ↔ ¬ (-(2^255 : Int) ≤ a.value - b.value ∧ a.value - b.value < 2^255)) := by
  obtain ⟨alo, ahi⟩ := a
  obtain ⟨blo, bhi⟩ := b
  simp only [I256.WF] at ha hb
  have hc : b2n (decide (alo < blo)) ≤ 1 := by simp only [b2n]; split <;> omega
  simp only [I256.overflowingSub, overflowingSubU, subHigh_eq _ _ _ hc]
  simp only [I256.WF, I256.value, wrap256, wrapU128, wrapI128, b2n]
  by_cases hcar : alo < blo <;> simp only [hcar, decide_true, decide_false, ↓reduceIte, Bool.false_eq_true] <;>
  by_cases h1 : ahi < 0 <;> by_cases h2 : bhi < 0 <;>
  simp only [h1, h2, decide_true, decide_false, Bool.true_and, Bool.false_and, beq_self_eq_true, bne_iff_ne, ne_eq, decide_eq_true_eq, decide_eq_false_iff_not, Bool.false_eq_true, false_iff, Bool.and_eq_true, beq_iff_eq, not_false_eq_true, not_true_eq_false, false_and, true_and, reduceCtorEq] <;> omega

theorem wrappingNeg_value (a : I256) (ha : a.WF) :
    a.wrappingNeg.WF ∧ a.wrappingNeg.value = wrap256 (- a.value) := by
  obtain ⟨alo, ahi⟩ := a
  simp only [I256.WF] at ha
  simp only [I256.wrappingNeg, I256.fromParts, notU128, notI128, I256.ONE, I256.wrappingAdd, overflowingAddU, wrapU128, wrapI128, b2i, I256.WF, I256.value, wrap256]
  by_cases hc : 2 ^ 128 ≤ 2 ^ 128 - 1 - alo % 2 ^ 128 + 1 <;> simp only [hc, decide_true, decide_false, ↓reduceIte, Bool.false_eq_true] <;> omega

theorem isEq_iff (a b : I256) : a.isEq b = true ↔ a = b := by
  obtain ⟨alo, ahi⟩ := a
  obtain ⟨blo, bhi⟩ := b
  simp [I256.isEq, and_comm]

theorem value_inj (a b : I256) (ha : a.WF) (hb : b.WF) (h : a.value = b.value) : a = b := by
  obtain ⟨alo, ahi⟩ := a
  obtain ⟨blo, bhi⟩ := b
  simp only [I256.WF, I256.value] at *
  have : alo = blo ∧ ahi = bhi := by omega
  rw [this.1, this.2]

theorem checkedNeg_spec (a : I256) (ha : a.WF) :
    (∀ r, a.checkedNeg = some r → r.WF ∧ r.value = - a.value) ∧
    (a.checkedNeg = none ↔ ¬ (-(2^255 : Int) ≤ -a.value ∧ -a.value < 2^255)) := by
  have hn := wrappingNeg_value a ha
  simp only [I256.checkedNeg]
  by_cases h : a.isEq I256.MIN = true
  · rw [isEq_iff] at h
    subst h
    simp [I256.isEq, I256.MIN, I256.value]
  · have h' : a ≠ I256.MIN := fun e => h ((isEq_iff _ _).2 e)
    simp only [h, Bool.not_eq_true] at *
    simp only [Bool.not_false, ↓reduceIte, Option.some.injEq, reduceCtorEq, false_iff, Decidable.not_not]
    have hv : a.value ≠ -(2^255 : Int) := by
      intro e
      apply h'
      apply value_inj a I256.MIN ha (by simp [I256.WF, I256.MIN])
      rw [e]; simp [I256.MIN, I256.value]
    obtain ⟨alo, ahi⟩ := a
    simp only [I256.WF, I256.value, wrap256] at *
    constructor
    · intro r hr; subst hr; omega
    · omega

theorem cmp_eq (a b : I256) (ha : a.WF) (hb : b.WF) : a.cmp b = compare a.value b.value := by
  obtain ⟨alo, ahi⟩ := a
  obtain ⟨blo, bhi⟩ := b
  simp only [I256.WF, I256.value, I256.cmp] at *
  rcases Int.lt_trichotomy ahi bhi with h | h | h
  · rw [Int.compare_eq_lt.2 h]; simp only [Ordering.then]; symm; rw [Int.compare_eq_lt]; omega
  · subst h; simp only [Int.compare_eq_eq.2 rfl, Ordering.then]
    rcases Nat.lt_trichotomy alo blo with h | h | h
    · rw [Nat.compare_eq_lt.2 h]; symm; rw [Int.compare_eq_lt]; omega
    · subst h; simp
    · rw [Nat.compare_eq_gt.2 h]; symm; rw [Int.compare_eq_gt]; omega
  · rw [Int.compare_eq_gt.2 h]; simp only [Ordering.then]; symm; rw [Int.compare_eq_gt]; omega


theorem xor_allOnes (x : Nat) (hx : x < 2 ^ 128) : x ^^^ (2 ^ 128 - 1) = 2 ^ 128 - 1 - x := by
  apply Nat.eq_of_testBit_eq
  intro i
  have h2 : 2 ^ 128 - 1 - x = 2 ^ 128 - (x + 1) := by omega
  rw [h2, Nat.testBit_xor, Nat.testBit_two_pow_sub_one, Nat.testBit_two_pow_sub_succ hx]
  by_cases hi : i < 128
  · simp [hi]
  · simp only [hi, decide_false, Bool.false_and, Bool.bne_false]
    exact Nat.testBit_lt_two_pow (Nat.lt_of_lt_of_le hx (Nat.pow_le_pow_right (by omega) (by omega)))

theorem sar127 (x : Int) (hx : -(2^127 : Int) ≤ x ∧ x < 2^127) :
    x >>> 127 = if x < 0 then -1 else 0 := by
  rw [Int.shiftRight_eq_div_pow]
  split <;> omega

theorem fromI128_value (v : Int) (hv : -(2^127 : Int) ≤ v ∧ v < 2^127) :
    (I256.fromI128 v).WF ∧ (I256.fromI128 v).value = v := by
  simp only [I256.fromI128, I256.fromParts, FROM_I128_SIGN_SHIFT, sar127 v hv, I256.WF, I256.value, asU128]
  split <;> omega


theorem toI128_spec (a : I256) (ha : a.WF) :
    a.toI128 = if -(2^127 : Int) ≤ a.value ∧ a.value < 2^127 then some a.value else none := by
  obtain ⟨alo, ahi⟩ := a
  generalize hv : I256.value ⟨alo, ahi⟩ = v
  have hv' : v = ahi * 2 ^ 128 + (alo : Int) := by rw [← hv]; rfl
  simp only [I256.WF] at ha
  simp only [I256.toI128]
  generalize hw : asI128 alo = w
  have hw' : (alo < 2 ^ 127 → w = alo) ∧ (¬ alo < 2 ^ 127 → w = (alo : Int) - 2 ^ 128) := by
    rw [← hw, asI128_eq]; simp only [wrapI128]; omega
  by_cases h3 : ahi = -1
  · subst h3
    by_cases hlt : alo < 2 ^ 127
    · have hwn : ¬ w < 0 := by omega
      have hr : ¬ (-(2^127 : Int) ≤ v ∧ v < 2^127) := by omega
      rw [if_neg hr]; simp [hwn]
    · have hwn : w < 0 := by omega
      have hr : (-(2^127 : Int) ≤ v ∧ v < 2^127) := by omega
      have he : w = v := by omega
      rw [if_pos hr, ← he]; simp [hwn]
  · by_cases h4 : ahi = 0
    · subst h4
      by_cases hlt : alo < 2 ^ 127
      · have hwn : ¬ w < 0 := by omega
        have hr : (-(2^127 : Int) ≤ v ∧ v < 2^127) := by omega
        have he : w = v := by omega
        rw [if_pos hr, ← he]; simp [hwn]
      · have hwn : w < 0 := by omega
        have hr : ¬ (-(2^127 : Int) ≤ v ∧ v < 2^127) := by omega
        rw [if_neg hr]; simp [hwn]
    · have hr : ¬ (-(2^127 : Int) ≤ v ∧ v < 2^127) := by omega
      rw [if_neg hr]; simp [h3, h4]

theorem wrappingAbs_value (a : I256) (ha : a.WF) :
    a.wrappingAbs.WF ∧ a.wrappingAbs.value = wrap256 (if a.value < 0 then - a.value else a.value) := by
  obtain ⟨alo, ahi⟩ := a
  generalize hv : I256.value ⟨alo, ahi⟩ = v
  have hv' : v = ahi * 2 ^ 128 + (alo : Int) := by rw [← hv]; rfl
  simp only [I256.WF] at ha
  simp only [I256.wrappingAbs, ABS_SIGN_SHIFT, sar127 ahi ⟨ha.2.1, ha.2.2⟩, I256.fromParts]
  by_cases hn : ahi < 0
  · simp only [hn, ↓reduceIte]
    have e1 : asU128 (-1) = 2 ^ 128 - 1 := by decide
    have hA : (asU128 ahi : Int) = ahi + 2 ^ 128 := by simp only [asU128]; omega
    have hahi : asU128 ahi < 2 ^ 128 := by omega
    rw [e1, xor_allOnes alo ha.1, xor_allOnes _ hahi, asI128_eq]
    have hH : wrapI128 ((2 ^ 128 - 1 - asU128 ahi : Nat) : Int) = -ahi - 1 := by
      simp only [wrapI128]; omega
    rw [hH]
    have hw := wrappingSub_value ⟨2 ^ 128 - 1 - alo, -ahi - 1⟩ ⟨2 ^ 128 - 1, -1⟩
      (by simp only [I256.WF]; omega) (by simp only [I256.WF]; omega)
    refine ⟨hw.1, ?_⟩
    rw [hw.2]
    have hneg : v < 0 := by omega
    rw [if_pos hneg]
    have hd : I256.value ⟨2 ^ 128 - 1 - alo, -ahi - 1⟩ - I256.value ⟨2 ^ 128 - 1, -1⟩ = -v := by
      simp only [I256.value]; omega
    rw [hd]
  · simp only [hn, ↓reduceIte]
    have e0 : asU128 0 = 0 := by decide
    have hA : (asU128 ahi : Int) = ahi := by simp only [asU128]; omega
    rw [e0, Nat.xor_zero, Nat.xor_zero, asI128_eq]
    have hH : wrapI128 ((asU128 ahi : Nat) : Int) = ahi := by
      simp only [wrapI128]; omega
    rw [hH]
    have hw := wrappingSub_value ⟨alo, ahi⟩ ⟨0, 0⟩
      (by simp only [I256.WF]; omega) (by simp only [I256.WF]; omega)
    refine ⟨hw.1, ?_⟩
    rw [hw.2]
    have hneg : ¬ v < 0 := by omega
    rw [if_neg hneg]
    have hd : I256.value ⟨alo, ahi⟩ - I256.value ⟨0, 0⟩ = v := by
      simp only [I256.value]; omega
    rw [hd]

end ArrowModel.C12
