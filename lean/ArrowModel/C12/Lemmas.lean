import ArrowModel.C12.Model
/-
C12 — helper lemmas: the two-limb `i256` code against `Int` arithmetic (§1), list inductions
for the `arity.rs` loops (§3) and the lane-split aggregates (§4).
-/
set_option linter.unusedSimpArgs false
set_option linter.unusedVariables false
set_option linter.unusedSectionVars false
namespace ArrowModel.C12
open ArrowModel.Generated.C12

/-! ## §1 i256 limbs -/

theorem wrappingAdd_value (a b : I256) (ha : a.WF) (hb : b.WF) :
    (a.wrappingAdd b).WF ∧ (a.wrappingAdd b).value = wrap256 (a.value + b.value) := by
  obtain ⟨alo, ahi⟩ := a
  obtain ⟨blo, bhi⟩ := b
  simp only [I256.WF] at ha hb
  simp only [I256.wrappingAdd, overflowingAddU, wrapU128, wrapI128, b2i, I256.WF, I256.value, wrap256]
  by_cases hc : 2 ^ 128 ≤ alo + blo <;> simp only [hc, decide_true, decide_false, ↓reduceIte, Bool.false_eq_true] <;> omega


theorem asI128_eq (n : Nat) : asI128 n = wrapI128 (n : Int) := by
  simp only [asI128, wrapI128]
  by_cases h : n % 2 ^ 128 < 2 ^ 127 <;> simp only [h, ↓reduceIte] <;> omega

theorem addHigh_eq (x y : Int) (c : Nat) :
    asI128 (wrapU128 (wrapU128 (asU128 x + asU128 y) + c)) = wrapI128 (x + y + c) := by
  rw [asI128_eq]
  simp only [wrapU128, asU128, wrapI128]
  omega

theorem overflowingAdd_spec (a b : I256) (ha : a.WF) (hb : b.WF) :
    (a.overflowingAdd b).1.WF ∧ (a.overflowingAdd b).1.value = wrap256 (a.value + b.value) ∧
    ((a.overflowingAdd b).2 = true ↔ ¬ (-(2^255 : Int) ≤ a.value + b.value ∧ a.value + b.value < 2^255)) := by
  obtain ⟨alo, ahi⟩ := a
  obtain ⟨blo, bhi⟩ := b
  simp only [I256.WF] at ha hb
  simp only [I256.overflowingAdd, overflowingAddU, addHigh_eq]
  simp only [I256.WF, I256.value, wrap256, wrapU128, wrapI128, b2n]
  by_cases hcar : 2 ^ 128 ≤ alo + blo <;> simp only [hcar, decide_true, decide_false, ↓reduceIte, Bool.false_eq_true] <;>
  by_cases h1 : ahi < 0 <;> by_cases h2 : bhi < 0 <;>
  simp only [h1, h2, decide_true, decide_false, Bool.true_and, Bool.false_and, beq_self_eq_true, bne_iff_ne, ne_eq, decide_eq_true_eq, decide_eq_false_iff_not, Bool.false_eq_true, false_iff, Bool.and_eq_true, beq_iff_eq, not_false_eq_true, not_true_eq_false, false_and, true_and, reduceCtorEq] <;> omega


theorem subHigh_eq (x y : Int) (c : Nat) (hc : c ≤ 1) :
    asI128 (wrappingSubU (wrappingSubU (asU128 x) (asU128 y)) c) = wrapI128 (x - y - c) := by
  rw [asI128_eq]
  simp only [wrappingSubU, wrapU128, asU128, wrapI128]
  omega

theorem wrappingSub_value (a b : I256) (ha : a.WF) (hb : b.WF) :
    (a.wrappingSub b).WF ∧ (a.wrappingSub b).value = wrap256 (a.value - b.value) := by
  obtain ⟨alo, ahi⟩ := a
  obtain ⟨blo, bhi⟩ := b
  simp only [I256.WF] at ha hb
  simp only [I256.wrappingSub, overflowingSubU, wrapU128, wrapI128, b2i, I256.WF, I256.value, wrap256]
  by_cases hc : alo < blo <;> simp only [hc, decide_true, decide_false, ↓reduceIte, Bool.false_eq_true] <;> omega

theorem overflowingSub_spec (a b : I256) (ha : a.WF) (hb : b.WF) :
    (a.overflowingSub b).1.WF ∧ (a.overflowingSub b).1.value = wrap256 (a.value - b.value) ∧
    ((a.overflowingSub b).2 = true ↔ ¬ (-(2^255 : Int) ≤ a.value - b.value ∧ a.value - b.value < 2^255)) := by
  obtain ⟨alo, ahi⟩ := a
  obtain ⟨blo, bhi⟩ := b
  simp only [I256.WF] at ha hb
  have hc : b2n (decide (alo < blo)) ≤ 1 := by simp only [b2n]; split <;> omega
  simp only [I256.overflowingSub, overflowingSubU, subHigh_eq _ _ _ hc]
  simp only [I256.WF, I256.value, wrap256, wrapU128, wrapI128, b2n]
  by_cases hcar : alo < blo <;> simp only [hcar, decide_true, decide_false, ↓reduceIte, Bool.false_eq_true] <;>
  by_cases h1 : ahi < 0 <;> by_cases h2 : bhi < 0 <;>
  simp only [h1, h2, decide_true, decide_false, Bool.true_and, Bool.false_and, beq_self_eq_true, bne_iff_ne, ne_eq, decide_eq_true_eq, decide_eq_false_iff_not, Bool.false_eq_true, false_iff, Bool.and_eq_true, beq_iff_eq, not_false_eq_true, not_true_eq_false, false_and, true_and, reduceCtorEq] <;> omega

theorem wrappingNeg_value (a : I256) (ha : a.WF) :
    a.wrappingNeg.WF ∧ a.wrappingNeg.value = wrap256 (- a.value) := by
  obtain ⟨alo, ahi⟩ := a
  simp only [I256.WF] at ha
  simp only [I256.wrappingNeg, I256.fromParts, notU128, notI128, I256.ONE, I256.wrappingAdd, overflowingAddU, wrapU128, wrapI128, b2i, I256.WF, I256.value, wrap256]
  by_cases hc : 2 ^ 128 ≤ 2 ^ 128 - 1 - alo % 2 ^ 128 + 1 <;> simp only [hc, decide_true, decide_false, ↓reduceIte, Bool.false_eq_true] <;> omega

theorem isEq_iff (a b : I256) : a.isEq b = true ↔ a = b := by
  obtain ⟨alo, ahi⟩ := a
  obtain ⟨blo, bhi⟩ := b
  simp [I256.isEq, and_comm]

theorem value_inj (a b : I256) (ha : a.WF) (hb : b.WF) (h : a.value = b.value) : a = b := by
  obtain ⟨alo, ahi⟩ := a
  obtain ⟨blo, bhi⟩ := b
  simp only [I256.WF, I256.value] at *
  have : alo = blo ∧ ahi = bhi := by omega
  rw [this.1, this.2]

theorem checkedNeg_spec (a : I256) (ha : a.WF) :
    (∀ r, a.checkedNeg = some r → r.WF ∧ r.value = - a.value) ∧
    (a.checkedNeg = none ↔ ¬ (-(2^255 : Int) ≤ -a.value ∧ -a.value < 2^255)) := by
  have hn := wrappingNeg_value a ha
  simp only [I256.checkedNeg]
  by_cases h : a.isEq I256.MIN = true
  · rw [isEq_iff] at h
    subst h
    simp [I256.isEq, I256.MIN, I256.value]
  · have h' : a ≠ I256.MIN := fun e => h ((isEq_iff _ _).2 e)
    simp only [h, Bool.not_eq_true] at *
    simp only [Bool.not_false, ↓reduceIte, Option.some.injEq, reduceCtorEq, false_iff, Decidable.not_not]
    have hv : a.value ≠ -(2^255 : Int) := by
      intro e
      apply h'
      apply value_inj a I256.MIN ha (by simp [I256.WF, I256.MIN])
      rw [e]; simp [I256.MIN, I256.value]
    obtain ⟨alo, ahi⟩ := a
    simp only [I256.WF, I256.value, wrap256] at *
    constructor
    · intro r hr; subst hr; omega
    · omega

theorem cmp_eq (a b : I256) (ha : a.WF) (hb : b.WF) : a.cmp b = compare a.value b.value := by
  obtain ⟨alo, ahi⟩ := a
  obtain ⟨blo, bhi⟩ := b
  simp only [I256.WF, I256.value, I256.cmp] at *
  rcases Int.lt_trichotomy ahi bhi with h | h | h
  · rw [Int.compare_eq_lt.2 h]; simp only [Ordering.then]; symm; rw [Int.compare_eq_lt]; omega
  · subst h; simp only [Int.compare_eq_eq.2 rfl, Ordering.then]
    rcases Nat.lt_trichotomy alo blo with h | h | h
    · rw [Nat.compare_eq_lt.2 h]; symm; rw [Int.compare_eq_lt]; omega
    · subst h; simp
    · rw [Nat.compare_eq_gt.2 h]; symm; rw [Int.compare_eq_gt]; omega
  · rw [Int.compare_eq_gt.2 h]; simp only [Ordering.then]; symm; rw [Int.compare_eq_gt]; omega


theorem xor_allOnes (x : Nat) (hx : x < 2 ^ 128) : x ^^^ (2 ^ 128 - 1) = 2 ^ 128 - 1 - x := by
  apply Nat.eq_of_testBit_eq
  intro i
  have h2 : 2 ^ 128 - 1 - x = 2 ^ 128 - (x + 1) := by omega
  rw [h2, Nat.testBit_xor, Nat.testBit_two_pow_sub_one, Nat.testBit_two_pow_sub_succ hx]
  by_cases hi : i < 128
  · simp [hi]
  · simp only [hi, decide_false, Bool.false_and, Bool.bne_false]
    exact Nat.testBit_lt_two_pow (Nat.lt_of_lt_of_le hx (Nat.pow_le_pow_right (by omega) (by omega)))

theorem sar127 (x : Int) (hx : -(2^127 : Int) ≤ x ∧ x < 2^127) :
    x >>> 127 = if x < 0 then -1 else 0 := by
  rw [Int.shiftRight_eq_div_pow]
  split <;> omega

theorem fromI128_value (v : Int) (hv : -(2^127 : Int) ≤ v ∧ v < 2^127) :
    (I256.fromI128 v).WF ∧ (I256.fromI128 v).value = v := by
  simp only [I256.fromI128, I256.fromParts, FROM_I128_SIGN_SHIFT, sar127 v hv, I256.WF, I256.value, asU128]
  split <;> omega


theorem toI128_spec (a : I256) (ha : a.WF) :
    a.toI128 = if -(2^127 : Int) ≤ a.value ∧ a.value < 2^127 then some a.value else none := by
  obtain ⟨alo, ahi⟩ := a
  generalize hv : I256.value ⟨alo, ahi⟩ = v
  have hv' : v = ahi * 2 ^ 128 + (alo : Int) := by rw [← hv]; rfl
  simp only [I256.WF] at ha
  simp only [I256.toI128]
  generalize hw : asI128 alo = w
  have hw' : (alo < 2 ^ 127 → w = alo) ∧ (¬ alo < 2 ^ 127 → w = (alo : Int) - 2 ^ 128) := by
    rw [← hw, asI128_eq]; simp only [wrapI128]; omega
  by_cases h3 : ahi = -1
  · subst h3
    by_cases hlt : alo < 2 ^ 127
    · have hwn : ¬ w < 0 := by omega
      have hr : ¬ (-(2^127 : Int) ≤ v ∧ v < 2^127) := by omega
      rw [if_neg hr]; simp [hwn]
    · have hwn : w < 0 := by omega
      have hr : (-(2^127 : Int) ≤ v ∧ v < 2^127) := by omega
      have he : w = v := by omega
      rw [if_pos hr, ← he]; simp [hwn]
  · by_cases h4 : ahi = 0
    · subst h4
      by_cases hlt : alo < 2 ^ 127
      · have hwn : ¬ w < 0 := by omega
        have hr : (-(2^127 : Int) ≤ v ∧ v < 2^127) := by omega
        have he : w = v := by omega
        rw [if_pos hr, ← he]; simp [hwn]
      · have hwn : w < 0 := by omega
        have hr : ¬ (-(2^127 : Int) ≤ v ∧ v < 2^127) := by omega
        rw [if_neg hr]; simp [hwn]
    · have hr : ¬ (-(2^127 : Int) ≤ v ∧ v < 2^127) := by omega
      rw [if_neg hr]; simp [h3, h4]

theorem wrappingAbs_value (a : I256) (ha : a.WF) :
    a.wrappingAbs.WF ∧ a.wrappingAbs.value = wrap256 (if a.value < 0 then - a.value else a.value) := by
  obtain ⟨alo, ahi⟩ := a
  generalize hv : I256.value ⟨alo, ahi⟩ = v
  have hv' : v = ahi * 2 ^ 128 + (alo : Int) := by rw [← hv]; rfl
  simp only [I256.WF] at ha
  simp only [I256.wrappingAbs, ABS_SIGN_SHIFT, sar127 ahi ⟨ha.2.1, ha.2.2⟩, I256.fromParts]
  by_cases hn : ahi < 0
  · simp only [hn, ↓reduceIte]
    have e1 : asU128 (-1) = 2 ^ 128 - 1 := by decide
    have hA : (asU128 ahi : Int) = ahi + 2 ^ 128 := by simp only [asU128]; omega
    have hahi : asU128 ahi < 2 ^ 128 := by omega
    rw [e1, xor_allOnes alo ha.1, xor_allOnes _ hahi, asI128_eq]
    have hH : wrapI128 ((2 ^ 128 - 1 - asU128 ahi : Nat) : Int) = -ahi - 1 := by
      simp only [wrapI128]; omega
    rw [hH]
    have hw := wrappingSub_value ⟨2 ^ 128 - 1 - alo, -ahi - 1⟩ ⟨2 ^ 128 - 1, -1⟩
      (by simp only [I256.WF]; omega) (by simp only [I256.WF]; omega)
    refine ⟨hw.1, ?_⟩
    rw [hw.2]
    have hneg : v < 0 := by omega
    rw [if_pos hneg]
    have hd : I256.value ⟨2 ^ 128 - 1 - alo, -ahi - 1⟩ - I256.value ⟨2 ^ 128 - 1, -1⟩ = -v := by
      simp only [I256.value]; omega
    rw [hd]
  · simp only [hn, ↓reduceIte]
    have e0 : asU128 0 = 0 := by decide
    have hA : (asU128 ahi : Int) = ahi := by simp only [asU128]; omega
    rw [e0, Nat.xor_zero, Nat.xor_zero, asI128_eq]
    have hH : wrapI128 ((asU128 ahi : Nat) : Int) = ahi := by
      simp only [wrapI128]; omega
    rw [hH]
    have hw := wrappingSub_value ⟨alo, ahi⟩ ⟨0, 0⟩
      (by simp only [I256.WF]; omega) (by simp only [I256.WF]; omega)
    refine ⟨hw.1, ?_⟩
    rw [hw.2]
    have hneg : ¬ v < 0 := by omega
    rw [if_neg hneg]
    have hd : I256.value ⟨alo, ahi⟩ - I256.value ⟨0, 0⟩ = v := by
      simp only [I256.value]; omega
    rw [hd]

/-! ### multiplication -/

theorem mul_lt_64 (x y : Nat) (hx : x < 2 ^ 64) (hy : y < 2 ^ 64) : x * y ≤ (2 ^ 64 - 1) * (2 ^ 64 - 1) :=
  Nat.mul_le_mul (by omega) (by omega)

theorem mulx_exact (a b : Nat) (ha : a < 2 ^ 128) (hb : b < 2 ^ 128) :
    (mulx a b).1 < 2 ^ 128 ∧ (mulx a b).2 < 2 ^ 128 ∧ (mulx a b).1 + 2 ^ 128 * (mulx a b).2 = a * b := by
  simp only [mulx, split64, MASK64, MULX_SPLIT_SHIFT, MULX_CARRY_SHIFT_1, MULX_HIGH_SHIFT_1, MULX_LOW_CARRY_SHIFT,
    MULX_CARRY_SHIFT_2, MULX_HIGH_SHIFT_2, Nat.and_two_pow_sub_one_eq_mod, Nat.shiftRight_eq_div_pow, Nat.shiftLeft_eq, wrapU128]
  have hal : a % 2 ^ 64 < 2 ^ 64 := Nat.mod_lt _ (by omega)
  have hbl : b % 2 ^ 64 < 2 ^ 64 := Nat.mod_lt _ (by omega)
  have hah : a / 2 ^ 64 < 2 ^ 64 := by omega
  have hbh : b / 2 ^ 64 < 2 ^ 64 := by omega
  have h0 := mul_lt_64 _ _ hal hbl
  have h1 := mul_lt_64 _ _ hah hbl
  have h2 := mul_lt_64 _ _ hbh hal
  have h3 := mul_lt_64 _ _ hah hbh
  have hab : a * b = (a / 2 ^ 64 * (b / 2 ^ 64)) * 2 ^ 128 + (a / 2 ^ 64 * (b % 2 ^ 64) + b / 2 ^ 64 * (a % 2 ^ 64)) * 2 ^ 64 + a % 2 ^ 64 * (b % 2 ^ 64) := by
    have ea : a = a / 2 ^ 64 * 2 ^ 64 + a % 2 ^ 64 := by omega
    have eb : b = b / 2 ^ 64 * 2 ^ 64 + b % 2 ^ 64 := by omega
    generalize a / 2 ^ 64 = ah at *
    generalize a % 2 ^ 64 = al at *
    generalize b / 2 ^ 64 = bh at *
    generalize b % 2 ^ 64 = bl at *
    subst ea eb
    grind
  rw [hab]
  generalize a % 2 ^ 64 * (b % 2 ^ 64) = p0 at *
  generalize a / 2 ^ 64 * (b % 2 ^ 64) = p1 at *
  generalize b / 2 ^ 64 * (a % 2 ^ 64) = p2 at *
  generalize a / 2 ^ 64 * (b / 2 ^ 64) = p3 at *
  omega
theorem asI128_cases (n : Nat) (hn : n < 2 ^ 128) :
    (n < 2 ^ 127 ∧ asI128 n = n) ∨ (2 ^ 127 ≤ n ∧ asI128 n = (n : Int) - 2 ^ 128) := by
  rw [asI128_eq]; simp only [wrapI128]; omega

theorem wrappingMul_value (a b : I256) (ha : a.WF) (hb : b.WF) :
    (a.wrappingMul b).WF ∧ (a.wrappingMul b).value = wrap256 (a.value * b.value) := by
  obtain ⟨alo, ahi⟩ := a
  obtain ⟨blo, bhi⟩ := b
  simp only [I256.WF] at ha hb
  have hm := mulx_exact alo blo ha.1 hb.1
  simp only [I256.wrappingMul]
  generalize (mulx alo blo).1 = low at *
  generalize (mulx alo blo).2 = high at *
  have hprod : I256.value ⟨alo, ahi⟩ * I256.value ⟨blo, bhi⟩
      = (ahi * bhi) * 2 ^ 256 + (ahi * (blo : Int) + (alo : Int) * bhi) * 2 ^ 128 + (alo : Int) * (blo : Int) := by
    simp only [I256.value]; grind
  have hT : (alo : Int) * (blo : Int) = (low : Int) + 2 ^ 128 * (high : Int) := by
    have := hm.2.2
    have h2 : ((low + 2 ^ 128 * high : Nat) : Int) = ((alo * blo : Nat) : Int) := by rw [this]
    simp only [Int.natCast_add, Int.natCast_mul, Int.natCast_pow] at h2
    omega
  have hR : ∃ k : Int, ahi * asI128 blo = ahi * (blo : Int) - 2 ^ 128 * k := by
    rcases asI128_cases blo hb.1 with h | h
    · exact ⟨0, by rw [h.2]; omega⟩
    · exact ⟨ahi, by rw [h.2, Int.mul_sub]; first | done | omega⟩
  have hS : ∃ k : Int, asI128 alo * bhi = (alo : Int) * bhi - 2 ^ 128 * k := by
    rcases asI128_cases alo ha.1 with h | h
    · exact ⟨0, by rw [h.2]; omega⟩
    · exact ⟨bhi, by rw [h.2, Int.sub_mul]; first | done | omega⟩
  obtain ⟨k1, hk1⟩ := hR
  obtain ⟨k2, hk2⟩ := hS
  have hH : ∃ k : Int, asI128 high = (high : Int) - 2 ^ 128 * k := by
    rcases asI128_cases high hm.2.1 with h | h
    · exact ⟨0, by omega⟩
    · exact ⟨1, by omega⟩
  obtain ⟨k3, hk3⟩ := hH
  rw [hprod, hk1, hk2, hk3, hT]
  simp only [I256.WF, I256.value, wrap256, wrapI128]
  generalize ahi * bhi = Q at *
  generalize ahi * (blo : Int) = R at *
  generalize (alo : Int) * bhi = S at *
  omega

/-! ### ingredients of `checked_mul` -/

/-- the unsigned magnitude held by `wrapping_abs` (high limb read as `u128`) is `|a|` -/
theorem absU (a : I256) (ha : a.WF) :
    a.wrappingAbs.lo < 2 ^ 128 ∧ asU128 a.wrappingAbs.hi < 2 ^ 128 ∧
    ((asU128 a.wrappingAbs.hi * 2 ^ 128 + a.wrappingAbs.lo : Nat) : Int) = (if a.value < 0 then -a.value else a.value) ∧
    (a.wrappingAbs.hi = 0 ↔ asU128 a.wrappingAbs.hi = 0) := by
  have h := wrappingAbs_value a ha
  generalize a.wrappingAbs = l at *
  obtain ⟨llo, lhi⟩ := l
  obtain ⟨alo, ahi⟩ := a
  simp only [I256.WF, I256.value, wrap256, asU128] at *
  by_cases hn : ahi * 2 ^ 128 + (alo : Int) < 0
  · simp only [hn, ↓reduceIte] at h ⊢
    omega
  · simp only [hn, ↓reduceIte] at h ⊢
    omega

theorem sa_mask (x : Int) (hx : -(2^127 : Int) ≤ x ∧ x < 2^127) :
    asU128 (x >>> 127) = if x < 0 then 2 ^ 128 - 1 else 0 := by
  rw [sar127 x hx]
  split
  · decide
  · decide

theorem prod_expand (ll lh rl rh : Nat) :
    (lh * 2 ^ 128 + ll) * (rh * 2 ^ 128 + rl) = lh * rh * 2 ^ 256 + (lh * rl + ll * rh) * 2 ^ 128 + ll * rl := by
  grind

/-- the unsigned product block: `Some (low, H)` is the exact 256-bit product of the magnitudes -/
theorem mulCore_some (ll lh rl rh low H : Nat) (hll : ll < 2 ^ 128) (hrl : rl < 2 ^ 128)
    (hz : lh = 0 ∨ rh = 0) (h : mulCore ll lh rl rh = some (low, H)) :
    low < 2 ^ 128 ∧ H < 2 ^ 128 ∧ low + 2 ^ 128 * H = (lh * 2 ^ 128 + ll) * (rh * 2 ^ 128 + rl) := by
  have hm := mulx_exact ll rl hll hrl
  have hzz : lh * rh = 0 := by rcases hz with h | h <;> simp [h]
  have hp := prod_expand ll lh rl rh
  generalize (lh * 2 ^ 128 + ll) * (rh * 2 ^ 128 + rl) = X at *
  generalize lh * rh = Z at *
  simp only [mulCore, checkedMulU, checkedAddU] at h
  generalize (mulx ll rl).1 = mlo at *
  generalize (mulx ll rl).2 = mhi at *
  generalize lh * rl = P at *
  generalize ll * rh = Q at *
  generalize ll * rl = T at *
  by_cases h1 : P < 2 ^ 128
  · by_cases h2 : Q < 2 ^ 128
    · by_cases h3 : mhi + P < 2 ^ 128
      · by_cases h4 : mhi + P + Q < 2 ^ 128
        · simp only [h1, h2, h3, h4, ↓reduceIte, Option.some.injEq, Prod.mk.injEq] at h
          omega
        · simp [h1, h2, h3, h4] at h
      · simp [h1, h2, h3] at h
    · simp [h1, h2] at h
  · simp [h1] at h

/-- … and `None` only when that product does not fit in 256 bits -/
theorem mulCore_none (ll lh rl rh : Nat) (hll : ll < 2 ^ 128) (hrl : rl < 2 ^ 128)
    (h : mulCore ll lh rl rh = none) :
    2 ^ 256 ≤ (lh * 2 ^ 128 + ll) * (rh * 2 ^ 128 + rl) := by
  have hm := mulx_exact ll rl hll hrl
  have hp := prod_expand ll lh rl rh
  generalize (lh * 2 ^ 128 + ll) * (rh * 2 ^ 128 + rl) = X at *
  simp only [mulCore, checkedMulU, checkedAddU] at h
  generalize (mulx ll rl).1 = mlo at *
  generalize (mulx ll rl).2 = mhi at *
  generalize lh * rl = P at *
  generalize ll * rh = Q at *
  generalize ll * rl = T at *
  generalize lh * rh = Z at *
  by_cases h1 : P < 2 ^ 128
  · by_cases h2 : Q < 2 ^ 128
    · by_cases h3 : mhi + P < 2 ^ 128
      · by_cases h4 : mhi + P + Q < 2 ^ 128
        · simp [h1, h2, h3, h4] at h
        · omega
      · omega
    · omega
  · omega

theorem signFix_zero (low H : Nat) (hl : low < 2 ^ 128) (hH : H < 2 ^ 128) :
    (signFix low H 0).WF ∧ (signFix low H 0).value = wrap256 ((low : Int) + 2 ^ 128 * (H : Int)) := by
  simp only [signFix, Nat.xor_zero, overflowingSubU, wrappingSubU, wrapU128, b2n, asI128_eq, wrapI128, I256.WF, I256.value, wrap256]
  have : ¬ low < 0 := by omega
  simp only [this, decide_false, Bool.false_eq_true, ↓reduceIte]
  omega

theorem signFix_ones (low H : Nat) (hl : low < 2 ^ 128) (hH : H < 2 ^ 128) :
    (signFix low H (2 ^ 128 - 1)).WF ∧
    (signFix low H (2 ^ 128 - 1)).value = wrap256 (-((low : Int) + 2 ^ 128 * (H : Int))) := by
  simp only [signFix, xor_allOnes low hl, xor_allOnes H hH, overflowingSubU, wrappingSubU, wrapU128, b2n, asI128_eq, wrapI128, I256.WF, I256.value, wrap256]
  by_cases hc : 2 ^ 128 - 1 - low < 2 ^ 128 - 1 <;> simp only [hc, decide_true, decide_false, Bool.false_eq_true, ↓reduceIte] <;> omega

theorem isEq_zero_iff (a : I256) (ha : a.WF) : a.isEq I256.ZERO = true ↔ a.value = 0 := by
  rw [isEq_iff]
  constructor
  · intro h; subst h; simp [I256.value, I256.ZERO]
  · intro h
    exact value_inj a I256.ZERO ha (by simp only [I256.WF, I256.ZERO]; omega) (by rw [h]; simp [I256.value, I256.ZERO])

theorem neg_iff (a : I256) (ha : a.WF) : a.value < 0 ↔ a.hi < 0 := by
  obtain ⟨alo, ahi⟩ := a; simp only [I256.WF, I256.value] at *; omega

/-- the signed product is `±` the product of the magnitudes -/
theorem signed_prod (va vb : Int) (A B : Nat)
    (hA : (A : Int) = if va < 0 then -va else va) (hB : (B : Int) = if vb < 0 then -vb else vb) :
    va * vb = if (va < 0) = (vb < 0) then ((A * B : Nat) : Int) else -((A * B : Nat) : Int) := by
  rw [Int.natCast_mul, hA, hB]
  by_cases h1 : va < 0 <;> by_cases h2 : vb < 0 <;> simp [h1, h2, Int.neg_mul_neg, Int.neg_mul, Int.mul_neg]

/-- final arithmetic step of `checked_mul`, on plain integers: `rv` is the value of the
sign-restored limbs, `M` the magnitude of the product, `neg` whether the signs differ -/
theorem final_step (M : Nat) (rv P : Int) (neg rneg : Bool) (hM : M < 2 ^ 256) (hM0 : 0 < M)
    (hrv : rv = wrap256 (if neg then -(M : Int) else (M : Int)))
    (hP : P = if neg then -(M : Int) else (M : Int)) (hrneg : rneg = decide (rv < 0)) :
    ((rneg == neg) = true → rv = P) ∧
    ((rneg == neg) = false → ¬ (-(2 ^ 255 : Int) ≤ P ∧ P < 2 ^ 255)) := by
  subst hrneg
  cases neg <;> simp only [wrap256, Bool.false_eq_true, ↓reduceIte] at hrv hP <;>
    by_cases h : rv < 0 <;> simp only [h, decide_true, decide_false, beq_self_eq_true, Bool.true_eq_false,
      Bool.false_eq_true, beq_iff_eq, forall_const, false_implies, true_and, and_true, reduceCtorEq, beq_eq_false_iff_ne, ne_eq, not_true_eq_false, not_false_eq_true] <;> omega

theorem xor_masks (x y : Int) :
    ((if x < 0 then 2 ^ 128 - 1 else 0 : Nat) ^^^ (if y < 0 then 2 ^ 128 - 1 else 0 : Nat))
      = if (decide (x < 0) != decide (y < 0)) = true then 2 ^ 128 - 1 else 0 := by
  by_cases h1 : x < 0 <;> by_cases h2 : y < 0 <;> simp [h1, h2]

theorem checkedMul_spec (a b : I256) (ha : a.WF) (hb : b.WF) :
    (∀ r, a.checkedMul b = some r → r.WF ∧ r.value = a.value * b.value) ∧
    (a.checkedMul b = none ↔ ¬ (-(2 ^ 255 : Int) ≤ a.value * b.value ∧ a.value * b.value < 2 ^ 255)) := by
  have hA := absU a ha
  have hB := absU b hb
  have hsa := sa_mask a.hi ⟨ha.2.1, ha.2.2⟩
  have hsb := sa_mask b.hi ⟨hb.2.1, hb.2.2⟩
  have hna := neg_iff a ha
  have hnb := neg_iff b hb
  have hza := isEq_zero_iff a ha
  have hzb := isEq_zero_iff b hb
  have hra : -(2 ^ 255 : Int) ≤ a.value ∧ a.value < 2 ^ 255 := by
    obtain ⟨alo, ahi⟩ := a; simp only [I256.WF, I256.value] at *; omega
  have hrb : -(2 ^ 255 : Int) ≤ b.value ∧ b.value < 2 ^ 255 := by
    obtain ⟨blo, bhi⟩ := b; simp only [I256.WF, I256.value] at *; omega
  unfold I256.checkedMul
  simp only [MUL_L_SIGN_SHIFT, MUL_R_SIGN_SHIFT, hsa, hsb, I256.isNegative, xor_masks]
  generalize a.wrappingAbs = la at *
  generalize b.wrappingAbs = lb at *
  generalize hva : a.value = va at *
  generalize hvb : b.value = vb at *
  by_cases hz : (a.isEq I256.ZERO || b.isEq I256.ZERO) = true
  · rw [if_pos hz]
    have : va = 0 ∨ vb = 0 := by
      simp only [Bool.or_eq_true] at hz
      rcases hz with h | h
      · exact Or.inl (hza.1 h)
      · exact Or.inr (hzb.1 h)
    have hp : va * vb = 0 := by rcases this with h | h <;> simp [h]
    rw [hp]
    refine ⟨?_, ?_⟩
    · intro r hr
      simp only [Option.some.injEq] at hr
      subst hr
      exact ⟨by simp only [I256.WF, I256.ZERO]; omega, by simp [I256.value, I256.ZERO]⟩
    · constructor
      · intro h; exact nomatch h
      · intro h; exact absurd (by omega) h
  · rw [if_neg hz]
    have hva0 : va ≠ 0 := fun h => hz (by simp [hza.2 h])
    have hvb0 : vb ≠ 0 := fun h => hz (by simp [hzb.2 h])
    obtain ⟨A, hAn⟩ : ∃ A, asU128 la.hi * 2 ^ 128 + la.lo = A := ⟨_, rfl⟩
    obtain ⟨B, hBn⟩ : ∃ B, asU128 lb.hi * 2 ^ 128 + lb.lo = B := ⟨_, rfl⟩
    have hA3 : (A : Int) = if va < 0 then -va else va := by rw [← hAn]; exact hA.2.2.1
    have hB3 : (B : Int) = if vb < 0 then -vb else vb := by rw [← hBn]; exact hB.2.2.1
    have hsp := signed_prod va vb A B hA3 hB3
    have hA0 : 0 < A := by
      have := hA3; by_cases h : va < 0 <;> simp only [h, ↓reduceIte] at this <;> omega
    have hB0 : 0 < B := by
      have := hB3; by_cases h : vb < 0 <;> simp only [h, ↓reduceIte] at this <;> omega
    have hAB0 : 0 < A * B := Nat.mul_pos hA0 hB0
    have hsign : ((va < 0) = (vb < 0)) ↔ ¬ ((decide (a.hi < 0) != decide (b.hi < 0)) = true) := by
      by_cases h1 : a.hi < 0 <;> by_cases h2 : b.hi < 0 <;> simp [h1, h2, hna.2, hnb.2, hna, hnb]
    by_cases hhi : (la.hi != 0 && lb.hi != 0) = true
    · -- both magnitudes ≥ 2^128
      rw [if_pos hhi]
      simp only [Bool.and_eq_true, bne_iff_ne, ne_eq] at hhi
      have h1 : 2 ^ 128 ≤ A := by
        have : asU128 la.hi ≠ 0 := fun h => hhi.1 (hA.2.2.2.2 h)
        omega
      have h2 : 2 ^ 128 ≤ B := by
        have : asU128 lb.hi ≠ 0 := fun h => hhi.2 (hB.2.2.2.2 h)
        omega
      have hbig : 2 ^ 128 * 2 ^ 128 ≤ A * B := Nat.mul_le_mul h1 h2
      refine ⟨(fun r hr => nomatch hr), ⟨fun _ => ?_, fun _ => rfl⟩⟩
      rw [hsp]
      generalize A * B = M at *
      split <;> omega
    · rw [if_neg hhi]
      have hz1 : asU128 la.hi = 0 ∨ asU128 lb.hi = 0 := by
        simp only [Bool.and_eq_true, bne_iff_ne, ne_eq] at hhi
        by_cases h : la.hi = 0
        · exact Or.inl (hA.2.2.2.1 h)
        · by_cases h' : lb.hi = 0
          · exact Or.inr (hB.2.2.2.1 h')
          · exact absurd ⟨h, h'⟩ hhi
      cases hc : mulCore la.lo (asU128 la.hi) lb.lo (asU128 lb.hi) with
      | none =>
        have hbig := mulCore_none _ _ _ _ hA.1 hB.1 hc
        rw [hAn, hBn] at hbig
        refine ⟨(fun r hr => nomatch hr), ⟨fun _ => ?_, fun _ => rfl⟩⟩
        rw [hsp]
        generalize A * B = M at *
        split <;> omega
      | some p =>
        obtain ⟨low, H⟩ := p
        have hs := mulCore_some _ _ _ _ low H hA.1 hB.1 hz1 hc
        rw [hAn, hBn] at hs
        simp only []
        have hM : ((A * B : Nat) : Int) = (low : Int) + 2 ^ 128 * (H : Int) := by
          have := hs.2.2
          have h2 : ((low + 2 ^ 128 * H : Nat) : Int) = ((A * B : Nat) : Int) := by rw [this]
          simp only [Int.natCast_add, Int.natCast_mul, Int.natCast_pow] at h2 ⊢
          omega
        have hMlt : A * B < 2 ^ 256 := by
          have := hs.2.2
          generalize A * B = M at *
          omega
        generalize hneg : (decide (a.hi < 0) != decide (b.hi < 0)) = neg at *
        have hP : va * vb = if neg = true then -((A * B : Nat) : Int) else ((A * B : Nat) : Int) := by
          rw [hsp]
          cases neg
          · have : (va < 0) = (vb < 0) := hsign.2 (by simp)
            simp [this]
          · have : ¬ ((va < 0) = (vb < 0)) := fun h => (hsign.1 h) rfl
            simp [this]
        obtain ⟨R, hR⟩ : ∃ R, signFix low H (if neg = true then 2 ^ 128 - 1 else 0) = R := ⟨_, rfl⟩
        have hRspec : R.WF ∧ R.value = wrap256 (if neg = true then -((A * B : Nat) : Int) else ((A * B : Nat) : Int)) := by
          rw [← hR, hM]
          cases neg
          · simpa using signFix_zero low H hs.1 hs.2.1
          · simpa using signFix_ones low H hs.1 hs.2.1
        rw [hR]
        have hRneg : decide (R.hi < 0) = decide (R.value < 0) := by
          have := neg_iff R hRspec.1
          by_cases h : R.hi < 0 <;> simp [h, this]
        have hfin := final_step (A * B) R.value (va * vb) neg (decide (R.hi < 0)) hMlt hAB0 hRspec.2 hP hRneg
        have hRrange : -(2 ^ 255 : Int) ≤ R.value ∧ R.value < 2 ^ 255 := by
          have := hRspec.1
          obtain ⟨rlo, rhi⟩ := R
          simp only [I256.WF, I256.value] at *
          omega
        by_cases hcnd : (decide (R.hi < 0) == neg) = true
        · rw [if_pos hcnd]
          have hv := hfin.1 hcnd
          refine ⟨?_, ⟨(fun h => nomatch h), ?_⟩⟩
          · intro r hr
            simp only [Option.some.injEq] at hr
            subst hr
            exact ⟨hRspec.1, hv⟩
          · intro hn
            exact absurd (by rw [← hv]; exact hRrange) hn
        · rw [if_neg hcnd]
          have hcf : (decide (R.hi < 0) == neg) = false := by
            cases hh : (decide (R.hi < 0) == neg)
            · rfl
            · exact absurd hh hcnd
          exact ⟨(fun r hr => nomatch hr), ⟨fun _ => hfin.2 hcf, fun _ => rfl⟩⟩

/-! ## §2 native widths -/

def stdWidths : List Nat := [8, 16, 32, 64, 128]

theorem wrap_spec (t : NT) (ht : t.bits ∈ stdWidths) (x : Int) :
    t.inRange (t.wrap x) = true ∧ (t.wrap x - x) % (2 ^ t.bits : Int) = 0 ∧ (t.inRange x = true → t.wrap x = x) := by
  obtain ⟨s, bits⟩ := t
  simp only [stdWidths, List.mem_cons, List.not_mem_nil, or_false] at ht
  rcases ht with h | h | h | h | h <;> subst h <;> cases s <;>
    simp only [NT.inRange, NT.wrap, NT.lo, NT.hi, Bool.false_eq_true, ↓reduceIte, Bool.and_eq_true, decide_eq_true_eq] <;> omega

theorem tdiv_natAbs_le (a b : Int) : (Int.tdiv a b).natAbs ≤ a.natAbs := by
  rw [Int.natAbs_tdiv]; exact Nat.div_le_self _ _

theorem tdiv_natAbs_half (a b : Int) (hb : 2 ≤ b.natAbs) : (Int.tdiv a b).natAbs ≤ a.natAbs / 2 := by
  rw [Int.natAbs_tdiv]; exact Nat.div_le_div_left hb (by omega)

theorem tdiv_nonneg' (a b : Int) (ha : 0 ≤ a) (hb : 0 ≤ b) : 0 ≤ Int.tdiv a b := Int.tdiv_nonneg ha hb

theorem tdiv_inRange (t : NT) (ht : t.bits ∈ stdWidths) (a b : Int) (ha : t.inRange a = true) (hb : t.inRange b = true)
    (hb0 : b ≠ 0) : t.inRange (Int.tdiv a b) = true ↔ ¬ (t.signed = true ∧ a = t.lo ∧ b = -1) := by
  obtain ⟨s, bits⟩ := t
  have h1 := tdiv_natAbs_le a b
  simp only [stdWidths, List.mem_cons, List.not_mem_nil, or_false] at ht
  by_cases hm1 : b = -1
  · subst hm1
    have e : Int.tdiv a (-1) = -a := by rw [Int.tdiv_neg, Int.tdiv_one]
    rw [e]
    rcases ht with h | h | h | h | h <;> subst h <;> cases s <;>
      simp only [NT.inRange, NT.lo, NT.hi, Bool.false_eq_true, ↓reduceIte, Bool.and_eq_true, decide_eq_true_eq, true_and, and_true, false_and, not_false_eq_true, iff_true, Nat.reduceSub] at * <;> first | omega | (constructor <;> intros <;> omega)
  · by_cases h1' : b = 1
    · subst h1'
      rw [Int.tdiv_one]
      rcases ht with h | h | h | h | h <;> subst h <;> cases s <;>
        simp only [NT.inRange, NT.lo, NT.hi, Bool.false_eq_true, ↓reduceIte, Bool.and_eq_true, decide_eq_true_eq, true_and, and_true, false_and, not_false_eq_true, iff_true, Nat.reduceSub] at * <;> first | omega | (constructor <;> intros <;> omega)
    · have h2 := tdiv_natAbs_half a b (by omega)
      cases s
      · have h3 : 0 ≤ Int.tdiv a b := by
          apply Int.tdiv_nonneg
          · simp only [NT.inRange, NT.lo, Bool.false_eq_true, ↓reduceIte, Bool.and_eq_true, decide_eq_true_eq] at ha; omega
          · simp only [NT.inRange, NT.lo, Bool.false_eq_true, ↓reduceIte, Bool.and_eq_true, decide_eq_true_eq] at hb; omega
        rcases ht with h | h | h | h | h <;> subst h <;>
          simp only [NT.inRange, NT.lo, NT.hi, Bool.false_eq_true, ↓reduceIte, Bool.and_eq_true, decide_eq_true_eq, true_and, and_true, false_and, not_false_eq_true, iff_true, Nat.reduceSub] at * <;> first | omega | (constructor <;> intros <;> omega)
      · rcases ht with h | h | h | h | h <;> subst h <;>
          simp only [NT.inRange, NT.lo, NT.hi, ↓reduceIte, Bool.and_eq_true, decide_eq_true_eq, true_and, and_true, Nat.reduceSub] at * <;> first | omega | (constructor <;> intros <;> omega)

theorem divChecked_spec (t : NT) (ht : t.bits ∈ stdWidths) (a b : Int) (ha : t.inRange a = true) (hb : t.inRange b = true) :
    divChecked t a b =
      if b = 0 then .error .divzero
      else if t.signed = true ∧ a = t.lo ∧ b = -1 then .error .overflow
      else .ok (Int.tdiv a b) := by
  simp only [divChecked]
  by_cases hb0 : b = 0
  · simp [hb0]
  · have h := tdiv_inRange t ht a b ha hb hb0
    simp only [hb0, ↓reduceIte, stdCheckedDiv, stdChecked]
    by_cases hc : t.signed = true ∧ a = t.lo ∧ b = -1
    · have : t.inRange (Int.tdiv a b) = false := by
        cases hh : t.inRange (Int.tdiv a b)
        · rfl
        · exact absurd hc (h.1 hh)
      rw [if_pos hc]
      simp only [this, Bool.false_eq_true, ↓reduceIte, optOr]
    · have : t.inRange (Int.tdiv a b) = true := h.2 hc
      rw [if_neg hc]
      simp only [this, ↓reduceIte, optOr]

/-- the checked add/sub/mul/neg glue is the specification `checkedSpec` (exact or overflow) -/
theorem addChecked_spec (t : NT) (a b : Int) : addChecked t a b = checkedSpec t .add a b := by
  simp only [addChecked, stdChecked, checkedSpec, exactOp]; split <;> simp [optOr]
theorem subChecked_spec (t : NT) (a b : Int) : subChecked t a b = checkedSpec t .sub a b := by
  simp only [subChecked, stdChecked, checkedSpec, exactOp]; split <;> simp [optOr]
theorem mulChecked_spec (t : NT) (a b : Int) : mulChecked t a b = checkedSpec t .mul a b := by
  simp only [mulChecked, stdChecked, checkedSpec, exactOp]; split <;> simp [optOr]
theorem divChecked_eq_spec (t : NT) (a b : Int) : divChecked t a b = checkedSpec t .div a b := by
  simp only [divChecked, stdCheckedDiv, stdChecked, checkedSpec, exactOp]
  by_cases hb : b = 0 <;> simp only [hb, ↓reduceIte] <;> split <;> simp [optOr]


/-! ## §3 arity.rs loops -/


theorem decode_map_unary {α γ} (op : α → γ) (xs : List α) (vs : List Bool) :
    decode (xs.map op) vs = unarySpec op (decode xs vs) := by
  induction xs generalizing vs with
  | nil => simp [decode, unarySpec]
  | cons x xs ih =>
    cases vs with
    | nil => simp [decode, unarySpec]
    | cons v vs =>
      have := ih vs
      simp only [unarySpec] at this
      cases v <;> simp [decode, unarySpec, this]

theorem tryUnaryVals_spec {α γ ε} (op : α → Except ε γ) (zero : γ) (xs : List α) (vs : List Bool) :
    (tryUnaryVals op zero xs vs).map (decode · vs) = tryUnarySpec op (decode xs vs) := by
  induction xs generalizing vs with
  | nil => cases vs <;> simp [tryUnaryVals, decode, tryUnarySpec, Except.map]
  | cons x xs ih =>
    cases vs with
    | nil => simp [tryUnaryVals, decode, tryUnarySpec, Except.map]
    | cons v vs =>
      have := ih vs
      cases v
      · simp only [tryUnaryVals, decode, tryUnarySpec, Bool.false_eq_true, ↓reduceIte]
        rw [← this]
        cases tryUnaryVals op zero xs vs <;> simp [Except.map, decode]
      · simp only [tryUnaryVals, decode, tryUnarySpec, ↓reduceIte]
        cases op x with
        | error e => simp [Except.map]
        | ok c =>
          simp only
          rw [← this]
          cases tryUnaryVals op zero xs vs <;> simp [Except.map, decode]

theorem decode_binary {α β γ} (op : α → β → γ) (as : List α) (bs : List β) (va vb : List Bool) :
    decode (binaryVals op as bs) (unionValid va vb) = binarySpec op (decode as va) (decode bs vb) := by
  induction as generalizing bs va vb with
  | nil => cases bs <;> cases va <;> cases vb <;> simp [binaryVals, unionValid, decode, binarySpec]
  | cons a as ih =>
    cases bs with
    | nil => cases va <;> cases vb <;> simp [binaryVals, unionValid, decode, binarySpec]
    | cons b bs =>
      cases va with
      | nil => cases vb <;> simp [binaryVals, unionValid, decode, binarySpec]
      | cons x va =>
        cases vb with
        | nil => simp [binaryVals, unionValid, decode, binarySpec]
        | cons y vb =>
          cases x <;> cases y <;> simp [binaryVals, unionValid, decode, binarySpec, ih]


theorem tryBinaryVals_spec {α β γ ε} (op : α → β → Except ε γ) (zero : γ) (as : List α) (bs : List β) (va vb : List Bool) :
    (tryBinaryVals op zero as bs (unionValid va vb)).map (decode · (unionValid va vb))
      = tryBinarySpec op (decode as va) (decode bs vb) := by
  induction as generalizing bs va vb with
  | nil => cases bs <;> cases va <;> cases vb <;> simp [tryBinaryVals, unionValid, decode, tryBinarySpec, Except.map]
  | cons a as ih =>
    cases bs with
    | nil => cases va <;> cases vb <;> simp [tryBinaryVals, unionValid, decode, tryBinarySpec, Except.map]
    | cons b bs =>
      cases va with
      | nil => cases vb <;> simp [tryBinaryVals, unionValid, decode, tryBinarySpec, Except.map]
      | cons x va =>
        cases vb with
        | nil => simp [tryBinaryVals, unionValid, decode, tryBinarySpec, Except.map]
        | cons y vb =>
          have := ih bs va vb
          have nullCase : ∀ (hx : (x && y) = false),
              (tryBinaryVals op zero (a :: as) (b :: bs) (unionValid (x :: va) (y :: vb))).map (decode · (unionValid (x :: va) (y :: vb)))
              = (tryBinarySpec op (decode as va) (decode bs vb)).map (none :: ·) := by
            intro hx
            simp only [tryBinaryVals, unionValid, hx, Bool.false_eq_true, ↓reduceIte]
            rw [← this]
            cases tryBinaryVals op zero as bs (unionValid va vb) <;> simp [Except.map, decode]
          cases x with
          | false =>
            rw [nullCase (by simp)]
            cases y <;> simp [decode, tryBinarySpec]
          | true =>
            cases y with
            | false =>
              rw [nullCase (by simp)]
              simp [decode, tryBinarySpec]
            | true =>
              simp only [tryBinaryVals, unionValid, decode, tryBinarySpec, Bool.and_self, ↓reduceIte]
              rw [← this]
              cases op a b with
              | error e => simp [Except.map]
              | ok c =>
                cases tryBinaryVals op zero as bs (unionValid va vb) <;> simp [Except.map, decode]

theorem tryBinaryNoNulls_eq {α β γ ε} (op : α → β → Except ε γ) (zero : γ) (as : List α) (bs : List β) (vs : List Bool)
    (h : vs.all id = true) (hl : vs.length = as.length) (hl2 : as.length = bs.length) :
    tryBinaryNoNulls op as bs = tryBinaryVals op zero as bs vs := by
  induction as generalizing bs vs with
  | nil => cases bs <;> cases vs <;> simp [tryBinaryNoNulls, tryBinaryVals]
  | cons a as ih =>
    cases bs with
    | nil => simp at hl2
    | cons b bs =>
      cases vs with
      | nil => simp at hl
      | cons v vs =>
        simp only [List.all_cons, id, Bool.and_eq_true] at h
        simp only [List.length_cons, Nat.add_right_cancel_iff] at hl hl2
        simp only [tryBinaryNoNulls, tryBinaryVals, h.1, ↓reduceIte, ih bs vs h.2 hl hl2]

theorem unionValid_length (va vb : List Bool) (h : va.length = vb.length) : (unionValid va vb).length = va.length := by
  induction va generalizing vb with
  | nil => cases vb <;> simp [unionValid]
  | cons a va ih =>
    cases vb with
    | nil => simp at h
    | cons b vb => simp only [List.length_cons, Nat.add_right_cancel_iff] at h; simp [unionValid, ih vb h]

theorem tryBinary_spec {α β γ ε} (op : α → β → Except ε γ) (zero : γ) (a : Arr α) (b : Arr β)
    (ha : a.valid.length = a.vals.length) (hb : b.valid.length = b.vals.length) (hl : a.vals.length = b.vals.length) :
    (tryBinary op zero a b).map Arr.logical = tryBinarySpec op a.logical b.logical := by
  have hu := unionValid_length a.valid b.valid (by omega)
  simp only [tryBinary]
  split
  · rename_i hall
    rw [tryBinaryNoNulls_eq op zero a.vals b.vals _ hall (by omega) hl]
    simp only [Arr.logical]
    rw [← tryBinaryVals_spec op zero a.vals b.vals a.valid b.valid]
    cases tryBinaryVals op zero a.vals b.vals (unionValid a.valid b.valid) <;> simp [Except.map, Arr.logical]
  · simp only [Arr.logical]
    rw [← tryBinaryVals_spec op zero a.vals b.vals a.valid b.valid]
    cases tryBinaryVals op zero a.vals b.vals (unionValid a.valid b.valid) <;> simp [Except.map, Arr.logical]

/-! ## §4 aggregates -/

theorem sumCheckedLoop_spec (t : NT) (acc : Int) (xs : List Int) (vs : List Bool) :
    sumCheckedLoop (addChecked t) acc xs vs =
      if prefixesInRange t acc (nonNull (decode xs vs)) then .ok ((nonNull (decode xs vs)).foldl (· + ·) acc)
      else .error .overflow := by
  induction xs generalizing acc vs with
  | nil => cases vs <;> simp [sumCheckedLoop, decode, nonNull, prefixesInRange]
  | cons x xs ih =>
    cases vs with
    | nil => simp [sumCheckedLoop, decode, nonNull, prefixesInRange]
    | cons v vs =>
      cases v
      · simp only [sumCheckedLoop, decode, nonNull, Bool.false_eq_true, ↓reduceIte, List.filterMap_cons, id]
        exact ih acc vs
      · simp only [sumCheckedLoop, decode, nonNull, ↓reduceIte, List.filterMap_cons, id, prefixesInRange, List.foldl_cons, addChecked, stdChecked, optOr]
        by_cases hr : t.inRange (acc + x) = true
        · simp only [hr, ↓reduceIte, Bool.true_and]
          exact ih (acc + x) vs
        · simp [hr, optOr]

/-! ### lane-split accumulation and tree reduction -/

/-- right fold with the accumulator operation -/
def sumL {α} (op : α → α → α) (e : α) (l : List α) : α := l.foldr op e
/-- the values at valid slots -/
def validVals {α} (xs : List (α × Bool)) : List α := xs.filterMap (fun p => if p.2 then some p.1 else none)

theorem validVals_append {α} (l1 l2 : List (α × Bool)) : validVals (l1 ++ l2) = validVals l1 ++ validVals l2 := by
  simp [validVals, List.filterMap_append]

section
variable {α : Type} (op : α → α → α) (e : α)
  (hc : ∀ x y, op x y = op y x) (ha : ∀ x y z, op (op x y) z = op x (op y z)) (he : ∀ x, op e x = x)
include hc ha he

theorem op_e (x : α) : op x e = x := by rw [hc, he]

theorem sumL_append (l1 l2 : List α) : sumL op e (l1 ++ l2) = op (sumL op e l1) (sumL op e l2) := by
  induction l1 with
  | nil => simp [sumL, he]
  | cons x l1 ih => simp only [sumL, List.cons_append, List.foldr_cons] at *; rw [ih, ha]

theorem sumL_zipWith (l1 l2 : List α) (h : l1.length = l2.length) :
    sumL op e (List.zipWith op l1 l2) = op (sumL op e l1) (sumL op e l2) := by
  haveI : Std.Associative op := ⟨ha⟩
  haveI : Std.Commutative op := ⟨hc⟩
  induction l1 generalizing l2 with
  | nil => cases l2 <;> simp [sumL, he] at *
  | cons x l1 ih =>
    cases l2 with
    | nil => simp at h
    | cons y l2 =>
      simp only [List.length_cons, Nat.add_right_cancel_iff] at h
      have := ih l2 h
      simp only [sumL, List.zipWith_cons_cons, List.foldr_cons] at *
      rw [this]
      ac_rfl

theorem accChunk_sum (acc : List α) (xs : List (α × Bool)) (h : xs.length ≤ acc.length) :
    (accChunk op acc xs).length = acc.length ∧
    sumL op e (accChunk op acc xs) = op (sumL op e acc) (sumL op e (validVals xs)) := by
  haveI : Std.Associative op := ⟨ha⟩
  haveI : Std.Commutative op := ⟨hc⟩
  induction acc generalizing xs with
  | nil =>
    cases xs with
    | nil => simp [accChunk, sumL, validVals, he]
    | cons x xs => simp at h
  | cons a acc ih =>
    cases xs with
    | nil => simp [accChunk, validVals, sumL, op_e op e hc ha he]
    | cons p xs =>
      obtain ⟨x, v⟩ := p
      simp only [List.length_cons, Nat.add_le_add_iff_right] at h
      have := ih xs h
      cases v
      · simp only [accChunk, accNullable, validVals, List.filterMap_cons, Bool.false_eq_true, ↓reduceIte, List.length_cons, sumL, List.foldr_cons] at *
        refine ⟨by omega, ?_⟩
        rw [this.2, ha]
      · simp only [accChunk, accNullable, validVals, List.filterMap_cons, ↓reduceIte, List.length_cons, sumL, List.foldr_cons] at *
        refine ⟨by omega, ?_⟩
        rw [this.2]
        ac_rfl

theorem lanesLoop_sum (lanes : Nat) (hl : 0 < lanes) (fuel : Nat) (acc : List α) (xs : List (α × Bool))
    (hacc : acc.length = lanes) (hf : xs.length < fuel) :
    (lanesLoop op lanes fuel acc xs).length = lanes ∧
    sumL op e (lanesLoop op lanes fuel acc xs) = op (sumL op e acc) (sumL op e (validVals xs)) := by
  induction fuel generalizing acc xs with
  | zero => omega
  | succ fuel ih =>
    simp only [lanesLoop]
    split
    · rename_i hcond
      have h1 := accChunk_sum op e hc ha he acc (xs.take lanes) (by simp [List.length_take]; omega)
      have h2 := ih (accChunk op acc (xs.take lanes)) (xs.drop lanes) (by omega) (by simp [List.length_drop]; omega)
      refine ⟨h2.1, ?_⟩
      rw [h2.2, h1.2, ha, ← sumL_append op e hc ha he, ← validVals_append, List.take_append_drop]
    · rename_i hcond
      have h1 := accChunk_sum op e hc ha he acc xs (by omega)
      exact ⟨by omega, h1.2⟩

theorem reduce_sum (k : Nat) (fuel : Nat) (acc : List α) (hlen : acc.length = 2 ^ k) (hf : k ≤ fuel) :
    reduceAccumulators op e fuel acc = sumL op e acc := by
  induction k generalizing fuel acc with
  | zero =>
    match acc, hlen with
    | [a], _ =>
      cases fuel <;> simp [reduceAccumulators, sumL, op_e op e hc ha he]
  | succ k ih =>
    cases fuel with
    | zero => omega
    | succ fuel =>
      have h2 : acc.length ≥ 2 := by
        have : 0 < 2 ^ k := Nat.two_pow_pos k
        rw [hlen, Nat.pow_succ]; omega
      have hmid : acc.length / 2 = 2 ^ k := by rw [hlen, Nat.pow_succ]; omega
      simp only [reduceAccumulators, h2, ↓reduceIte, hmid, mergeHalves]
      have hd : (acc.drop (2 ^ k)).length = 2 ^ k := by rw [List.length_drop, hlen, Nat.pow_succ]; omega
      have ht : (acc.take (2 ^ k)).length = 2 ^ k := by rw [List.length_take, hlen, Nat.pow_succ]; omega
      have hdt : (acc.drop (2 ^ k)).take (2 ^ k) = acc.drop (2 ^ k) := List.take_of_length_le (by omega)
      rw [hdt, ih fuel _ (by rw [List.length_zipWith, ht, hd]; omega) (by omega),
        sumL_zipWith op e hc ha he _ _ (by omega), ← sumL_append op e hc ha he, List.take_append_drop]
theorem sumL_replicate (n : Nat) : sumL op e (List.replicate n e) = e := by
  induction n with
  | zero => simp [sumL]
  | succ n ih => simp only [List.replicate_succ, sumL, List.foldr_cons] at *; rw [ih, he]

theorem foldl_acc_sumL (l : List α) (acc : α) : l.foldl op acc = op acc (sumL op e l) := by
  induction l generalizing acc with
  | nil => simp [sumL, op_e op e hc ha he]
  | cons x l ih => simp only [List.foldl_cons, sumL, List.foldr_cons] at *; rw [ih, ha]

theorem foldl_eq_sumL (l : List α) : l.foldl op e = sumL op e l := by
  rw [foldl_acc_sumL op e hc ha he, he]
end

theorem nonNull_decode {α} (vals : List α) (valid : List Bool) :
    nonNull (decode vals valid) = validVals (vals.zip valid) := by
  induction vals generalizing valid with
  | nil => cases valid <;> simp [decode, nonNull, validVals]
  | cons x xs ih =>
    cases valid with
    | nil => simp [decode, nonNull, validVals]
    | cons v vs =>
      have := ih vs
      simp only [nonNull, validVals] at this
      cases v <;> simp [decode, nonNull, validVals, this]

theorem allNull_iff {α} (vals : List α) (valid : List Bool) :
    (valid.zip vals).all (fun p => !p.1) = true ↔ validVals (vals.zip valid) = [] := by
  induction vals generalizing valid with
  | nil => cases valid <;> simp [validVals]
  | cons x xs ih =>
    cases valid with
    | nil => simp [validVals]
    | cons v vs =>
      have := ih vs
      simp only [validVals] at this
      cases v <;> simp [validVals, this]

theorem aggregateLanes_spec {α : Type} (op : α → α → α) (e : α)
    (hc : ∀ x y, op x y = op y x) (ha : ∀ x y z, op (op x y) z = op x (op y z)) (he : ∀ x, op e x = x)
    (k : Nat) (vals : List α) (valid : List Bool) :
    aggregateLanes op e (2 ^ k) vals valid = reduceSpec op e (decode vals valid) := by
  simp only [aggregateLanes, reduceSpec, nonNull_decode]
  by_cases hn : (valid.zip vals).all (fun p => !p.1) = true
  · rw [if_pos hn, (allNull_iff vals valid).1 hn]
  · rw [if_neg hn]
    have hne : validVals (vals.zip valid) ≠ [] := fun h => hn ((allNull_iff vals valid).2 h)
    have hl := lanesLoop_sum op e hc ha he (2 ^ k) (Nat.two_pow_pos k) (vals.length + 1) (List.replicate (2 ^ k) e) (vals.zip valid)
      (by simp) (by simp [List.length_zip]; omega)
    have hr := reduce_sum op e hc ha he k (2 ^ k + 1) _ hl.1 (by have := @Nat.lt_two_pow_self k; omega)
    rw [hr, hl.2, sumL_replicate op e hc ha he, he, ← foldl_eq_sumL op e hc ha he]
    cases hv : validVals (vals.zip valid) with
    | nil => exact absurd hv hne
    | cons v vs => rfl


/-! ## §5 Kleene bit formulas, §6 decimal result types -/

theorem andKleeneBit_spec (a b c d : Bool) :
    optBit (andKleeneBit a b c d).1 (andKleeneBit a b c d).2 = kleeneAnd (optBit a b) (optBit c d) := by
  cases a <;> cases b <;> cases c <;> cases d <;> rfl

theorem orKleeneBit_spec (a b c d : Bool) :
    optBit (orKleeneBit a b c d).1 (orKleeneBit a b c d).2 = kleeneOr (optBit a b) (optBit c d) := by
  cases a <;> cases b <;> cases c <;> cases d <;> rfl

theorem andKleene_words (a b c d : BitVec 64) (i : Nat) (hi : i < 64) :
    optBit ((andKleeneValidity a b c d).getLsbD i) ((andKleeneValues b d).getLsbD i)
      = kleeneAnd (optBit (a.getLsbD i) (b.getLsbD i)) (optBit (c.getLsbD i) (d.getLsbD i)) := by
  rw [← andKleeneBit_spec]
  simp [andKleeneValidity, andKleeneValues, andKleeneBit, hi]

theorem orKleene_words (a b c d : BitVec 64) (i : Nat) (hi : i < 64) :
    optBit ((orKleeneValidity a b c d).getLsbD i) ((orKleeneValues b d).getLsbD i)
      = kleeneOr (optBit (a.getLsbD i) (b.getLsbD i)) (optBit (c.getLsbD i) (d.getLsbD i)) := by
  rw [← orKleeneBit_spec]
  simp [orKleeneValidity, orKleeneValues, orKleeneBit, hi]

/-- one side without a null buffer (its validity is all ones): `a | !d` -/
theorem andKleene1_words (a b d : BitVec 64) (i : Nat) (hi : i < 64) :
    optBit ((andKleeneValidity1 a d).getLsbD i) ((andKleeneValues b d).getLsbD i)
      = kleeneAnd (optBit (a.getLsbD i) (b.getLsbD i)) (some (d.getLsbD i)) := by
  simp only [andKleeneValidity1, andKleeneValues, BitVec.getLsbD_or, BitVec.getLsbD_and, BitVec.getLsbD_not, hi, decide_true, Bool.true_and]
  cases a.getLsbD i <;> cases b.getLsbD i <;> cases d.getLsbD i <;> rfl

theorem orKleene1_words (a b d : BitVec 64) (i : Nat) (hi : i < 64) :
    optBit ((orKleeneValidity1 a d).getLsbD i) ((orKleeneValues b d).getLsbD i)
      = kleeneOr (optBit (a.getLsbD i) (b.getLsbD i)) (some (d.getLsbD i)) := by
  simp only [orKleeneValidity1, orKleeneValues, BitVec.getLsbD_or, hi]
  cases a.getLsbD i <;> cases b.getLsbD i <;> cases d.getLsbD i <;> rfl

/-! decimal result types: the `i8`/`u8` code equals the documented rule on the domain
`1 ≤ p ≤ P`, `0 ≤ s ≤ p`, `P ≤ 76` -/
theorem decAddType_eq (maxP p1 s1 p2 s2 : Int) (hP : 1 ≤ maxP ∧ maxP ≤ 76)
    (h1 : 0 ≤ s1 ∧ s1 ≤ p1 ∧ p1 ≤ maxP) (h2 : 0 ≤ s2 ∧ s2 ≤ p2 ∧ p2 ≤ maxP) :
    decAddTypeM maxP p1 s1 p2 s2 = decAddType maxP p1 s1 p2 s2 := by
  simp only [decAddTypeM, decAddType, satU8, asU8, satI8, wrapI8, Prod.mk.injEq, and_true]
  omega

theorem decMulType_eq (maxP p1 s1 p2 s2 : Int) (hP : 1 ≤ maxP ∧ maxP ≤ 76)
    (h1 : 0 ≤ s1 ∧ s1 ≤ p1 ∧ p1 ≤ maxP) (h2 : 0 ≤ s2 ∧ s2 ≤ p2 ∧ p2 ≤ maxP) (hs : s1 + s2 ≤ 127) :
    decMulTypeM maxP p1 s1 p2 s2 = decMulType maxP p1 s1 p2 s2 := by
  simp only [decMulTypeM, decMulType, satU8, asU8, satI8, Prod.mk.injEq]
  omega

theorem decDivType_eq (maxP maxS p1 s1 p2 s2 : Int) (hP : 1 ≤ maxP ∧ maxP ≤ 76) (hS : 0 ≤ maxS ∧ maxS ≤ maxP)
    (h1 : 0 ≤ s1 ∧ s1 ≤ p1 ∧ p1 ≤ maxP ∧ s1 ≤ maxS) (h2 : 0 ≤ s2 ∧ s2 ≤ p2 ∧ p2 ≤ maxP) :
    (decDivTypeM maxP maxS p1 s1 p2 s2).1 = decDivType maxP maxS p1 s1 p2 s2 := by
  simp only [decDivTypeM, decDivType, DECIMAL_DIV_SCALE_INCREMENT, asU8, satI8, wrapI8, Prod.mk.injEq, and_true]
  omega

theorem decRemType_eq (maxP p1 s1 p2 s2 : Int) (hP : 1 ≤ maxP ∧ maxP ≤ 76)
    (h1 : 0 ≤ s1 ∧ s1 ≤ p1 ∧ p1 ≤ maxP) (h2 : 0 ≤ s2 ∧ s2 ≤ p2 ∧ p2 ≤ maxP) :
    decRemTypeM maxP p1 s1 p2 s2 = decRemType maxP p1 s1 p2 s2 := by
  simp only [decRemTypeM, decRemType, asU8, satI8, wrapI8, Prod.mk.injEq, and_true]
  omega

end ArrowModel.C12
