/-
C12 — specification: "arithmetic, aggregation and boolean kernels are exact or report
overflow".  Everything here is on unbounded `Int`, `Option` (null) and lists; no limbs, no
lanes, no bit tricks.  Import-free.
-/
namespace ArrowModel.C12

/-! ### physical integer types -/

/-- a physical integer type: signedness and width in bits (8,16,32,64,128,256) -/
structure NT where
  signed : Bool
  bits : Nat
  deriving DecidableEq, Repr

/-- smallest representable value -/
def NT.lo (t : NT) : Int := if t.signed then -(2 ^ (t.bits - 1) : Int) else 0
/-- largest representable value -/
def NT.hi (t : NT) : Int := if t.signed then (2 ^ (t.bits - 1) : Int) - 1 else (2 ^ t.bits : Int) - 1
/-- representable in `t` -/
def NT.inRange (t : NT) (x : Int) : Bool := decide (t.lo ≤ x) && decide (x ≤ t.hi)
/-- the representative of `x` modulo `2^bits` inside the range of `t` -/
def NT.wrap (t : NT) (x : Int) : Int :=
  if t.signed then (x + (2 ^ (t.bits - 1) : Int)) % (2 ^ t.bits : Int) - (2 ^ (t.bits - 1) : Int)
  else x % (2 ^ t.bits : Int)

/-- error classes of the kernels (`ArrowError::{ArithmeticOverflow, DivideByZero,
InvalidArgumentError, ComputeError}`) -/
inductive Err where
  | overflow | divzero | invalidArg | compute
  deriving DecidableEq, Repr

/-- the arithmetic operators of `arrow_arith::numeric` -/
inductive AOp where
  | add | sub | mul | div | rem
  deriving DecidableEq, Repr

/-- **exact** result of a binary operator on mathematical integers; division truncates
towards zero (Rust `/`, `%`), division by zero is an error -/
def exactOp (op : AOp) (a b : Int) : Except Err Int :=
  match op with
  | .add => .ok (a + b)
  | .sub => .ok (a - b)
  | .mul => .ok (a * b)
  | .div => if b = 0 then .error .divzero else .ok (Int.tdiv a b)
  | .rem => if b = 0 then .error .divzero else .ok (Int.tmod a b)

/-- **checked** operator of the property: the exact result when representable in `t`,
an error otherwise (overflow, or division by zero) — never a wrapped value -/
def checkedSpec (t : NT) (op : AOp) (a b : Int) : Except Err Int :=
  match exactOp op a b with
  | .ok r => if t.inRange r then .ok r else .error .overflow
  | .error e => .error e

/-- **wrapping** operator of the property: the exact result modulo `2^bits` -/
def wrappingSpec (t : NT) (op : AOp) (a b : Int) : Except Err Int :=
  match exactOp op a b with
  | .ok r => .ok (t.wrap r)
  | .error e => .error e

/-! ### null semantics of element-wise kernels (values are `Option`, `none` = null) -/

/-- element-wise fallible binary kernel: null where an input is null, `op` on the two
values otherwise; the first failing *non-null* slot (in index order) decides the error -/
def tryBinarySpec {α β γ ε} (op : α → β → Except ε γ) :
    List (Option α) → List (Option β) → Except ε (List (Option γ))
  | some a :: as, some b :: bs =>
    match op a b with
    | .ok c => (tryBinarySpec op as bs).map (some c :: ·)
    | .error e => .error e
  | _ :: as, _ :: bs => (tryBinarySpec op as bs).map (none :: ·)
  | _, _ => .ok []

/-- element-wise infallible binary kernel -/
def binarySpec {α β γ} (op : α → β → γ) : List (Option α) → List (Option β) → List (Option γ)
  | some a :: as, some b :: bs => some (op a b) :: binarySpec op as bs
  | _ :: as, _ :: bs => none :: binarySpec op as bs
  | _, _ => []

/-- element-wise fallible unary kernel -/
def tryUnarySpec {α γ ε} (op : α → Except ε γ) : List (Option α) → Except ε (List (Option γ))
  | some a :: as =>
    match op a with
    | .ok c => (tryUnarySpec op as).map (some c :: ·)
    | .error e => .error e
  | none :: as => (tryUnarySpec op as).map (none :: ·)
  | [] => .ok []

/-- element-wise infallible unary kernel -/
def unarySpec {α γ} (op : α → γ) (xs : List (Option α)) : List (Option γ) := xs.map (·.map op)

/-! ### aggregates: reductions over the non-null values -/

/-- the non-null values, in order -/
def nonNull {α} (xs : List (Option α)) : List α := xs.filterMap id

/-- reduction of the non-null values with `op` starting from `e`; `none` when there is no
non-null value -/
def reduceSpec {α} (op : α → α → α) (e : α) (xs : List (Option α)) : Option α :=
  match nonNull xs with
  | [] => none
  | vs => some (vs.foldl op e)

/-- wrapping sum = exact sum of the non-null values modulo `2^bits` -/
def sumSpec (t : NT) (xs : List (Option Int)) : Option Int :=
  match nonNull xs with
  | [] => none
  | vs => some (t.wrap (vs.foldl (· + ·) 0))

/-- every prefix of the exact running sum stays representable (evaluation order of
`sum_checked`: left to right over the non-null values, starting from zero) -/
def prefixesInRange (t : NT) : Int → List Int → Bool
  | _, [] => true
  | acc, v :: vs => t.inRange (acc + v) && prefixesInRange t (acc + v) vs

/-- checked sum: the exact sum, or an overflow error iff some prefix sum is not
representable -/
def sumCheckedSpec (t : NT) (xs : List (Option Int)) : Except Err (Option Int) :=
  match nonNull xs with
  | [] => .ok none
  | vs => if prefixesInRange t 0 vs then .ok (some (vs.foldl (· + ·) 0)) else .error .overflow

/-- minimum of the non-null values with respect to a key (total order on keys) -/
def minSpec (key : Int → Int) (xs : List (Option Int)) : Option Int :=
  match nonNull xs with
  | [] => none
  | v :: vs => some (vs.foldl (fun m x => if key x < key m then x else m) v)

def maxSpec (key : Int → Int) (xs : List (Option Int)) : Option Int :=
  match nonNull xs with
  | [] => none
  | v :: vs => some (vs.foldl (fun m x => if key x > key m then x else m) v)

/-! ### three-valued (Kleene) logic; `none` = unknown -/

def kleeneAnd : Option Bool → Option Bool → Option Bool
  | some false, _ => some false
  | _, some false => some false
  | some true, some true => some true
  | _, _ => none

def kleeneOr : Option Bool → Option Bool → Option Bool
  | some true, _ => some true
  | _, some true => some true
  | some false, some false => some false
  | _, _ => none

def kleeneNot : Option Bool → Option Bool
  | some b => some (!b)
  | none => none

/-- non-Kleene boolean kernel: null if either side is null -/
def strictBool (f : Bool → Bool → Bool) : Option Bool → Option Bool → Option Bool
  | some a, some b => some (f a b)
  | _, _ => none

/-! ### decimal result types (Hive rules quoted in `decimal_op`) -/

/-- `add`/`sub`: scale `max(s1,s2)`, precision `min(max(s1,s2) + max(p1-s1,p2-s2) + 1, P)` -/
def decAddType (maxP : Int) (p1 s1 p2 s2 : Int) : Int × Int :=
  let s := max s1 s2
  (min (s + max (p1 - s1) (p2 - s2) + 1) maxP, s)

/-- `mul`: scale `s1+s2`, precision `min(p1+p2+1, P)` -/
def decMulType (maxP : Int) (p1 s1 p2 s2 : Int) : Int × Int :=
  (min (p1 + p2 + 1) maxP, s1 + s2)

/-- `div`: scale `min(s1+4, S)`, precision `min(p1 - s1 + s2 + scale, P)` -/
def decDivType (maxP maxS : Int) (p1 s1 _p2 s2 : Int) : Int × Int :=
  let s := min (s1 + 4) maxS
  (min (p1 - s1 + s2 + s) maxP, s)

/-- `rem`: scale `max(s1,s2)`, precision `min(min(p1-s1,p2-s2) + max(s1,s2), P)` -/
def decRemType (maxP : Int) (p1 s1 p2 s2 : Int) : Int × Int :=
  let s := max s1 s2
  (min (min (p1 - s1) (p2 - s2) + s) maxP, s)

end ArrowModel.C12
