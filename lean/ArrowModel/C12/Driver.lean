import ArrowModel.Common.Proto
import ArrowModel.C12.Spec
import ArrowModel.C12.Model
/-
C12 driver: one case per line → one canonical answer per line.

Answers are computed by the *algorithm model* (limb code for i256 / Decimal256, the
`arity.rs` value/validity loops, lane-split aggregates, Kleene bit formulas); the
specification (exact `Int` arithmetic + representability, `Option`-list null semantics,
reductions over the non-null values, three-valued truth tables) is evaluated alongside and
`MODEL-SPEC-MISMATCH` is printed if the two differ.
-/
namespace ArrowModel.C12
open ArrowModel.Proto
open ArrowModel.Generated.C12

def check (model spec : String) : String :=
  if model = spec then model else s!"MODEL-SPEC-MISMATCH model={model} spec={spec}"

def showErr : Err → String
  | .overflow => "ERR:overflow"
  | .divzero => "ERR:divzero"
  | .invalidArg => "ERR:invalid-arg"
  | .compute => "ERR:compute"

/-! ### i256 direct -/

def showI256 (a : I256) : String := s!"{a.lo} {a.hi}"
def showOptI256 : Option I256 → String
  | some a => showI256 a
  | none => "none"
def showOptInt : Option Int → String
  | some a => toString a
  | none => "none"
def showOrd : Ordering → String
  | .lt => "lt" | .eq => "eq" | .gt => "gt"

def parseI256 (lo hi : String) : Option I256 := do
  let l ← lo.toNat?
  let h ← parseInt hi
  if l < 2 ^ 128 ∧ -(2 ^ 127 : Int) ≤ h ∧ h < 2 ^ 127 then some ⟨l, h⟩ else none

/-- spec answer for an exact integer result: limbs of `x` if representable -/
def specChecked (x : Int) : String :=
  if inRange256 x then showI256 (I256.ofInt x) else "none"
def specWrapping (x : Int) : String := showI256 (I256.ofInt x)

def i256Binary (m : String) (a b : I256) : String :=
  let va := a.value
  let vb := b.value
  match m with
  | "wadd" => check (showI256 (a.wrappingAdd b)) (specWrapping (va + vb))
  | "wsub" => check (showI256 (a.wrappingSub b)) (specWrapping (va - vb))
  | "wmul" => check (showI256 (a.wrappingMul b)) (specWrapping (va * vb))
  | "cadd" => check (showOptI256 (a.checkedAdd b)) (specChecked (va + vb))
  | "csub" => check (showOptI256 (a.checkedSub b)) (specChecked (va - vb))
  | "cmul" => check (showOptI256 (a.checkedMul b)) (specChecked (va * vb))
  | "cdiv" => check (showOptI256 (a.checkedDiv b)) (if vb = 0 then "none" else specChecked (Int.tdiv va vb))
  | "crem" => check (showOptI256 (a.checkedRem b))
      (if vb = 0 ∨ (va = -(2 ^ 255 : Int) ∧ vb = -1) then "none" else specChecked (Int.tmod va vb))
  | "wdiv" => check (match a.wrappingDiv b with | some r => showI256 r | none => "PANIC")
      (if vb = 0 then "PANIC" else specWrapping (Int.tdiv va vb))
  | "wrem" => check (match a.wrappingRem b with | some r => showI256 r | none => "PANIC")
      (if vb = 0 then "PANIC" else specWrapping (Int.tmod va vb))
  | "cmp" => check (showOrd (a.cmp b)) (showOrd (compare va vb))
  | _ => "bad-op"

def i256Unary (m : String) (a : I256) : String :=
  let va := a.value
  match m with
  | "wneg" => check (showI256 a.wrappingNeg) (specWrapping (-va))
  | "cneg" => check (showOptI256 a.checkedNeg) (specChecked (-va))
  | "wabs" => check (showI256 a.wrappingAbs) (specWrapping (if va < 0 then -va else va))
  | "cabs" => check (showOptI256 a.checkedAbs) (specChecked (if va < 0 then -va else va))
  | "toi128" => check (showOptInt a.toI128)
      (if -(2 ^ 127 : Int) ≤ va ∧ va < 2 ^ 127 then toString va else "none")
  | "tostr" => toString va
  | _ => "bad-op"

/-- spec of `from_str`: optional sign, one or more ASCII digits, value representable -/
def fromStrSpec (cs : List Char) : Option Int :=
  let (neg, ds) := match cs with
    | '-' :: r => (true, r)
    | '+' :: r => (false, r)
    | r => (false, r)
  if ds.isEmpty || !ds.all isDigit then none else
  let n : Int := digitsToNat ds
  let v := if neg then -n else n
  if inRange256 v then some v else none

/-! ### types and items of the array kernels -/

inductive Ty where
  | int (t : NT)
  | dec (bits : Nat) (p s : Int)
  | date32 | date64
  | ts (unit : String)
  | dur (unit : String)
  | iym | idt | imdn
  | flt (bits : Nat)
  deriving DecidableEq

def i8T : NT := ⟨true, 8⟩
def i32T : NT := ⟨true, 32⟩
def i64T : NT := ⟨true, 64⟩

def parseTy (s : String) : Option Ty :=
  match s.splitOn ":" with
  | ["i8"] => some (.int ⟨true, 8⟩) | ["i16"] => some (.int ⟨true, 16⟩)
  | ["i32"] => some (.int ⟨true, 32⟩) | ["i64"] => some (.int ⟨true, 64⟩)
  | ["u8"] => some (.int ⟨false, 8⟩) | ["u16"] => some (.int ⟨false, 16⟩)
  | ["u32"] => some (.int ⟨false, 32⟩) | ["u64"] => some (.int ⟨false, 64⟩)
  | ["f32"] => some (.flt 32) | ["f64"] => some (.flt 64)
  | ["date32"] => some .date32 | ["date64"] => some .date64
  | ["ts", u] => some (.ts u) | ["dur", u] => some (.dur u)
  | ["iym"] => some .iym | ["idt"] => some .idt | ["imdn"] => some .imdn
  | [d, p, s] =>
    match (match d with | "d32" => some 32 | "d64" => some 64 | "d128" => some 128 | "d256" => some 256 | _ => none),
          parseInt p, parseInt s with
    | some b, some p, some s => some (.dec b p s)
    | _, _, _ => none
  | _ => none

def showTy : Ty → String
  | .int t => (if t.signed then "i" else "u") ++ toString t.bits
  | .dec b p s => s!"d{b}:{p}:{s}"
  | .date32 => "date32" | .date64 => "date64"
  | .ts u => "ts:" ++ u | .dur u => "dur:" ++ u
  | .iym => "iym" | .idt => "idt" | .imdn => "imdn"
  | .flt b => "f" ++ toString b

/-- an element: its integer components (1 for plain types, 2 for day-time, 3 for month-day-nano) -/
abbrev Item := List Int

def parseItemVal (s : String) : Option Item := (s.splitOn "/").mapM parseInt
def showItem (x : Item) : String := "/".intercalate (x.map toString)

/-- `v` or `n:garbage` -/
def parseSlot (s : String) : Option (Item × Bool) :=
  match s.splitOn ":" with
  | [v] => (parseItemVal v).map (·, true)
  | ["n", g] => (parseItemVal g).map (·, false)
  | _ => none

structure Operand where
  scalar : Bool
  arr : Arr Item

/-- `A<off>:<slots>` / `N<off>:<slots>` (array; `N` forces a null buffer) or `S:<slot>` (scalar) -/
def parseOperand (s : String) : Option Operand :=
  match s.toList with
  | 'S' :: ':' :: rest =>
    (parseSlot (String.ofList rest)).map (fun p => ⟨true, ⟨[p.1], [p.2]⟩⟩)
  | c :: rest =>
    if c = 'A' ∨ c = 'N' then
      match (String.ofList rest).splitOn ":" with
      | _off :: tl =>
        let body := ":".intercalate tl
        (parseList parseSlot body).map (fun ps => ⟨false, ⟨ps.map (·.1), ps.map (·.2)⟩⟩)
      | _ => none
    else none
  | _ => none

def showSlots (xs : List (Option Item)) : String :=
  showList (fun o => match o with | some x => showItem x | none => "n") xs

def showResult (r : Except Err (Ty × List (Option Item))) : String :=
  match r with
  | .ok (t, xs) => s!"{showTy t} {showSlots xs}"
  | .error e => showErr e

/-! ### slot operations (numeric.rs) -/

def ntOf : Ty → Option NT
  | .int t => some t
  | .dec b _ _ => some ⟨true, b⟩
  | .date32 => some i32T
  | .date64 => some i64T
  | .ts _ => some i64T
  | .dur _ => some i64T
  | .iym => some i32T
  | _ => none

/-- native checked op for a physical type; 256-bit goes through the limb model -/
def nativeChecked (t : NT) (op : AOp) (a b : Int) : Except Err Int :=
  if t.bits = 256 then
    match op with
    | .add => addChecked256 a b | .sub => subChecked256 a b | .mul => mulChecked256 a b
    | .div => divChecked256 a b | .rem => modChecked256 a b
  else
    match op with
    | .add => addChecked t a b | .sub => subChecked t a b | .mul => mulChecked t a b
    | .div => divChecked t a b | .rem => modChecked t a b

def nativeNegChecked (t : NT) (a : Int) : Except Err Int :=
  if t.bits = 256 then negChecked256 a else negChecked t a

def nativePowChecked (t : NT) (a : Int) (e : Nat) : Except Err Int :=
  if t.bits = 256 then powChecked256 a e else powChecked t a e
def nativePowWrapping (t : NT) (a : Int) (e : Nat) : Int :=
  if t.bits = 256 then powWrapping256 a e else powWrapping t a e

/-- specification counterpart of `nativeChecked` (for `rem` std's `checked_rem` also
rejects `MIN % -1`) -/
def nativeCheckedSpec (t : NT) (op : AOp) (a b : Int) : Except Err Int :=
  match op with
  | .rem => if b = 0 then .error .divzero else if a = t.lo ∧ b = -1 ∧ t.signed then .error .overflow else .ok (Int.tmod a b)
  | op => checkedSpec t op a b

def one1 (f : Int → Int → Except Err Int) : Item → Item → Except Err Item
  | [a], [b] => (f a b).map ([·])
  | _, _ => .error .compute

/-- component-wise checked op on interval parts -/
def compWise (ts : List NT) (f : NT → Int → Int → Except Err Int) : Item → Item → Except Err Item
  | a :: as, b :: bs =>
    match ts with
    | t :: ts' =>
      match f t a b with
      | .ok c => (compWise ts' f as bs).map (c :: ·)
      | .error e => .error e
    | [] => .error .compute
  | [], [] => .ok []
  | _, _ => .error .compute

/-- `mul_i32_i64`: `i64::from(left).mul_checked(right)?` then `i32::try_from` -/
def mulI32I64 (l r : Int) : Except Err Int :=
  match mulChecked i64T l r with
  | .ok v => if i32T.inRange v then .ok v else .error .overflow
  | .error e => .error e

def intervalParts : Ty → List NT
  | .iym => [i32T]
  | .idt => [i32T, i32T]
  | .imdn => [i32T, i32T, i64T]
  | _ => []

def intervalMulI64 (t : Ty) (l : Item) (r : Item) : Except Err Item :=
  match r with
  | [f] =>
    let rec go : List NT → Item → Except Err Item
      | nt :: nts, x :: xs =>
        match (if nt.bits = 32 then mulI32I64 x f else mulChecked i64T x f) with
        | .ok c => (go nts xs).map (c :: ·)
        | .error e => .error e
      | _, _ => .ok []
    go (intervalParts t) l
  | _ => .error .compute

inductive KOp where
  | add | addW | sub | subW | mul | mulW | div | rem
  deriving DecidableEq

def parseKOp : String → Option KOp
  | "add" => some .add | "add_wrapping" => some .addW
  | "sub" => some .sub | "sub_wrapping" => some .subW
  | "mul" => some .mul | "mul_wrapping" => some .mulW
  | "div" => some .div | "rem" => some .rem
  | _ => none

def KOp.commutative : KOp → Bool
  | .add | .addW | .mul | .mulW => true
  | _ => false
def KOp.isAdd : KOp → Bool | .add | .addW => true | _ => false
def KOp.isSub : KOp → Bool | .sub | .subW => true | _ => false

/-- what `arithmetic_op` resolves to for a type pair -/
structure Plan where
  outTy : Ty
  specOut : Ty                             -- result type demanded by the documented rule
  postErr : Option Err                     -- error raised after a successful kernel run (`with_precision_and_scale`)
  fallible : Bool                          -- `try_op!` (true) or `op!` (false)
  op : Item → Item → Except Err Item       -- model slot operation
  spec : Item → Item → Except Err Item     -- specification slot operation
  zero : Item
  preErr : Option Err                      -- model: error raised before the kernel runs (`pow_checked(..)?` of a decimal multiplier)
  exactSpec : Bool                         -- decimal plan whose specification is the exact result (ignores `preErr`)

inductive Resolved where
  | plan (p : Plan)
  | err (e : Err)
  | skip

def zeroOf : Ty → Item
  | .idt => [0, 0]
  | .imdn => [0, 0, 0]
  | _ => [0]

def decMax : Nat → Int × Int
  | 32 => (DECIMAL32_MAX_PRECISION, DECIMAL32_MAX_SCALE)
  | 64 => (DECIMAL64_MAX_PRECISION, DECIMAL64_MAX_SCALE)
  | 128 => (DECIMAL128_MAX_PRECISION, DECIMAL128_MAX_SCALE)
  | _ => (DECIMAL256_MAX_PRECISION, DECIMAL256_MAX_SCALE)

/-- `(x as u32)` exponent of `pow_checked((result_scale - s1) as _)`: the `i8` difference
reinterpreted as `u32` -/
def expOfI8 (d : Int) : Nat := (wrapI8 d % 2 ^ 32).toNat

def bind2 (x y : Except Err Int) (f : Int → Int → Except Err Int) : Except Err Int :=
  match x with
  | .error e => .error e
  | .ok a => match y with
    | .error e => .error e
    | .ok b => f a b

/-- operand within its declared precision: `|v| < 10^p` -/
def inPrec (v p : Int) : Bool := decide (-(10 ^ p.toNat : Int) < v) && decide (v < (10 ^ p.toNat : Int))

/-- **specification** of a decimal operation on in-precision operands: the exact result of
the rescaled operands on unbounded integers; an error only when that result is not
representable in the result's physical type (or the divisor is zero).  `k1`, `k2` are the
powers of ten the operands are rescaled by. -/
def exactDec (t : NT) (a : AOp) (k1 k2 : Nat) (l r : Int) : Except Err Int :=
  match exactOp a (l * 10 ^ k1) (r * 10 ^ k2) with
  | .ok v => if t.inRange v then .ok v else .error .overflow
  | .error e => .error e

/-- `decimal_op` -/
def decimalPlan (op : KOp) (bits : Nat) (p1 s1 p2 s2 : Int) : Resolved :=
  let t : NT := ⟨true, bits⟩
  let (maxP, maxS) := decMax bits
  -- scales far outside the generator's domain make `10^k` astronomically large: not covered
  if s1 < -40 ∨ s2 < -40 then .skip else
  -- the property's domain for the type rules and the exact specification: valid decimal types
  let inDomain : Bool := decide (1 ≤ p1 ∧ p1 ≤ maxP ∧ 0 ≤ s1 ∧ s1 ≤ p1 ∧ 1 ≤ p2 ∧ p2 ≤ maxP ∧ 0 ≤ s2 ∧ s2 ≤ p2)
  -- `f`: model slot op as written; `g`: as-written specification (intermediates checked), used outside the
  -- domain and for operands beyond their precision; `ex`: exact specification (in-domain, in-precision)
  let mk (ty : Int × Int) (specTy : Int × Int) (pre : Option Err) (f g : Int → Int → Except Err Int)
      (ex : Option (Int → Int → Except Err Int)) : Resolved :=
    let specTy := if inDomain then specTy else ty
    -- `with_precision_and_scale(result_precision, result_scale)?` runs after the kernel
    let post := if !decTypeValid maxP maxS ty.1 ty.2 then some Err.invalidArg else none
    let g' : Int → Int → Except Err Int := fun l r => match pre with | some e => .error e | none => g l r
    match ex, inDomain with
    | some ex, true =>
      let sp : Int → Int → Except Err Int := fun l r => if inPrec l p1 && inPrec r p2 then ex l r else g' l r
      .plan ⟨.dec bits ty.1 ty.2, .dec bits specTy.1 specTy.2, post, true, one1 f, one1 sp, [0], pre, true⟩
    | _, _ =>
      match pre with
      | some e => .err e
      | none => .plan ⟨.dec bits ty.1 ty.2, .dec bits specTy.1 specTy.2, post, true, one1 f, one1 g, [0], none, false⟩
  let errOf : Except Err Int → Option Err := fun x => match x with | .error e => some e | .ok _ => none
  let valOf : Except Err Int → Int := fun x => match x with | .ok v => v | .error _ => 1
  match op with
  | .add | .addW | .sub | .subW =>
    let ty := decAddTypeM maxP p1 s1 p2 s2
    let aop : AOp := if op.isAdd then .add else .sub
    let lm := nativePowChecked t 10 (expOfI8 (ty.2 - s1))
    let rm := nativePowChecked t 10 (expOfI8 (ty.2 - s2))
    let pre := (errOf lm).orElse (fun _ => errOf rm)
    let (l_mul, r_mul) := (valOf lm, valOf rm)
    if s1 = s2 then
      mk ty (decAddType maxP p1 s1 p2 s2) pre (nativeChecked t aop) (checkedSpec t aop) none
    else
      mk ty (decAddType maxP p1 s1 p2 s2) pre
        (fun l r => bind2 (nativeChecked t .mul l l_mul) (nativeChecked t .mul r r_mul) (nativeChecked t aop))
        (fun l r => bind2 (checkedSpec t .mul l (10 ^ (ty.2 - s1).toNat)) (checkedSpec t .mul r (10 ^ (ty.2 - s2).toNat)) (checkedSpec t aop))
        (some (exactDec t aop (ty.2 - s1).toNat (ty.2 - s2).toNat))
  | .mul | .mulW =>
    let ty := decMulTypeM maxP p1 s1 p2 s2
    if ty.2 > maxS then .err .invalidArg else
    mk ty (decMulType maxP p1 s1 p2 s2) none (nativeChecked t .mul) (checkedSpec t .mul) none
  | .div =>
    let (ty, mul_pow) := decDivTypeM maxP maxS p1 s1 p2 s2
    let muls : Except Err (Int × Int) :=
      if mul_pow > 0 then (nativePowChecked t 10 (expOfI8 mul_pow)).map (·, 1)
      else if mul_pow = 0 then .ok (1, 1)
      else (nativePowChecked t 10 (expOfI8 (-mul_pow))).map (1, ·)
    let pre : Option Err := match muls with | .error e => some e | .ok _ => none
    let (l_mul, r_mul) : Int × Int := match muls with | .ok m => m | .error _ => (1, 1)
    mk ty (decDivType maxP maxS p1 s1 p2 s2) pre
      (fun l r => bind2 (nativeChecked t .mul l l_mul) (nativeChecked t .mul r r_mul) (nativeChecked t .div))
      (fun l r => bind2 (checkedSpec t .mul l (10 ^ mul_pow.toNat)) (checkedSpec t .mul r (10 ^ (-mul_pow).toNat)) (checkedSpec t .div))
      (some (exactDec t .div mul_pow.toNat (-mul_pow).toNat))
  | .rem =>
    let ty := decRemTypeM maxP p1 s1 p2 s2
    let l_mul := nativePowWrapping t 10 (expOfI8 (ty.2 - s1))
    let r_mul := nativePowWrapping t 10 (expOfI8 (ty.2 - s2))
    mk ty (decRemType maxP p1 s1 p2 s2) none
      (fun l r => bind2 (nativeChecked t .mul l l_mul) (nativeChecked t .mul r r_mul) (nativeChecked t .rem))
      (fun l r => bind2 (checkedSpec t .mul l (t.wrap (10 ^ (ty.2 - s1).toNat))) (checkedSpec t .mul r (t.wrap (10 ^ (ty.2 - s2).toNat))) (nativeCheckedSpec t .rem))
      (if s1 = s2 then none else some (exactDec t .rem (ty.2 - s1).toNat (ty.2 - s2).toNat))

def isInterval : Ty → Bool | .iym | .idt | .imdn => true | _ => false
def isDateTs : Ty → Bool | .date32 | .date64 | .ts _ => true | _ => false
def isDurInt : Ty → Bool | .dur _ => true | t => isInterval t

def okInt (f : Int → Int → Int) : Int → Int → Except Err Int := fun a b => .ok (f a b)

/-- `arithmetic_op` dispatch -/
def resolve (fuel : Nat) (op : KOp) (lt rt : Ty) : Resolved :=
  let invalid := Resolved.err .invalidArg
  let checkedI (t : NT) (out : Ty) (a : AOp) : Resolved :=
    .plan ⟨out, out, none, true, one1 (nativeChecked t a), one1 (checkedSpec t a), [0], none, false⟩
  match lt, rt with
  | .int t, .int t' =>
    if t ≠ t' then invalid else
    match op with
    | .add => checkedI t lt .add
    | .sub => checkedI t lt .sub
    | .mul => checkedI t lt .mul
    | .div => checkedI t lt .div
    | .rem => .plan ⟨lt, lt, none, true,
        one1 (fun l r => if r = 0 then .error .divzero else .ok (modWrapping t l r)),
        one1 (checkedSpec t .rem), [0], none, false⟩
    | .addW => .plan ⟨lt, lt, none, false, one1 (okInt (addWrapping t)), one1 (wrappingSpec t .add), [0], none, false⟩
    | .subW => .plan ⟨lt, lt, none, false, one1 (okInt (subWrapping t)), one1 (wrappingSpec t .sub), [0], none, false⟩
    | .mulW => .plan ⟨lt, lt, none, false, one1 (okInt (mulWrapping t)), one1 (wrappingSpec t .mul), [0], none, false⟩
  | .dec b p1 s1, .dec b' p2 s2 => if b ≠ b' then invalid else decimalPlan op b p1 s1 p2 s2
  | .ts u, rt =>
    match rt with
    | .ts u' => if op.isSub ∧ u = u' then checkedI i64T (.dur u) .sub else invalid
    | .dur u' =>
      if u ≠ u' then invalid
      else if op.isAdd then checkedI i64T lt .add
      else if op.isSub then checkedI i64T lt .sub
      else invalid
    | .iym | .idt | .imdn => if op.isAdd ∨ op.isSub then .skip else invalid
    | _ => invalid
  | .dur u, .dur u' =>
    if u ≠ u' then invalid
    else if op.isAdd then checkedI i64T lt .add
    else if op.isSub then checkedI i64T lt .sub
    else invalid
  | .date32, .date32 =>
    if op.isSub then
      let f : Int → Int → Except Err Int := fun l r => .ok (i64T.wrap (i64T.wrap (l - r) * DATE32_SECONDS_IN_DAY))
      let g : Int → Int → Except Err Int := fun l r => .ok ((l - r) * 86400)
      .plan ⟨.dur "s", .dur "s", none, false, one1 f, one1 g, [0], none, false⟩
    else invalid
  | .date64, .date64 => if op.isSub then checkedI i64T (.dur "ms") .sub else invalid
  | .date32, rt | .date64, rt =>
    if isInterval rt ∧ (op.isAdd ∨ op.isSub) then .skip else invalid
  | lt, rt =>
    if isInterval lt ∧ (rt = lt ∨ rt = .int i64T) then
      if rt = lt ∧ (op.isAdd ∨ op.isSub) then
        let a : AOp := if op.isAdd then .add else .sub
        .plan ⟨lt, lt, none, true, compWise (intervalParts lt) (fun t => nativeChecked t a),
               compWise (intervalParts lt) (fun t => checkedSpec t a), zeroOf lt, none, false⟩
      else if rt = .int i64T ∧ op = .mul then
        .plan ⟨lt, lt, none, true, intervalMulI64 lt, intervalMulI64 lt, zeroOf lt, none, false⟩
      else invalid
    else if isDurInt lt ∧ isDateTs rt ∧ op.commutative then
      match fuel with
      | 0 => invalid
      | fuel + 1 =>
        match resolve fuel op rt lt with
        | .plan p => .plan { p with op := fun a b => p.op b a, spec := fun a b => p.spec b a }
        | r => r
    else if lt = .int i64T ∧ isInterval rt ∧ op = .mul then
      match fuel with
      | 0 => invalid
      | fuel + 1 =>
        match resolve fuel op rt lt with
        | .plan p => .plan { p with op := fun a b => p.op b a, spec := fun a b => p.spec b a }
        | r => r
    else invalid

def totalOf (f : Item → Item → Except Err Item) (zero : Item) : Item → Item → Item :=
  fun a b => match f a b with | .ok c => c | .error _ => zero

/-- the `op!` / `try_op!` macros: array-array, array-scalar, scalar-array -/
def runKernelModel (p : Plan) (l r : Operand) : Except Err (List (Option Item)) :=
  match l.scalar, r.scalar with
  | true, false =>
    match l.arr.vals, l.arr.valid with
    | [lv], [true] =>
      if p.fallible then (tryUnary (fun x => p.op lv x) p.zero r.arr).map Arr.logical
      else .ok (unary (fun x => totalOf p.op p.zero lv x) r.arr).logical
    | _, _ => .ok (List.replicate r.arr.vals.length none)
  | false, true =>
    match r.arr.vals, r.arr.valid with
    | [rv], [true] =>
      if p.fallible then (tryUnary (fun x => p.op x rv) p.zero l.arr).map Arr.logical
      else .ok (unary (fun x => totalOf p.op p.zero x rv) l.arr).logical
    | _, _ => .ok (List.replicate l.arr.vals.length none)
  | _, _ =>
    if l.arr.vals.length ≠ r.arr.vals.length then .error .compute
    else if p.fallible then (tryBinary p.op p.zero l.arr r.arr).map Arr.logical
    else .ok (binary (totalOf p.op p.zero) l.arr r.arr).logical

def runKernelSpec (p : Plan) (l r : Operand) : Except Err (List (Option Item)) :=
  let ll := l.arr.logical
  let rl := r.arr.logical
  let (ll, rl) :=
    match l.scalar, r.scalar with
    | true, false => (List.replicate rl.length (ll.headD none), rl)
    | false, true => (ll, List.replicate ll.length (rl.headD none))
    | _, _ => (ll, rl)
  if ll.length ≠ rl.length then .error .compute else tryBinarySpec p.spec ll rl

def sameOutcome (m s : Except Err (List (Option Item))) : Bool :=
  match m, s with
  | .ok a, .ok b => a == b
  | .error _, .error _ => true     -- the class of the error is model-level detail
  | _, _ => false

def handleArith (opS ltS lS rtS rS : String) : String :=
  match parseKOp opS, parseTy ltS, parseOperand lS, parseTy rtS, parseOperand rS with
  | some op, some lt, some l, some rt, some r =>
    match resolve 2 op lt rt with
    | .skip => "SKIP"
    | .err e => showErr e
    | .plan p =>
      let post : Except Err (List (Option Item)) → Except Err (List (Option Item)) := fun r =>
        match r, p.postErr with
        | .ok _, some e => .error e
        | r, _ => r
      let m := match p.preErr with
        | some e => .error e
        | none => post (runKernelModel p l r)
      let s := post (runKernelSpec p l r)
      let ms := showResult (m.map (p.outTy, ·))
      let ss := showResult (s.map (p.outTy, ·))
      if p.outTy ≠ p.specOut then s!"MODEL-SPEC-MISMATCH type model={showTy p.outTy} spec={showTy p.specOut}" else
      if sameOutcome m s then ms else
      -- decimal kernels do not widen intermediates: the code (and the model, as written) reports
      -- ArithmeticOverflow when a rescaled operand `l·10^k` or a multiplier `10^k` exceeds the native
      -- width although the exact result is representable.  The property demands the exact result, so
      -- the specification's answer is returned (known finding kf:decimal-intermediate-rescale-overflow).
      match p.exactSpec, m, s with
      | true, .error .overflow, .ok _ => ss
      | _, _, _ => s!"MODEL-SPEC-MISMATCH model={ms} spec={ss}"
  | _, _, _, _, _ => "bad-op"

/-- `neg` / `neg_wrapping` -/
def handleNeg (wrapping : Bool) (tyS aS : String) : String :=
  match parseTy tyS, parseOperand aS with
  | some ty, some a =>
    let run (fallible : Bool) (f g : Item → Except Err Item) (zero : Item) : String :=
      let m : Except Err (List (Option Item)) :=
        if fallible then (tryUnary f zero a.arr).map Arr.logical
        else .ok (unary (fun x => match f x with | .ok c => c | .error _ => zero) a.arr).logical
      let s := tryUnarySpec g a.arr.logical
      let ms := showResult (m.map (ty, ·))
      if sameOutcome m s then ms else s!"MODEL-SPEC-MISMATCH model={ms} spec={showResult (s.map (ty, ·))}"
    let un (f : Int → Except Err Int) : Item → Except Err Item
      | [x] => (f x).map ([·])
      | _ => .error .compute
    let comp (ts : List NT) : Item → Except Err Item := fun x =>
      compWise ts (fun t a _ => nativeNegChecked t a) x x
    let specNeg (t : NT) : Int → Except Err Int := fun x => if t.inRange (-x) then .ok (-x) else .error .overflow
    let compSpec (ts : List NT) : Item → Except Err Item := fun x =>
      compWise ts (fun t a _ => specNeg t a) x x
    match ty with
    | .int t =>
      if wrapping then run false (un (fun x => .ok (negWrapping t x))) (un (fun x => .ok (t.wrap (-x)))) [0]
      else if t.signed then run true (un (nativeNegChecked t)) (un (specNeg t)) [0]
      else showErr .invalidArg
    | .dec b _ _ => run true (un (nativeNegChecked ⟨true, b⟩)) (un (specNeg ⟨true, b⟩)) [0]
    | .dur _ => run true (un (nativeNegChecked i64T)) (un (specNeg i64T)) [0]
    | .iym => run true (un (nativeNegChecked i32T)) (un (specNeg i32T)) [0]
    | .idt => run true (comp [i32T, i32T]) (compSpec [i32T, i32T]) [0, 0]
    | .imdn => run true (comp [i32T, i32T, i64T]) (compSpec [i32T, i32T, i64T]) [0, 0, 0]
    | .flt b =>
      -- IEEE negation = sign-bit flip of the bit pattern
      let f : Int → Except Err Int := fun x => .ok (if x < 2 ^ (b - 1) then x + 2 ^ (b - 1) else x - 2 ^ (b - 1))
      run false (un f) (un f) [0]
    | _ => showErr .invalidArg
  | _, _ => "bad-op"

/-! ### aggregates -/

/-- total-order key of a value of the type (floats: `total_cmp` on the bit pattern) -/
def keyOf : Ty → Int → Int
  | .flt b => fun x => if x < 2 ^ (b - 1) then x else -(x - 2 ^ (b - 1)) - 1
  | _ => fun x => x

def bytesOf : Ty → Nat
  | .int t => t.bits / 8
  | .dec b _ _ => b / 8
  | .flt b => b / 8
  | .date32 | .iym => 4
  | _ => 8

/-- two's complement bit operation on `Int` via the unsigned representative -/
def bitOpInt (t : NT) (f : Nat → Nat → Nat) (a b : Int) : Int :=
  t.wrap (f (a % 2 ^ t.bits).toNat (b % 2 ^ t.bits).toNat)

def handleAgg (fn tyS aS : String) : String :=
  match parseTy tyS, parseOperand aS with
  | some ty, some a =>
    let single := a.arr.vals.all (fun x => x.length == 1)
    if !single then "bad-op" else
    let vals := a.arr.vals.map (fun x => x.headD 0)
    let valid := a.arr.valid
    let logical := decode vals valid
    let allValid := valid.all id
    let t : NT := match ty with | .flt b => ⟨false, b⟩ | ty => (ntOf ty).getD i64T
    -- PREFERRED_VECTOR_SIZE / size_of::<T>() on the baseline target; 1 lane on the non-null integer path
    let lanes := if allValid then 1 else max 1 (16 / bytesOf ty)
    let key := keyOf ty
    match fn with
    | "sum" =>
      let wadd : Int → Int → Int := if t.bits = 256 then
        (fun x y => ((I256.ofInt x).wrappingAdd (I256.ofInt y)).value) else addWrapping t
      check (showOptInt (aggregateLanes wadd 0 lanes vals valid)) (showOptInt (sumSpec t logical))
    | "sumc" =>
      let m := sumChecked (nativeChecked t .add) vals valid
      let s := sumCheckedSpec t logical
      let sh : Except Err (Option Int) → String := fun r => match r with | .ok o => showOptInt o | .error e => showErr e
      check (sh m) (sh s)
    | "min" =>
      let e : Int := match ty with | .flt b => 2 ^ (b - 1) - 1 | _ => t.hi
      check (showOptInt (aggregateLanes (fun m x => if key x < key m then x else m) e lanes vals valid))
            (showOptInt (minSpec key logical))
    | "max" =>
      let e : Int := match ty with | .flt b => 2 ^ b - 1 | _ => t.lo
      check (showOptInt (aggregateLanes (fun m x => if key x > key m then x else m) e lanes vals valid))
            (showOptInt (maxSpec key logical))
    | "band" =>
      check (showOptInt (bitAggregate (bitOpInt t (· &&& ·)) (t.wrap (-1)) vals valid))
            (showOptInt (reduceSpec (bitOpInt t (· &&& ·)) (t.wrap (-1)) logical))
    | "bor" =>
      check (showOptInt (bitAggregate (bitOpInt t (· ||| ·)) 0 vals valid))
            (showOptInt (reduceSpec (bitOpInt t (· ||| ·)) 0 logical))
    | "bxor" =>
      check (showOptInt (bitAggregate (bitOpInt t (· ^^^ ·)) 0 vals valid))
            (showOptInt (reduceSpec (bitOpInt t (· ^^^ ·)) 0 logical))
    | _ => "bad-op"
  | _, _ => "bad-op"

/-! ### boolean kernels -/

/-- `B<off>:<values>:<validity|->` -/
def parseBoolArr (s : String) : Option (List Bool × List Bool × Bool) :=
  match s.splitOn ":" with
  | [_off, v, n] => do
    let vs ← parseBits v
    if n = "-" then some (vs, vs.map (fun _ => true), false)
    else do
      let ns ← parseBits n
      if ns.length = vs.length then some (vs, ns, true) else none
  | _ => none

def showOptBits (xs : List (Option Bool)) : String :=
  if xs.isEmpty then "-" else
  String.ofList (xs.map (fun o => match o with | some true => '1' | some false => '0' | none => 'n'))

def zip4 (f : Bool → Bool → Bool → Bool → Bool × Bool) : List Bool → List Bool → List Bool → List Bool → List (Option Bool)
  | a :: as, b :: bs, c :: cs, d :: ds => (let r := f a b c d; optBit r.1 r.2) :: zip4 f as bs cs ds
  | _, _, _, _ => []

def handleBool (op lS rS : String) : String :=
  match parseBoolArr lS, parseBoolArr rS with
  | some (lv, ln, lHas), some (rv, rn, rHas) =>
    if lv.length ≠ rv.length then showErr .compute else
    let ll := (decode lv ln)
    let rl := (decode rv rn)
    match op with
    | "and_kleene" =>
      -- the four (nulls?, nulls?) branches of `and_kleene`
      let m := match lHas, rHas with
        | false, false => zip4 (fun _ b _ d => (true, b && d)) ln lv rn rv
        | true, false => zip4 (fun a b _ d => (a || !d, b && d)) ln lv rn rv
        | false, true => zip4 (fun _ b c d => (c || !b, b && d)) ln lv rn rv
        | true, true => zip4 andKleeneBit ln lv rn rv
      check (showOptBits m) (showOptBits (List.zipWith kleeneAnd ll rl))
    | "or_kleene" =>
      let m := match lHas, rHas with
        | false, false => zip4 (fun _ b _ d => (true, b || d)) ln lv rn rv
        | true, false => zip4 (fun a b _ d => (a || d, b || d)) ln lv rn rv
        | false, true => zip4 (fun _ b c d => (c || b, b || d)) ln lv rn rv
        | true, true => zip4 orKleeneBit ln lv rn rv
      check (showOptBits m) (showOptBits (List.zipWith kleeneOr ll rl))
    | "and" =>
      check (showOptBits (zip4 (fun a b c d => (a && c, b && d)) ln lv rn rv)) (showOptBits (List.zipWith (strictBool (· && ·)) ll rl))
    | "or" =>
      check (showOptBits (zip4 (fun a b c d => (a && c, b || d)) ln lv rn rv)) (showOptBits (List.zipWith (strictBool (· || ·)) ll rl))
    | "and_not" =>
      check (showOptBits (zip4 (fun a b c d => (a && c, b && !d)) ln lv rn rv)) (showOptBits (List.zipWith (strictBool (fun x y => x && !y)) ll rl))
    | _ => "bad-op"
  | _, _ => "bad-op"

def handleBagg (fn aS : String) : String :=
  match parseBoolArr aS with
  | some (v, n, _) =>
    let l := nonNull (decode v n)
    let sh : Option Bool → String := fun o => match o with | some b => showBool b | none => "none"
    match fn with
    | "and" | "min" => sh (if l.isEmpty then none else some (l.all id))
    | "or" | "max" => sh (if l.isEmpty then none else some (l.any id))
    | _ => "bad-op"
  | none => "bad-op"

/-! ### dispatch -/

def handle (toks : List String) : String :=
  match toks with
  | ["i256", m, alo, ahi, blo, bhi] =>
    match parseI256 alo ahi, parseI256 blo bhi with
    | some a, some b => i256Binary m a b
    | _, _ => "bad-op"
  | ["i256", "cpow", alo, ahi, e] =>
    match parseI256 alo ahi, e.toNat? with
    | some a, some e => check (showOptI256 (a.checkedPow e)) (specChecked (a.value ^ e))
    | _, _ => "bad-op"
  | ["i256", "wpow", alo, ahi, e] =>
    match parseI256 alo ahi, e.toNat? with
    | some a, some e => check (showI256 (a.wrappingPow e)) (specWrapping (a.value ^ e))
    | _, _ => "bad-op"
  | ["i256", "fromi128", v] =>
    match parseInt v with
    | some v => check (showI256 (I256.fromI128 v)) (specWrapping v)
    | none => "bad-op"
  | ["i256", m, alo, ahi] =>
    match parseI256 alo ahi with
    | some a => i256Unary m a
    | none => "bad-op"
  | ["i256str", s] =>
    let cs := s.toList.drop 1   -- the string is prefixed with `=`
    check (showOptI256 (I256.fromStr cs))
          (match fromStrSpec cs with | some v => showI256 (I256.ofInt v) | none => "none")
  | ["arith", op, lt, l, rt, r] => handleArith op lt l rt r
  | ["neg", ty, a] => handleNeg false ty a
  | ["neg_wrapping", ty, a] => handleNeg true ty a
  | ["agg", fn, ty, a] => handleAgg fn ty a
  | ["bool", "not", a] =>
    match parseBoolArr a with
    | some (v, n, _) =>
      check (showOptBits (List.zipWith (fun valid value => optBit valid (!value)) n v))
            (showOptBits ((decode v n).map kleeneNot))
    | none => "bad-op"
  | ["bool", op, l, r] => handleBool op l r
  | ["bagg", fn, a] => handleBagg fn a
  | _ => "bad-op"

end ArrowModel.C12
