import ArrowModel.Common.Proto
import ArrowModel.C12.Spec
import ArrowModel.C12.Model
/-
C12 driver: one case per line → one canonical answer per line.

Answers are computed by the *algorithm model* (limb code for i256 / Decimal256, the
`arity.rs` value/validity loops, lane-split aggregates, Kleene bit formulas); the
specification (exact `Int` arithmetic + representability, `Option`-list null semantics,
reductions over the non-null values, three-valued truth tables) is evaluated alongside and
`MODEL-SPEC-MISMATCH` is printed if the two differ.
-/
namespace ArrowModel.C12
open ArrowModel.Proto
open ArrowModel.Generated.C12

def check (model spec : String) : String :=
  if model = spec then model else s!"MODEL-SPEC-MISMATCH model={model} spec={spec}"

def showErr : Err → String
  | .overflow => "ERR:overflow"
  | .divzero => "ERR:divzero"
  | .invalidArg => "ERR:invalid-arg"
  | .compute => "ERR:compute"

/-! ### i256 direct -/

def showI256 (a : I256) : String := s!"{a.lo} {a.hi}"
def showOptI256 : Option I256 → String
  | some a => showI256 a
  | none => "none"
def showOptInt : Option Int → String
  | some a => toString a
  | none => "none"
def showOrd : Ordering → String
  | .lt => "lt" | .eq => "eq" | .gt => "gt"

def parseI256 (lo hi : String) : Option I256 := do
  let l ← lo.toNat?
  let h ← parseInt hi
  if l < 2 ^ 128 ∧ -(2 ^ 127 : Int) ≤ h ∧ h < 2 ^ 127 then some ⟨l, h⟩ else none

/-- spec answer for an exact integer result: limbs of `x` if representable -/
def specChecked (x : Int) : String :=
  if inRange256 x then showI256 (I256.ofInt x) else "none"
def specWrapping (x : Int) : String := showI256 (I256.ofInt x)

def i256Binary (m : String) (a b : I256) : String :=
  let va := a.value
  let vb := b.value
  match m with
  | "wadd" => check (showI256 (a.wrappingAdd b)) (specWrapping (va + vb))
  | "wsub" => check (showI256 (a.wrappingSub b)) (specWrapping (va - vb))
  | "wmul" => check (showI256 (a.wrappingMul b)) (specWrapping (va * vb))
  | "cadd" => check (showOptI256 (a.checkedAdd b)) (specChecked (va + vb))
  | "csub" => check (showOptI256 (a.checkedSub b)) (specChecked (va - vb))
  | "cmul" => check (showOptI256 (a.checkedMul b)) (specChecked (va * vb))
  | "cdiv" => check (showOptI256 (a.checkedDiv b)) (if vb = 0 then "none" else specChecked (Int.tdiv va vb))
  | "crem" => check (showOptI256 (a.checkedRem b))
      (if vb = 0 ∨ (va = -(2 ^ 255 : Int) ∧ vb = -1) then "none" else specChecked (Int.tmod va vb))
  | "wdiv" => check (match a.wrappingDiv b with | some r => showI256 r | none => "PANIC")
      (if vb = 0 then "PANIC" else specWrapping (Int.tdiv va vb))
  | "wrem" => check (match a.wrappingRem b with | some r => showI256 r | none => "PANIC")
      (if vb = 0 then "PANIC" else specWrapping (Int.tmod va vb))
  | "cmp" => check (showOrd (a.cmp b)) (showOrd (compare va vb))
  | _ => "bad-op"

def i256Unary (m : String) (a : I256) : String :=
  let va := a.value
  match m with
  | "wneg" => check (showI256 a.wrappingNeg) (specWrapping (-va))
  | "cneg" => check (showOptI256 a.checkedNeg) (specChecked (-va))
  | "wabs" => check (showI256 a.wrappingAbs) (specWrapping (if va < 0 then -va else va))
  | "cabs" => check (showOptI256 a.checkedAbs) (specChecked (if va < 0 then -va else va))
  | "toi128" => check (showOptInt a.toI128)
      (if -(2 ^ 127 : Int) ≤ va ∧ va < 2 ^ 127 then toString va else "none")
  | "tostr" => toString va
  | _ => "bad-op"

/-- spec of `from_str`: optional sign, one or more ASCII digits, value representable -/
def fromStrSpec (cs : List Char) : Option Int :=
  let (neg, ds) := match cs with
    | '-' :: r => (true, r)
    | '+' :: r => (false, r)
    | r => (false, r)
  if ds.isEmpty || !ds.all isDigit then none else
  let n : Int := digitsToNat ds
  let v := if neg then -n else n
  if inRange256 v then some v else none

/-! ### types and items of the array kernels -/

inductive Ty where
  | int (t : NT)
  | dec (bits : Nat) (p s : Int)
  | date32 | date64
  | ts (unit : String)
  | dur (unit : String)
  | iym | idt | imdn
  | flt (bits : Nat)
  deriving DecidableEq

def i8T : NT := ⟨true, 8⟩
def i32T : NT := ⟨true, 32⟩
def i64T : NT := ⟨true, 64⟩

def parseTy (s : String) : Option Ty :=
  match s.splitOn ":" with
  | ["i8"] => some (.int ⟨true, 8⟩) | ["i16"] => some (.int ⟨true, 16⟩)
  | ["i32"] => some (.int ⟨true, 32⟩) | ["i64"] => some (.int ⟨true, 64⟩)
  | ["u8"] => some (.int ⟨false, 8⟩) | ["u16"] => some (.int ⟨false, 16⟩)
  | ["u32"] => some (.int ⟨false, 32⟩) | ["u64"] => some (.int ⟨false, 64⟩)
  | ["f32"] => some (.flt 32) | ["f64"] => some (.flt 64)
  | ["date32"] => some .date32 | ["date64"] => some .date64
  | ["ts", u] => some (.ts u) | ["dur", u] => some (.dur u)
  | ["iym"] => some .iym | ["idt"] => some .idt | ["imdn"] => some .imdn
  | [d, p, s] =>
    match (match d with | "d32" => some 32 | "d64" => some 64 | "d128" => some 128 | "d256" => some 256 | _ => none),
          parseInt p, parseInt s with
    | some b, some p, some s => some (.dec b p s)
    | _, _, _ => none
  | _ => none

def showTy : Ty → String
  | .int t => (if t.signed then "i" else "u") ++ toString t.bits
  | .dec b p s => s!"d{b}:{p}:{s}"
  | .date32 => "date32" | .date64 => "date64"
  | .ts u => "ts:" ++ u | .dur u => "dur:" ++ u
  | .iym => "iym" | .idt => "idt" | .imdn => "imdn"
  | .flt b => "f" ++ toString b

/-- an element: its integer components (1 for plain types, 2 for day-time, 3 for month-day-nano) -/
abbrev Item := List Int

def parseItemVal (s : String) : Option Item := (s.splitOn "/").mapM parseInt
def showItem (x : Item) : String := "/".intercalate (x.map toString)

/-- `v` or `n:garbage` -/
def parseSlot (s : String) : Option (Item × Bool) :=
  match s.splitOn ":" with
  | [v] => (parseItemVal v).map (·, true)
  | ["n", g] => (parseItemVal g).map (·, false)
  | _ => none

structure Operand where
  scalar : Bool
  arr : Arr Item

/-- `A<off>:<slots>` / `N<off>:<slots>` (array; `N` forces a null buffer) or `S:<slot>` (scalar) -/
def parseOperand (s : String) : Option Operand :=
  match s.toList with
  | 'S' :: ':' :: rest =>
    (parseSlot (String.ofList rest)).map (fun p => ⟨true, ⟨[p.1], [p.2]⟩⟩)
  | c :: rest =>
    if c = 'A' ∨ c = 'N' then
      match (String.ofList rest).splitOn ":" with
      | _off :: tl =>
        let body := ":".intercalate tl
        (parseList parseSlot body).map (fun ps => ⟨false, ⟨ps.map (·.1), ps.map (·.2)⟩⟩)
      | _ => none
    else none
  | _ => none

def showSlots (xs : List (Option Item)) : String :=
  showList (fun o => match o with | some x => showItem x | none => "n") xs

def showResult (r : Except Err (Ty × List (Option Item))) : String :=
  match r with
  | .ok (t, xs) => s!"{showTy t} {showSlots xs}"
  | .error e => showErr e

/-! ### slot operations (numeric.rs) -/

def ntOf : Ty → Option NT
  | .int t => some t
  | .dec b _ _ => some ⟨true, b⟩
  | .date32 => some i32T
  | .date64 => some i64T
  | .ts _ => some i64T
  | .dur _ => some i64T
  | .iym => some i32T
  | _ => none

/-- native checked op for a physical type; 256-bit goes through the limb model -/
def nativeChecked (t : NT) (op : AOp) (a b : Int) : Except Err Int :=
  if t.bits = 256 then
    match op with
    | .add => addChecked256 a b | .sub => subChecked256 a b | .mul => mulChecked256 a b
    | .div => divChecked256 a b | .rem => modChecked256 a b
  else
    match op with
    | .add => addChecked t a b | .sub => subChecked t a b | .mul => mulChecked t a b
    | .div => divChecked t a b | .rem => modChecked t a b

def nativeNegChecked (t : NT) (a : Int) : Except Err Int :=
  if t.bits = 256 then negChecked256 a else negChecked t a

def nativePowChecked (t : NT) (a : Int) (e : Nat) : Except Err Int :=
  if t.bits = 256 then powChecked256 a e else powChecked t a e
def nativePowWrapping (t : NT) (a : Int) (e : Nat) : Int :=
  if t.bits = 256 then powWrapping256 a e else powWrapping t a e

/-- specification counterpart of `nativeChecked` (for `rem` std's `checked_rem` also
rejects `MIN % -1`) -/
def nativeCheckedSpec (t : NT) (op : AOp) (a b : Int) : Except Err Int :=
  match op with
  | .rem => if b = 0 then .error .divzero else if a = t.lo ∧ b = -1 ∧ t.signed then .error .overflow else .ok (Int.tmod a b)
  | op => checkedSpec t op a b

def one1 (f : Int → Int → Except Err Int) : Item → Item → Except Err Item
  | [a], [b] => (f a b).map ([·])
  | _, _ => .error .compute

/-- component-wise checked op on interval parts -/
def compWise (ts : List NT) (f : NT → Int → Int → Except Err Int) : Item → Item → Except Err Item
  | a :: as, b :: bs =>
    match ts with
    | t :: ts' =>
      match f t a b with
      | .ok c => (compWise ts' f as bs).map (c :: ·)
      | .error e => .error e
    | [] => .error .compute
  | [], [] => .ok []
  | _, _ => .error .compute

/-- `mul_i32_i64`: `i64::from(left).mul_checked(right)?` then `i32::try_from` -/
def mulI32I64 (l r : Int) : Except Err Int :=
  match mulChecked i64T l r with
  | .ok v => if i32T.inRange v then .ok v else .error .overflow
  | .error e => .error e

def intervalParts : Ty → List NT
  | .iym => [i32T]
  | .idt => [i32T, i32T]
  | .imdn => [i32T, i32T, i64T]
  | _ => []

def intervalMulI64 (t : Ty) (l : Item) (r : Item) : Except Err Item :=
  match r with
  | [f] =>
    let rec go : List NT → Item → Except Err Item
      | nt :: nts, x :: xs =>
        match (if nt.bits = 32 then mulI32I64 x f else mulChecked i64T x f) with
        | .ok c => (go nts xs).map (c :: ·)
        | .error e => .error e
      | _, _ => .ok []
    go (intervalParts t) l
  | _ => .error .compute

inductive KOp where
  | add | addW | sub | subW | mul | mulW | div | rem
  deriving DecidableEq

def parseKOp : String → Option KOp
  | "add" => some .add | "add_wrapping" => some .addW
  | "sub" => some .sub | "sub_wrapping" => some .subW
  | "mul" => some .mul | "mul_wrapping" => some .mulW
  | "div" => some .div | "rem" => some .rem
  | _ => none

def KOp.commutative : KOp → Bool
  | .add | .addW | .mul | .mulW => true
  | _ => false
def KOp.isAdd : KOp → Bool | .add | .addW => true | _ => false
def KOp.isSub : KOp → Bool | .sub | .subW => true | _ => false

/-- what `arithmetic_op` resolves to for a type pair -/
structure Plan where
  outTy : Ty
  specOut : Ty                             -- result type demanded by the documented rule
  postErr : Option Err                     -- error raised after a successful kernel run (`with_precision_and_scale`)
  fallible : Bool                          -- `try_op!` (true) or `op!` (false)
  op : Item → Item → Except Err Item       -- model slot operation
  spec : Item → Item → Except Err Item     -- specification slot operation
  zero : Item
  preErr : Option Err                      -- model: error raised before the kernel runs (`pow_checked(..)?` of a decimal multiplier)
  exactSpec : Bool                         -- decimal plan whose specification is the exact result (ignores `preErr`)

inductive Resolved where
  | plan (p : Plan)
  | err (e : Err)
  | skip

def zeroOf : Ty → Item
  | .idt => [0, 0]
  | .imdn => [0, 0, 0]
  | _ => [0]

def decMax : Nat → Int × Int
  | 32 => (DECIMAL32_MAX_PRECISION, DECIMAL32_MAX_SCALE)
  | 64 => (DECIMAL64_MAX_PRECISION, DECIMAL64_MAX_SCALE)
  | 128 => (DECIMAL128_MAX_PRECISION, DECIMAL128_MAX_SCALE)
  | _ => (DECIMAL256_MAX_PRECISION, DECIMAL256_MAX_SCALE)

/-- `(x as u32)` exponent of `pow_checked((result_scale - s1) as _)`: the `i8` difference
reinterpreted as `u32` -/
def expOfI8 (d : Int) : Nat := (wrapI8 d % 2 ^ 32).toNat

def bind2 (x y : Except Err Int) (f : Int → Int → Except Err Int) : Except Err Int :=
  match x with
  | .error e => .error e
  | .ok a => match y with
    | .error e => .error e
    | .ok b => f a b

/-- operand within its declared precision: `|v| < 10^p` -/
def inPrec (v p : Int) : Bool := decide (-(10 ^ p.toNat : Int) < v) && decide (v < (10 ^ p.toNat : Int))

/-- **specification** of a decimal operation on in-precision operands: the exact result of
the rescaled operands on unbounded integers; an error only when that result is not
representable in the result's physical type (or the divisor is zero).  `k1`, `k2` are the
powers of ten the operands are rescaled by. -/
def exactDec (t : NT) (a : AOp) (k1 k2 : Nat) (l r : Int) : Except Err Int :=
  match exactOp a (l * 10 ^ k1) (r * 10 ^ k2) with
  | .ok v => if t.inRange v then .ok v else .error .overflow
  | .error e => .error e

/-- `decimal_op` -/
def decimalPlan (op : KOp) (bits : Nat) (p1 s1 p2 s2 : Int) : Resolved :=
  let t : NT := ⟨true, bits⟩
  let (maxP, maxS) := decMax bits
  -- scales far outside the generator's domain make `10^k` astronomically large: not covered
  if s1 < -40 ∨ s2 < -40 then .skip else
  -- the property's domain for the type rules and the exact specification: valid decimal types
  let inDomain : Bool := decide (1 ≤ p1 ∧ p1 ≤ maxP ∧ 0 ≤ s1 ∧ s1 ≤ p1 ∧ 1 ≤ p2 ∧ p2 ≤ maxP ∧ 0 ≤ s2 ∧ s2 ≤ p2)
  -- `f`: model slot op as written; `g`: as-written specification (intermediates checked), used outside the
  -- domain and for operands beyond their precision; `ex`: exact specification (in-domain, in-precision)
  let mk (ty : Int × Int) (specTy : Int × Int) (pre : Option Err) (f g : Int → Int → Except Err Int)
      (ex : Option (Int → Int → Except Err Int)) : Resolved :=
    let specTy := if inDomain then specTy else ty
    -- `with_precision_and_scale(result_precision, result_scale)?` runs after the kernel
    let post := if !decTypeValid maxP maxS ty.1 ty.2 then some Err.invalidArg else none
    let g' : Int → Int → Except Err Int := fun l r => match pre with | some e => .error e | none => g l r
    match ex, inDomain with
    | some ex, true =>
      let sp : Int → Int → Except Err Int := fun l r => if inPrec l p1 && inPrec r p2 then ex l r else g' l r
      .plan ⟨.dec bits ty.1 ty.2, .dec bits specTy.1 specTy.2, post, true, one1 f, one1 sp, [0], pre, true⟩
    | _, _ =>
      match pre with
      | some e => .err e
      | none => .plan ⟨.dec bits ty.1 ty.2, .dec bits specTy.1 specTy.2, post, true, one1 f, one1 g, [0], none, false⟩
  let errOf : Except Err Int → Option Err := fun x => match x with | .error e => some e | .ok _ => none
  let valOf : Except Err Int → Int := fun x => match x with | .ok v => v | .error _ => 1
  match op with
  | .add | .addW | .sub | .subW =>
    let ty := decAddTypeM maxP p1 s1 p2 s2
    let aop : AOp := if op.isAdd then .add else .sub
    let lm := nativePowChecked t 10 (expOfI8 (ty.2 - s1))
    let rm := nativePowChecked t 10 (expOfI8 (ty.2 - s2))
    let pre := (errOf lm).orElse (fun _ => errOf rm)
    let (l_mul, r_mul) := (valOf lm, valOf rm)
    if s1 = s2 then
      mk ty (decAddType maxP p1 s1 p2 s2) pre (nativeChecked t aop) (checkedSpec t aop) none
    else
      mk ty (decAddType maxP p1 s1 p2 s2) pre
        (fun l r => bind2 (nativeChecked t .mul l l_mul) (nativeChecked t .mul r r_mul) (nativeChecked t aop))
        (fun l r => bind2 (checkedSpec t .mul l (10 ^ (ty.2 - s1).toNat)) (checkedSpec t .mul r (10 ^ (ty.2 - s2).toNat)) (checkedSpec t aop))
        (some (exactDec t aop (ty.2 - s1).toNat (ty.2 - s2).toNat))
  | .mul | .mulW =>
    let ty := decMulTypeM maxP p1 s1 p2 s2
    if ty.2 > maxS then .err .invalidArg else
    mk ty (decMulType maxP p1 s1 p2 s2) none (nativeChecked t .mul) (checkedSpec t .mul) none
  | .div =>
    let (ty, mul_pow) := decDivTypeM maxP maxS p1 s1 p2 s2
    let muls : Except Err (Int × Int) :=
      if mul_pow > 0 then (nativePowChecked t 10 (expOfI8 mul_pow)).map (·, 1)
      else if mul_pow = 0 then .ok (1, 1)
      else (nativePowChecked t 10 (expOfI8 (-mul_pow))).map (1, ·)
    let pre : Option Err := match muls with | .error e => some e | .ok _ => none
    let (l_mul, r_mul) : Int × Int := match muls with | .ok m => m | .error _ => (1, 1)
    mk ty (decDivType maxP maxS p1 s1 p2 s2) pre
      (fun l r => bind2 (nativeChecked t .mul l l_mul) (nativeChecked t .mul r r_mul) (nativeChecked t .div))
      (fun l r => bind2 (checkedSpec t .mul l (10 ^ mul_pow.toNat)) (checkedSpec t .mul r (10 ^ (-mul_pow).toNat)) (checkedSpec t .div))
      (some (exactDec t .div mul_pow.toNat (-mul_pow).toNat))
  | .rem =>
    let ty := decRemTypeM maxP p1 s1 p2 s2
    let l_mul := nativePowWrapping t 10 (expOfI8 (ty.2 - s1))
    let r_mul := nativePowWrapping t 10 (expOfI8 (ty.2 - s2))
    mk ty (decRemType maxP p1 s1 p2 s2) none
      (fun l r => bind2 (nativeChecked t .mul l l_mul) (nativeChecked t .mul r r_mul) (nativeChecked t .rem))
      (fun l r => bind2 (checkedSpec t .mul l (t.wrap (10 ^ (ty.2 - s1).toNat))) (checkedSpec t .mul r (t.wrap (10 ^ (ty.2 - s2).toNat))) (nativeCheckedSpec t .rem))
      (if s1 = s2 then none else some (exactDec t .rem (ty.2 - s1).toNat (ty.2 - s2).toNat))

def isInterval : Ty → Bool | .iym | .idt | .imdn => true | _ => false
def isDateTs : Ty → Bool | .date32 | .date64 | .ts _ => true | _ => false
def isDurInt : Ty → Bool | .dur _ => true | t => isInterval t

def okInt (f : Int → Int → Int) : Int → Int → Except Err Int := fun a b => .ok (f a b)


/-! ### Interval(MonthDayNano) × Float64: only the exact route (`factor.fract() == 0 && to_i64(factor)` →
`mul_i64`) is modelled; every other factor goes through `f64` arithmetic and is answered `SKIP` -/

/-- the integer a finite integral `f64` bit pattern denotes, if it is within `i64` (`ToPrimitive::to_i64`) -/
def f64ToInt? (bits : Int) : Option Int :=
  let b := bits.toNat
  let neg := b / 2 ^ 63 = 1
  let e := (b / 2 ^ 52) % 2048
  let m := b % 2 ^ 52
  let mag : Option Nat :=
    if e = 2047 then none
    else if e = 0 then (if m = 0 then some 0 else none)
    else
      let mant := m + 2 ^ 52
      if e ≥ 1075 then some (mant * 2 ^ (e - 1075))
      else if mant % 2 ^ (1075 - e) = 0 then some (mant / 2 ^ (1075 - e)) else none
  match mag with
  | none => none
  | some n =>
    let v : Int := if neg then -(n : Int) else n
    if -(2 ^ 63 : Int) ≤ v ∧ v < 2 ^ 63 then some v else none

/-- `1. / factor` when it is an exact power of two that is integral and within `i64` -/
def f64RecipInt? (bits : Int) : Option Int :=
  let b := bits.toNat
  let neg := b / 2 ^ 63 = 1
  let e := (b / 2 ^ 52) % 2048
  let m := b % 2 ^ 52
  if m ≠ 0 ∨ e = 0 ∨ e = 2047 ∨ e > 1023 then none else
  let k := 1023 - e          -- factor = ±2^(-k), reciprocal = ±2^k
  let v : Int := if neg then -(2 ^ k : Int) else 2 ^ k
  if -(2 ^ 63 : Int) ≤ v ∧ v < 2 ^ 63 then some v else none

def f64IsZero (bits : Int) : Bool := bits == 0 || bits == 2 ^ 63

/-- `interval_f64_op` slot operation -/
def intervalF64Slot (op : KOp) (l : Item) (r : Item) : Except Err Item :=
  match r with
  | [f] =>
    match op with
    | .mul => (match f64ToInt? f with | some k => intervalMulI64 .imdn l [k] | none => .error .compute)
    | .div => if f64IsZero f then .error .divzero else
              (match f64RecipInt? f with | some k => intervalMulI64 .imdn l [k] | none => .error .compute)
    | _ => .error .invalidArg
  | _ => .error .compute

/-- does a valid `f64` slot need the (unmodelled) floating-point route? -/
def f64NeedsFloatRoute (op : KOp) (f : Arr Item) : Bool :=
  (decode f.vals f.valid).any (fun o => match o with
    | some [x] => (match op with
        | .mul => (f64ToInt? x).isNone
        | .div => !(f64IsZero x) && (f64RecipInt? x).isNone
        | _ => false)
    | _ => false)

/-- `arithmetic_op` dispatch -/
def resolve (fuel : Nat) (op : KOp) (lt rt : Ty) : Resolved :=
  let invalid := Resolved.err .invalidArg
  let checkedI (t : NT) (out : Ty) (a : AOp) : Resolved :=
    .plan ⟨out, out, none, true, one1 (nativeChecked t a), one1 (checkedSpec t a), [0], none, false⟩
  match lt, rt with
  | .int t, .int t' =>
    if t ≠ t' then invalid else
    match op with
    | .add => checkedI t lt .add
    | .sub => checkedI t lt .sub
    | .mul => checkedI t lt .mul
    | .div => checkedI t lt .div
    | .rem => .plan ⟨lt, lt, none, true,
        one1 (fun l r => if r = 0 then .error .divzero else .ok (modWrapping t l r)),
        one1 (checkedSpec t .rem), [0], none, false⟩
    | .addW => .plan ⟨lt, lt, none, false, one1 (okInt (addWrapping t)), one1 (wrappingSpec t .add), [0], none, false⟩
    | .subW => .plan ⟨lt, lt, none, false, one1 (okInt (subWrapping t)), one1 (wrappingSpec t .sub), [0], none, false⟩
    | .mulW => .plan ⟨lt, lt, none, false, one1 (okInt (mulWrapping t)), one1 (wrappingSpec t .mul), [0], none, false⟩
  | .dec b p1 s1, .dec b' p2 s2 => if b ≠ b' then invalid else decimalPlan op b p1 s1 p2 s2
  | .imdn, .flt 64 =>
    .plan ⟨.imdn, .imdn, none, true, intervalF64Slot op, intervalF64Slot op, [0, 0, 0], none, false⟩
  | .flt 64, .imdn =>
    if op = .mul then .plan ⟨.imdn, .imdn, none, true, fun a b => intervalF64Slot op b a, fun a b => intervalF64Slot op b a, [0, 0, 0], none, false⟩
    else invalid
  | .ts u, rt =>
    match rt with
    | .ts u' => if op.isSub ∧ u = u' then checkedI i64T (.dur u) .sub else invalid
    | .dur u' =>
      if u ≠ u' then invalid
      else if op.isAdd then checkedI i64T lt .add
      else if op.isSub then checkedI i64T lt .sub
      else invalid
    | .iym | .idt | .imdn => if op.isAdd ∨ op.isSub then .skip else invalid
    | _ => invalid
  | .dur u, .dur u' =>
    if u ≠ u' then invalid
    else if op.isAdd then checkedI i64T lt .add
    else if op.isSub then checkedI i64T lt .sub
    else invalid
  | .date32, .date32 =>
    if op.isSub then
      let f : Int → Int → Except Err Int := fun l r => .ok (i64T.wrap (i64T.wrap (l - r) * DATE32_SECONDS_IN_DAY))
      let g : Int → Int → Except Err Int := fun l r => .ok ((l - r) * 86400)
      .plan ⟨.dur "s", .dur "s", none, false, one1 f, one1 g, [0], none, false⟩
    else invalid
  | .date64, .date64 => if op.isSub then checkedI i64T (.dur "ms") .sub else invalid
  | .date32, rt | .date64, rt =>
    if isInterval rt ∧ (op.isAdd ∨ op.isSub) then .skip else invalid
  | lt, rt =>
    if isInterval lt ∧ (rt = lt ∨ rt = .int i64T) then
      if rt = lt ∧ (op.isAdd ∨ op.isSub) then
        let a : AOp := if op.isAdd then .add else .sub
        .plan ⟨lt, lt, none, true, compWise (intervalParts lt) (fun t => nativeChecked t a),
               compWise (intervalParts lt) (fun t => checkedSpec t a), zeroOf lt, none, false⟩
      else if rt = .int i64T ∧ op = .mul then
        .plan ⟨lt, lt, none, true, intervalMulI64 lt, intervalMulI64 lt, zeroOf lt, none, false⟩
      else invalid
    else if isDurInt lt ∧ isDateTs rt ∧ op.commutative then
      match fuel with
      | 0 => invalid
      | fuel + 1 =>
        match resolve fuel op rt lt with
        | .plan p => .plan { p with op := fun a b => p.op b a, spec := fun a b => p.spec b a }
        | r => r
    else if lt = .int i64T ∧ isInterval rt ∧ op = .mul then
      match fuel with
      | 0 => invalid
      | fuel + 1 =>
        match resolve fuel op rt lt with
        | .plan p => .plan { p with op := fun a b => p.op b a, spec := fun a b => p.spec b a }
        | r => r
    else invalid

def totalOf (f : Item → Item → Except Err Item) (zero : Item) : Item → Item → Item :=
  fun a b => match f a b with | .ok c => c | .error _ => zero

/-- the `op!` / `try_op!` macros: array-array, array-scalar, scalar-array -/
def runKernelModel (p : Plan) (l r : Operand) : Except Err (List (Option Item)) :=
  match l.scalar, r.scalar with
  | true, false =>
    match l.arr.vals, l.arr.valid with
    | [lv], [true] =>
      if p.fallible then (tryUnary (fun x => p.op lv x) p.zero r.arr).map Arr.logical
      else .ok (unary (fun x => totalOf p.op p.zero lv x) r.arr).logical
    | _, _ => .ok (List.replicate r.arr.vals.length none)
  | false, true =>
    match r.arr.vals, r.arr.valid with
    | [rv], [true] =>
      if p.fallible then (tryUnary (fun x => p.op x rv) p.zero l.arr).map Arr.logical
      else .ok (unary (fun x => totalOf p.op p.zero x rv) l.arr).logical
    | _, _ => .ok (List.replicate l.arr.vals.length none)
  | _, _ =>
    if l.arr.vals.length ≠ r.arr.vals.length then .error .compute
    else if p.fallible then (tryBinary p.op p.zero l.arr r.arr).map Arr.logical
    else .ok (binary (totalOf p.op p.zero) l.arr r.arr).logical

def runKernelSpec (p : Plan) (l r : Operand) : Except Err (List (Option Item)) :=
  let ll := l.arr.logical
  let rl := r.arr.logical
  let (ll, rl) :=
    match l.scalar, r.scalar with
    | true, false => (List.replicate rl.length (ll.headD none), rl)
    | false, true => (ll, List.replicate ll.length (rl.headD none))
    | _, _ => (ll, rl)
  if ll.length ≠ rl.length then .error .compute else tryBinarySpec p.spec ll rl

def sameOutcome (m s : Except Err (List (Option Item))) : Bool :=
  match m, s with
  | .ok a, .ok b => a == b
  | .error _, .error _ => true     -- the class of the error is model-level detail
  | _, _ => false

def handleArith (opS ltS lS rtS rS : String) : String :=
  match parseKOp opS, parseTy ltS, parseOperand lS, parseTy rtS, parseOperand rS with
  | some op, some lt, some l, some rt, some r =>
    if (lt = .imdn ∧ rt = .flt 64 ∧ f64NeedsFloatRoute op r.arr) ∨ (lt = .flt 64 ∧ rt = .imdn ∧ f64NeedsFloatRoute op l.arr) then "SKIP" else
    match resolve 2 op lt rt with
    | .skip => "SKIP"
    | .err e => showErr e
    | .plan p =>
      let post : Except Err (List (Option Item)) → Except Err (List (Option Item)) := fun r =>
        match r, p.postErr with
        | .ok _, some e => .error e
        | r, _ => r
      let m := match p.preErr with
        | some e => .error e
        | none => post (runKernelModel p l r)
      let s := post (runKernelSpec p l r)
      let ms := showResult (m.map (p.outTy, ·))
      let ss := showResult (s.map (p.outTy, ·))
      if p.outTy ≠ p.specOut then s!"MODEL-SPEC-MISMATCH type model={showTy p.outTy} spec={showTy p.specOut}" else
      if sameOutcome m s then ms else
      -- decimal kernels do not widen intermediates: the code (and the model, as written) reports
      -- ArithmeticOverflow when a rescaled operand `l·10^k` or a multiplier `10^k` exceeds the native
      -- width although the exact result is representable.  The property demands the exact result, so
      -- the specification's answer is returned (known finding kf:decimal-intermediate-rescale-overflow).
      match p.exactSpec, m, s with
      | true, .error .overflow, .ok _ => ss
      | _, _, _ => s!"MODEL-SPEC-MISMATCH model={ms} spec={ss}"
  | _, _, _, _, _ => "bad-op"

/-- `neg` / `neg_wrapping` -/
def handleNeg (wrapping : Bool) (tyS aS : String) : String :=
  match parseTy tyS, parseOperand aS with
  | some ty, some a =>
    let run (fallible : Bool) (f g : Item → Except Err Item) (zero : Item) : String :=
      let m : Except Err (List (Option Item)) :=
        if fallible then (tryUnary f zero a.arr).map Arr.logical
        else .ok (unary (fun x => match f x with | .ok c => c | .error _ => zero) a.arr).logical
      let s := tryUnarySpec g a.arr.logical
      let ms := showResult (m.map (ty, ·))
      if sameOutcome m s then ms else s!"MODEL-SPEC-MISMATCH model={ms} spec={showResult (s.map (ty, ·))}"
    let un (f : Int → Except Err Int) : Item → Except Err Item
      | [x] => (f x).map ([·])
      | _ => .error .compute
    let comp (ts : List NT) : Item → Except Err Item := fun x =>
      compWise ts (fun t a _ => nativeNegChecked t a) x x
    let specNeg (t : NT) : Int → Except Err Int := fun x => if t.inRange (-x) then .ok (-x) else .error .overflow
    let compSpec (ts : List NT) : Item → Except Err Item := fun x =>
      compWise ts (fun t a _ => specNeg t a) x x
    match ty with
    | .int t =>
      if wrapping then run false (un (fun x => .ok (negWrapping t x))) (un (fun x => .ok (t.wrap (-x)))) [0]
      else if t.signed then run true (un (nativeNegChecked t)) (un (specNeg t)) [0]
      else showErr .invalidArg
    | .dec b _ _ => run true (un (nativeNegChecked ⟨true, b⟩)) (un (specNeg ⟨true, b⟩)) [0]
    | .dur _ => run true (un (nativeNegChecked i64T)) (un (specNeg i64T)) [0]
    | .iym => run true (un (nativeNegChecked i32T)) (un (specNeg i32T)) [0]
    | .idt => run true (comp [i32T, i32T]) (compSpec [i32T, i32T]) [0, 0]
    | .imdn => run true (comp [i32T, i32T, i64T]) (compSpec [i32T, i32T, i64T]) [0, 0, 0]
    | .flt b =>
      -- IEEE negation = sign-bit flip of the bit pattern
      let f : Int → Except Err Int := fun x => .ok (if x < 2 ^ (b - 1) then x + 2 ^ (b - 1) else x - 2 ^ (b - 1))
      run false (un f) (un f) [0]
    | _ => showErr .invalidArg
  | _, _ => "bad-op"

/-! ### aggregates -/

/-- total-order key of a value of the type (floats: `total_cmp` on the bit pattern) -/
def keyOf : Ty → Int → Int
  | .flt b => fun x => if x < 2 ^ (b - 1) then x else -(x - 2 ^ (b - 1)) - 1
  | _ => fun x => x

def bytesOf : Ty → Nat
  | .int t => t.bits / 8
  | .dec b _ _ => b / 8
  | .flt b => b / 8
  | .date32 | .iym => 4
  | _ => 8

/-- two's complement bit operation on `Int` via the unsigned representative -/
def bitOpInt (t : NT) (f : Nat → Nat → Nat) (a b : Int) : Int :=
  t.wrap (f (a % 2 ^ t.bits).toNat (b % 2 ^ t.bits).toNat)

def handleAgg (fn tyS aS : String) : String :=
  match parseTy tyS, parseOperand aS with
  | some ty, some a =>
    let single := a.arr.vals.all (fun x => x.length == 1)
    if !single then "bad-op" else
    let vals := a.arr.vals.map (fun x => x.headD 0)
    let valid := a.arr.valid
    let logical := decode vals valid
    let allValid := valid.all id
    let t : NT := match ty with | .flt b => ⟨false, b⟩ | ty => (ntOf ty).getD i64T
    -- PREFERRED_VECTOR_SIZE / size_of::<T>() on the baseline target; 1 lane on the non-null integer path
    let lanes := if allValid then 1 else max 1 (16 / bytesOf ty)
    let key := keyOf ty
    match fn with
    | "sum" =>
      let wadd : Int → Int → Int := if t.bits = 256 then
        (fun x y => ((I256.ofInt x).wrappingAdd (I256.ofInt y)).value) else addWrapping t
      check (showOptInt (aggregateLanes wadd 0 lanes vals valid)) (showOptInt (sumSpec t logical))
    | "sumc" =>
      let m := sumChecked (nativeChecked t .add) vals valid
      let s := sumCheckedSpec t logical
      let sh : Except Err (Option Int) → String := fun r => match r with | .ok o => showOptInt o | .error e => showErr e
      check (sh m) (sh s)
    | "min" =>
      let e : Int := match ty with | .flt b => 2 ^ (b - 1) - 1 | _ => t.hi
      check (showOptInt (aggregateLanes (fun m x => if key x < key m then x else m) e lanes vals valid))
            (showOptInt (minSpec key logical))
    | "max" =>
      let e : Int := match ty with | .flt b => 2 ^ b - 1 | _ => t.lo
      check (showOptInt (aggregateLanes (fun m x => if key x > key m then x else m) e lanes vals valid))
            (showOptInt (maxSpec key logical))
    | "prod" =>
      let wmul : Int → Int → Int := if t.bits = 256 then
        (fun x y => ((I256.ofInt x).wrappingMul (I256.ofInt y)).value) else mulWrapping t
      check (showOptInt (aggregateLanes wmul 1 lanes vals valid))
            (showOptInt (match nonNull logical with | [] => none | vs => some (t.wrap (vs.foldl (· * ·) 1))))
    | "prodc" =>
      -- `product_checked`: `try_fold` with `mul_checked` over the valid slots in index order
      let m : Except Err (Option Int) :=
        if (valid.zip vals).all (fun p => !p.1) then .ok none else
        ((vals.zip valid).foldlM (fun (acc : Int) (p : Int × Bool) => if p.2 then nativeChecked t .mul acc p.1 else .ok acc) 1).map some
      let s : Except Err (Option Int) := match nonNull logical with
        | [] => .ok none
        | vs => (vs.foldlM (fun (acc : Int) (v : Int) => checkedSpec t .mul acc v) 1).map some
      let sh : Except Err (Option Int) → String := fun r => match r with | .ok o => showOptInt o | .error e => showErr e
      check (sh m) (sh s)
    | "band" =>
      check (showOptInt (bitAggregate (bitOpInt t (· &&& ·)) (t.wrap (-1)) vals valid))
            (showOptInt (reduceSpec (bitOpInt t (· &&& ·)) (t.wrap (-1)) logical))
    | "bor" =>
      check (showOptInt (bitAggregate (bitOpInt t (· ||| ·)) 0 vals valid))
            (showOptInt (reduceSpec (bitOpInt t (· ||| ·)) 0 logical))
    | "bxor" =>
      check (showOptInt (bitAggregate (bitOpInt t (· ^^^ ·)) 0 vals valid))
            (showOptInt (reduceSpec (bitOpInt t (· ^^^ ·)) 0 logical))
    | _ => "bad-op"
  | _, _ => "bad-op"

/-! ### boolean kernels -/

/-- `B<off>:<values>:<validity|->` -/
def parseBoolArr (s : String) : Option (List Bool × List Bool × Bool) :=
  match s.splitOn ":" with
  | [_off, v, n] => do
    let vs ← parseBits v
    if n = "-" then some (vs, vs.map (fun _ => true), false)
    else do
      let ns ← parseBits n
      if ns.length = vs.length then some (vs, ns, true) else none
  | _ => none

def showOptBits (xs : List (Option Bool)) : String :=
  if xs.isEmpty then "-" else
  String.ofList (xs.map (fun o => match o with | some true => '1' | some false => '0' | none => 'n'))

def zip4 (f : Bool → Bool → Bool → Bool → Bool × Bool) : List Bool → List Bool → List Bool → List Bool → List (Option Bool)
  | a :: as, b :: bs, c :: cs, d :: ds => (let r := f a b c d; optBit r.1 r.2) :: zip4 f as bs cs ds
  | _, _, _, _ => []

def handleBool (op lS rS : String) : String :=
  match parseBoolArr lS, parseBoolArr rS with
  | some (lv, ln, lHas), some (rv, rn, rHas) =>
    if lv.length ≠ rv.length then showErr .compute else
    let ll := (decode lv ln)
    let rl := (decode rv rn)
    match op with
    | "and_kleene" =>
      -- the four (nulls?, nulls?) branches of `and_kleene`
      let m := match lHas, rHas with
        | false, false => zip4 (fun _ b _ d => (true, b && d)) ln lv rn rv
        | true, false => zip4 (fun a b _ d => (a || !d, b && d)) ln lv rn rv
        | false, true => zip4 (fun _ b c d => (c || !b, b && d)) ln lv rn rv
        | true, true => zip4 andKleeneBit ln lv rn rv
      check (showOptBits m) (showOptBits (List.zipWith kleeneAnd ll rl))
    | "or_kleene" =>
      let m := match lHas, rHas with
        | false, false => zip4 (fun _ b _ d => (true, b || d)) ln lv rn rv
        | true, false => zip4 (fun a b _ d => (a || d, b || d)) ln lv rn rv
        | false, true => zip4 (fun _ b c d => (c || b, b || d)) ln lv rn rv
        | true, true => zip4 orKleeneBit ln lv rn rv
      check (showOptBits m) (showOptBits (List.zipWith kleeneOr ll rl))
    | "and" =>
      check (showOptBits (zip4 (fun a b c d => (a && c, b && d)) ln lv rn rv)) (showOptBits (List.zipWith (strictBool (· && ·)) ll rl))
    | "or" =>
      check (showOptBits (zip4 (fun a b c d => (a && c, b || d)) ln lv rn rv)) (showOptBits (List.zipWith (strictBool (· || ·)) ll rl))
    | "and_not" =>
      check (showOptBits (zip4 (fun a b c d => (a && c, b && !d)) ln lv rn rv)) (showOptBits (List.zipWith (strictBool (fun x y => x && !y)) ll rl))
    | _ => "bad-op"
  | _, _ => "bad-op"

def handleBagg (fn aS : String) : String :=
  match parseBoolArr aS with
  | some (v, n, _) =>
    let l := nonNull (decode v n)
    let sh : Option Bool → String := fun o => match o with | some b => showBool b | none => "none"
    match fn with
    | "and" | "min" => sh (if l.isEmpty then none else some (l.all id))
    | "or" | "max" => sh (if l.isEmpty then none else some (l.any id))
    | _ => "bad-op"
  | none => "bad-op"

/-! ### aggregates over dictionary / run-end-encoded inputs (`sum_array`, `min_array`, …) -/

/-- specification answer for an aggregate over a logical column -/
def aggSpecAnswer (fn : String) (t : NT) (logical : List (Option Int)) : String :=
  match fn with
  | "sum" => showOptInt (sumSpec t logical)
  | "sumc" => (match sumCheckedSpec t logical with | .ok o => showOptInt o | .error e => showErr e)
  | "min" => showOptInt (minSpec id logical)
  | "max" => showOptInt (maxSpec id logical)
  | _ => "bad-op"

/-- `C12 agg2 <fn> <ty> <values> dict <keys>` / `… ree <ends> <off> <len>`: the answer is the
**specification** on the logical column (key/run → value, null if the key or the value is null) -/
def handleAgg2 (toks : List String) : String :=
  match toks with
  | [fn, tyS, vS, "dict", kS] =>
    match parseTy tyS, parseOperand vS, parseOperand kS with
    | some ty, some v, some k =>
      let t := (ntOf ty).getD i64T
      let vlog := decode (v.arr.vals.map (·.headD 0)) v.arr.valid
      let klog := decode (k.arr.vals.map (·.headD 0)) k.arr.valid
      let logical := klog.map (fun o => match o with
        | some key => (vlog.getD key.toNat none)
        | none => none)
      aggSpecAnswer fn t logical
    | _, _, _ => "bad-op"
  | [fn, tyS, vS, "ree", eS, offS, lenS] =>
    match parseTy tyS, parseOperand vS, parseList parseInt eS, offS.toNat?, lenS.toNat? with
    | some ty, some v, some ends, some off, some len =>
      let t := (ntOf ty).getD i64T
      let vlog := decode (v.arr.vals.map (·.headD 0)) v.arr.valid
      let runs := ends.zip vlog
      let logical := (List.range len).map (fun i =>
        match runs.find? (fun p => decide (p.1 > ((off + i : Nat) : Int))) with
        | some p => p.2
        | none => none)
      aggSpecAnswer fn t logical
    | _, _, _, _, _ => "bad-op"
  | _ => "bad-op"

/-! ### min / max of byte arrays and strings: lexicographic order on bytes -/

def lexLt : List Nat → List Nat → Bool
  | [], [] => false
  | [], _ :: _ => true
  | _ :: _, [] => false
  | a :: as, b :: bs => if a < b then true else if b < a then false else lexLt as bs

def handleAggs (fn items : String) : String :=
  let parse (x : String) : Option (Option (List Nat)) :=
    if x = "n" then some none else (parseHex (let r := (x.drop 1).toString; if r = "" then "-" else r)).map some
  match parseList parse items with
  | some xs =>
    let vs := nonNull xs
    let best := match vs with
      | [] => none
      | v :: rest => some (rest.foldl (fun m x => if fn = "min" then (if lexLt x m then x else m) else (if lexLt m x then x else m)) v)
    match best with
    | none => "none"
    | some b => "x" ++ (if b.isEmpty then "" else toHex b)
  | none => "bad-op"

/-! ### bitwise kernels (bitwise.rs): `binary` / `unary` with the bit operation -/

/-- `wrapping_shl(b as u32)` / `wrapping_shr(b as u32)` with `b.as_usize()`: the amount is taken modulo the width -/
def shiftOp (t : NT) (left : Bool) (a b : Int) : Int :=
  let k := (b % (t.bits : Int)).toNat
  if left then t.wrap (a * 2 ^ k) else a / (2 ^ k : Int)

def bitFn (t : NT) (f : String) : Option (Int → Int → Int) :=
  match f with
  | "and" => some (bitOpInt t (· &&& ·))
  | "or" => some (bitOpInt t (· ||| ·))
  | "xor" => some (bitOpInt t (· ^^^ ·))
  | "andnot" => some (fun a b => bitOpInt t (· &&& ·) a (t.wrap (-b - 1)))
  | "shl" => some (shiftOp t true)
  | "shr" => some (shiftOp t false)
  | _ => none

def ints1 (a : Arr Item) : Arr Int := ⟨a.vals.map (·.headD 0), a.valid⟩
def showIntSlots (ty : Ty) (xs : List (Option Int)) : String :=
  s!"{showTy ty} {showList (fun o => match o with | some v => toString v | none => "n") xs}"

def handleBitw (scalarForm : Bool) (toks : List String) : String :=
  match toks with
  | ["not", tyS, aS] =>
    match parseTy tyS, parseOperand aS with
    | some (.int t), some a =>
      let f : Int → Int := fun x => t.wrap (-x - 1)
      check (showIntSlots (.int t) (unary f (ints1 a.arr)).logical) (showIntSlots (.int t) (unarySpec f (ints1 a.arr).logical))
    | _, _ => "bad-op"
  | [f, tyS, aS, bS] =>
    match parseTy tyS, parseOperand aS with
    | some (.int t), some a =>
      match bitFn t f with
      | none => "bad-op"
      | some op =>
        if scalarForm then
          match parseInt bS with
          | some sv =>
            check (showIntSlots (.int t) (unary (fun x => op x sv) (ints1 a.arr)).logical)
                  (showIntSlots (.int t) (unarySpec (fun x => op x sv) (ints1 a.arr).logical))
          | none => "bad-op"
        else
          match parseOperand bS with
          | some b =>
            if a.arr.vals.length ≠ b.arr.vals.length then showErr .compute else
            check (showIntSlots (.int t) (binary op (ints1 a.arr) (ints1 b.arr)).logical)
                  (showIntSlots (.int t) (binarySpec op (ints1 a.arr).logical (ints1 b.arr).logical))
          | none => "bad-op"
    | _, _ => "bad-op"
  | _ => "bad-op"

/-! ### `ArrowNativeTypeOp` methods called directly -/

def parseNT (s : String) : Option NT :=
  match s with
  | "i128" => some ⟨true, 128⟩ | "i256" => some ⟨true, 256⟩
  | s => match parseTy s with | some (.int t) => some t | _ => none

def showExc (r : Except Err Int) : String := match r with | .ok v => toString v | .error e => showErr e

/-- std `wrapping_div` / `wrapping_rem` (panic on a zero divisor) through the model -/
def nativeDivWrapping (t : NT) (a b : Int) : Option Int :=
  if t.bits = 256 then ((I256.ofInt a).wrappingDiv (I256.ofInt b)).map I256.value
  else if b = 0 then none else some (t.wrap (Int.tdiv a b))
def nativeRemWrapping (t : NT) (a b : Int) : Option Int :=
  if t.bits = 256 then ((I256.ofInt a).wrappingRem (I256.ofInt b)).map I256.value
  else if b = 0 then none else some (modWrapping t a b)

def handleNat (m tyS aS bS : String) : String :=
  match parseNT tyS, parseInt aS, parseInt bS with
  | some t, some a, some b =>
    let w256 (f : I256 → I256 → I256) : Int := (f (I256.ofInt a) (I256.ofInt b)).value
    let spec (x : Int) : String := if t.inRange x then toString x else showErr .overflow
    let optS (o : Option Int) : String := match o with | some v => toString v | none => "PANIC"
    match m with
    | "addc" => check (showExc (nativeChecked t .add a b)) (spec (a + b))
    | "subc" => check (showExc (nativeChecked t .sub a b)) (spec (a - b))
    | "mulc" => check (showExc (nativeChecked t .mul a b)) (spec (a * b))
    | "divc" => check (showExc (nativeChecked t .div a b)) (if b = 0 then showErr .divzero else spec (Int.tdiv a b))
    | "modc" => check (showExc (nativeChecked t .rem a b)) (showExc (nativeCheckedSpec t .rem a b))
    | "negc" => check (showExc (nativeNegChecked t a)) (spec (-a))
    | "powc" => check (showExc (nativePowChecked t a b.toNat)) (if b.toNat > 300 ∧ (a < -1 ∨ 1 < a) then showErr .overflow else spec (a ^ b.toNat))
    | "addw" => check (toString (if t.bits = 256 then w256 I256.wrappingAdd else addWrapping t a b)) (toString (t.wrap (a + b)))
    | "subw" => check (toString (if t.bits = 256 then w256 I256.wrappingSub else subWrapping t a b)) (toString (t.wrap (a - b)))
    | "mulw" => check (toString (if t.bits = 256 then w256 I256.wrappingMul else mulWrapping t a b)) (toString (t.wrap (a * b)))
    | "negw" => check (toString (if t.bits = 256 then (I256.ofInt a).wrappingNeg.value else negWrapping t a)) (toString (t.wrap (-a)))
    | "divw" => check (optS (nativeDivWrapping t a b)) (if b = 0 then "PANIC" else toString (t.wrap (Int.tdiv a b)))
    | "modw" => check (optS (nativeRemWrapping t a b)) (if b = 0 then "PANIC" else toString (Int.tmod a b))
    | "poww" => if b.toNat > 2000 then "SKIP" else check (toString (nativePowWrapping t a b.toNat)) (toString (t.wrap (a ^ b.toNat)))
    | "cmp" => showOrd (compare a b)
    | "iszero" => showBool (a == 0)
    | _ => "bad-op"
  | _, _, _ => "bad-op"

/-! ### interval structs (arrow-buffer/src/interval.rs): component-wise std operations -/

def ivalParts (tyS : String) : List NT := if tyS = "idt" then [i32T, i32T] else [i32T, i32T, i64T]

/-- `none` = `None`; panics (`wrapping_div`/`wrapping_rem` by a zero component) are `Except.error` -/
def handleIval (m tyS aS bS : String) : String :=
  let nts := ivalParts tyS
  match parseItemVal aS with
  | none => "bad-op"
  | some a =>
    let un (f : NT → Int → Option Int) : String :=
      match (nts.zip a).mapM (fun p => f p.1 p.2) with
      | some r => showItem r
      | none => "none"
    let chk (t : NT) (x : Int) : Option Int := if t.inRange x then some x else none
    match m with
    | "wneg" => un (fun t x => some (t.wrap (-x)))
    | "cneg" => un (fun t x => chk t (-x))
    | "wabs" => un (fun t x => some (t.wrap (if x < 0 then -x else x)))
    | "cabs" => un (fun t x => chk t (if x < 0 then -x else x))
    | "wpow" => (match bS.toNat? with | some e => un (fun t x => some (powWrapping t x e)) | none => "bad-op")
    | "cpow" => (match bS.toNat? with | some e => un (fun t x => if e > 300 ∧ (x < -1 ∨ 1 < x) then none else chk t (x ^ e)) | none => "bad-op")
    | _ =>
      match parseItemVal bS with
      | none => "bad-op"
      | some b =>
        let bin (f : NT → Int → Int → Option (Option Int)) : String :=   -- outer none = panic
          match ((nts.zip a).zip b).mapM (fun p => f p.1.1 p.1.2 p.2) with
          | none => "PANIC"
          | some rs => match rs.mapM id with | some r => showItem r | none => "none"
        match m with
        | "wadd" => bin (fun t x y => some (some (t.wrap (x + y))))
        | "wsub" => bin (fun t x y => some (some (t.wrap (x - y))))
        | "wmul" => bin (fun t x y => some (some (t.wrap (x * y))))
        | "wdiv" => bin (fun t x y => if y = 0 then none else some (some (t.wrap (Int.tdiv x y))))
        | "wrem" => bin (fun t x y => if y = 0 then none else some (some (Int.tmod x y)))
        | "cadd" => bin (fun t x y => some (chk t (x + y)))
        | "csub" => bin (fun t x y => some (chk t (x - y)))
        | "cmul" => bin (fun t x y => some (chk t (x * y)))
        | "cdiv" => bin (fun t x y => some (stdCheckedDiv t x y))
        | "crem" => bin (fun t x y => some (stdCheckedRem t x y))
        | _ => "bad-op"

/-! ### `*_mut` arity kernels on Int32 with the harness' fixed operations -/

def handleArity (toks : List String) : String :=
  let sh (r : Except Err (List (Option Int))) : String := match r with
    | .ok xs => showIntSlots (.int i32T) xs
    | .error e => showErr e
  let chk (m s : Except Err (List (Option Int))) : String := check (sh m) (sh s)
  match toks with
  | ["unary_mut", aS] =>
    match parseOperand aS with
    | some a => let f : Int → Int := fun v => mulWrapping i32T v 3
                chk (.ok (unary f (ints1 a.arr)).logical) (.ok (unarySpec f (ints1 a.arr).logical))
    | none => "bad-op"
  | ["try_unary_mut", aS] =>
    match parseOperand aS with
    | some a => chk ((tryUnary (fun v => mulChecked i32T v 3) 0 (ints1 a.arr)).map Arr.logical)
                    (tryUnarySpec (fun v => checkedSpec i32T .mul v 3) (ints1 a.arr).logical)
    | none => "bad-op"
  | ["binary_mut", aS, bS] =>
    match parseOperand aS, parseOperand bS with
    | some a, some b =>
      if a.arr.vals.length ≠ b.arr.vals.length then showErr .compute else
      chk (.ok (binary (addWrapping i32T) (ints1 a.arr) (ints1 b.arr)).logical)
          (.ok (binarySpec (addWrapping i32T) (ints1 a.arr).logical (ints1 b.arr).logical))
    | _, _ => "bad-op"
  | ["try_binary_mut", aS, bS] =>
    match parseOperand aS, parseOperand bS with
    | some a, some b =>
      if a.arr.vals.length ≠ b.arr.vals.length then showErr .compute else
      chk ((tryBinary (addChecked i32T) 0 (ints1 a.arr) (ints1 b.arr)).map Arr.logical)
          (tryBinarySpec (checkedSpec i32T .add) (ints1 a.arr).logical (ints1 b.arr).logical)
    | _, _ => "bad-op"
  | _ => "bad-op"

/-! ### `multiply_fixed_point{,_checked,_dyn}` (arrow-arith/src/arithmetic.rs) -/

/-- `divide_and_round`: truncated quotient adjusted by the remainder = round half away from zero -/
def divideAndRound (input div : Int) : Int :=
  let d := Int.tdiv input div
  let r := Int.tmod input div
  let half := Int.tdiv div 2
  if input ≥ 0 ∧ r ≥ half then d + 1 else if input < 0 ∧ r ≤ -half then d - 1 else d

/-- specification: the exact rational quotient rounded half away from zero -/
def roundHalfAway (n d : Int) : Int :=
  -- d > 0
  if n ≥ 0 then (2 * n + d) / (2 * d) else -((2 * (-n) + d) / (2 * d))

def handleFixp (f ltS lS rtS rS reqS : String) : String :=
  match parseTy ltS, parseOperand lS, parseTy rtS, parseOperand rS, parseInt reqS with
  | some (.dec 128 p1 s1), some l, some (.dec 128 p2 s2), some r, some req =>
    let t : NT := ⟨true, 128⟩
    let product_scale := s1 + s2
    let precision := min (p1 + p2 + 1) DECIMAL128_MAX_PRECISION
    if req > product_scale then showErr .compute else
    let divisor : Int := 10 ^ (product_scale - req).toNat
    let checked := f == "mfpc"
    let op : Int → Int → Except Err Int :=
      if req = product_scale then (if checked then mulChecked t else fun a b => .ok (mulWrapping t a b))
      else fun a b =>
        -- `i256::from_i128(a).wrapping_mul(from_i128(b))`, `divide_and_round`, `to_i128` / `as_i128`
        let mul := ((I256.ofInt a).wrappingMul (I256.ofInt b)).value
        let q := divideAndRound mul divisor
        if checked then (if t.inRange q then .ok q else .error .overflow) else .ok (t.wrap q)
    let spec : Int → Int → Except Err Int := fun a b =>
      let q := roundHalfAway (a * b) divisor
      if checked then (if t.inRange q then .ok q else .error .overflow) else .ok (t.wrap q)
    let post := if !decTypeValid DECIMAL128_MAX_PRECISION DECIMAL128_MAX_SCALE precision req then some Err.invalidArg else none
    let outTy := Ty.dec 128 precision req
    let p : Plan := ⟨outTy, outTy, post, checked, one1 op, one1 spec, [0], none, false⟩
    let fin : Except Err (List (Option Item)) → Except Err (List (Option Item)) := fun x =>
      match x, post with | .ok _, some e => .error e | x, _ => x
    let m := fin (runKernelModel p l r)
    let s := fin (runKernelSpec p l r)
    let ms := showResult (m.map (outTy, ·))
    if sameOutcome m s then ms else s!"MODEL-SPEC-MISMATCH model={ms} spec={showResult (s.map (outTy, ·))}"
  | _, _, _, _, _ => "bad-op"

/-- `validate_decimal*_precision` / `is_validate_*`: `|v| ≤ 10^p − 1` (the MIN/MAX tables) -/
def handleDecv (bitsS pS vS : String) : String :=
  match bitsS.toNat?, pS.toNat?, parseInt vS with
  | some bits, some p, some v =>
    let maxP := (decMax bits).1
    if (p : Int) > maxP then "err" else
    if -(10 ^ p : Int) < v ∧ v < (10 ^ p : Int) then "ok" else "err"
  | _, _, _ => "bad-op"

/-! ### dispatch -/

def handle (toks : List String) : String :=
  match toks with
  | ["i256", m, alo, ahi, blo, bhi] =>
    match parseI256 alo ahi, parseI256 blo bhi with
    | some a, some b => i256Binary m a b
    | _, _ => "bad-op"
  | ["i256", "cpow", alo, ahi, e] =>
    match parseI256 alo ahi, e.toNat? with
    | some a, some e => check (showOptI256 (a.checkedPow e)) (specChecked (a.value ^ e))
    | _, _ => "bad-op"
  | ["i256", "wpow", alo, ahi, e] =>
    match parseI256 alo ahi, e.toNat? with
    | some a, some e => check (showI256 (a.wrappingPow e)) (specWrapping (a.value ^ e))
    | _, _ => "bad-op"
  | ["i256", "fromi128", v] =>
    match parseInt v with
    | some v => check (showI256 (I256.fromI128 v)) (specWrapping v)
    | none => "bad-op"
  | ["i256", m, alo, ahi] =>
    match parseI256 alo ahi with
    | some a => i256Unary m a
    | none => "bad-op"
  | ["i256str", s] =>
    let cs := s.toList.drop 1   -- the string is prefixed with `=`
    check (showOptI256 (I256.fromStr cs))
          (match fromStrSpec cs with | some v => showI256 (I256.ofInt v) | none => "none")
  | ["arith", op, lt, l, rt, r] => handleArith op lt l rt r
  | ["neg", ty, a] => handleNeg false ty a
  | ["neg_wrapping", ty, a] => handleNeg true ty a
  | ["agg", fn, ty, a] => handleAgg fn ty a
  | "agg2" :: rest => handleAgg2 rest
  | ["aggs", fn, _kind, items] => handleAggs fn items
  | "bitw" :: rest => handleBitw false rest
  | "bitws" :: rest => handleBitw true rest
  | ["nat", m, ty, a, b] => handleNat m ty a b
  | ["nat", m, ty, a] => handleNat m ty a "0"
  | ["ival", m, ty, a, b] => handleIval m ty a b
  | ["ival", m, ty, a] => handleIval m ty a "0"
  | "arity" :: rest => handleArity rest
  | ["fixp", f, lt, l, rt, r, req] => handleFixp f lt l rt r req
  | ["decv", bits, p, v] => handleDecv bits p v
  | ["bool", "is_null", a] =>
    match parseBoolArr a with
    | some (v, n, _) => showBits ((decode v n).map (fun o => o.isNone))
    | none => "bad-op"
  | ["bool", "is_not_null", a] =>
    match parseBoolArr a with
    | some (v, n, _) => showBits ((decode v n).map (fun o => o.isSome))
    | none => "bad-op"
  | ["bool", "not", a] =>
    match parseBoolArr a with
    | some (v, n, _) =>
      check (showOptBits (List.zipWith (fun valid value => optBit valid (!value)) n v))
            (showOptBits ((decode v n).map kleeneNot))
    | none => "bad-op"
  | ["bool", op, l, r] => handleBool op l r
  | ["bagg", fn, a] => handleBagg fn a
  | _ => "bad-op"

end ArrowModel.C12
