import ArrowModel.C12.Lemmas
/-
C12 — property theorems.  "Checked arithmetic returns the mathematically exact result when
it is representable and an error otherwise, never a wrapped value; wrapping variants return
the result modulo the type width; null slots never contribute to results or errors; results
are null exactly where an input is null; aggregates equal the reduction over the non-null
values; Kleene and/or/not follow three-valued logic."

All statements quantify over *every* operand (no bound).  `I256.value a = high·2^128 + low`
is the integer an `i256` denotes, `I256.WF` says the limbs are a `u128` and an `i128`.
-/
set_option linter.unusedVariables false
namespace ArrowModel.C12
open ArrowModel.Generated.C12

/-! ## i256 (arrow-buffer/src/bigint/mod.rs) -/

/-- **`i256::wrapping_add`**: the two-limb code (low `overflowing_add`, carry into the high
`wrapping_add`s) denotes `a + b` modulo `2^256`, and its limbs stay in range. -/
theorem i256_wrapping_add (a b : I256) (ha : a.WF) (hb : b.WF) :
    (a.wrappingAdd b).WF ∧ (a.wrappingAdd b).value = wrap256 (a.value + b.value) :=
  wrappingAdd_value a b ha hb

/-- **`i256::wrapping_sub`** denotes `a - b` modulo `2^256` (borrow propagation). -/
theorem i256_wrapping_sub (a b : I256) (ha : a.WF) (hb : b.WF) :
    (a.wrappingSub b).WF ∧ (a.wrappingSub b).value = wrap256 (a.value - b.value) :=
  wrappingSub_value a b ha hb

/-- **`i256::wrapping_neg`** (`!low, !high` then `+ 1`) denotes `-a` modulo `2^256`. -/
theorem i256_wrapping_neg (a : I256) (ha : a.WF) :
    a.wrappingNeg.WF ∧ a.wrappingNeg.value = wrap256 (-a.value) :=
  wrappingNeg_value a ha

/-- **`i256::wrapping_abs`** (sign mask xor, then subtract the mask) denotes `|a|` modulo `2^256`
(so `MIN ↦ MIN`). -/
theorem i256_wrapping_abs (a : I256) (ha : a.WF) :
    a.wrappingAbs.WF ∧ a.wrappingAbs.value = wrap256 (if a.value < 0 then -a.value else a.value) :=
  wrappingAbs_value a ha

/-- **`i256::checked_add` is exact or reports overflow**: it returns `Some r` iff the exact
sum is representable (`−2^255 ≤ a+b < 2^255`), and then `r` denotes exactly `a + b`; it
returns `None` iff the exact sum is not representable.  Never a wrapped value. -/
theorem i256_checked_add (a b : I256) (ha : a.WF) (hb : b.WF) :
    (∀ r, a.checkedAdd b = some r → r.WF ∧ r.value = a.value + b.value) ∧
    (a.checkedAdd b = none ↔ ¬ (-(2 ^ 255 : Int) ≤ a.value + b.value ∧ a.value + b.value < 2 ^ 255)) := by
  have h := overflowingAdd_spec a b ha hb
  simp only [I256.checkedAdd]
  by_cases ho : (a.overflowingAdd b).2 = true
  · have hn := h.2.2.1 ho
    simp only [ho, ↓reduceIte]
    exact ⟨(fun r hr => nomatch hr), ⟨fun _ => hn, fun _ => trivial⟩⟩
  · have hn : (-(2 ^ 255 : Int) ≤ a.value + b.value ∧ a.value + b.value < 2 ^ 255) := by
      apply Decidable.byContradiction
      intro hc
      exact ho (h.2.2.2 hc)
    simp only [ho, Bool.false_eq_true, ↓reduceIte, Option.some.injEq, reduceCtorEq, false_iff, Decidable.not_not]
    refine ⟨?_, hn⟩
    intro r hr
    subst hr
    refine ⟨h.1, ?_⟩
    rw [h.2.1]
    simp only [wrap256]
    omega

/-- **`i256::checked_sub` is exact or reports overflow.** -/
theorem i256_checked_sub (a b : I256) (ha : a.WF) (hb : b.WF) :
    (∀ r, a.checkedSub b = some r → r.WF ∧ r.value = a.value - b.value) ∧
    (a.checkedSub b = none ↔ ¬ (-(2 ^ 255 : Int) ≤ a.value - b.value ∧ a.value - b.value < 2 ^ 255)) := by
  have h := overflowingSub_spec a b ha hb
  simp only [I256.checkedSub]
  by_cases ho : (a.overflowingSub b).2 = true
  · have hn := h.2.2.1 ho
    simp only [ho, ↓reduceIte]
    exact ⟨(fun r hr => nomatch hr), ⟨fun _ => hn, fun _ => trivial⟩⟩
  · have hn : (-(2 ^ 255 : Int) ≤ a.value - b.value ∧ a.value - b.value < 2 ^ 255) := by
      apply Decidable.byContradiction
      intro hc
      exact ho (h.2.2.2 hc)
    simp only [ho, Bool.false_eq_true, ↓reduceIte, Option.some.injEq, reduceCtorEq, false_iff, Decidable.not_not]
    refine ⟨?_, hn⟩
    intro r hr
    subst hr
    refine ⟨h.1, ?_⟩
    rw [h.2.1]
    simp only [wrap256]
    omega

/-- **`i256::checked_neg` is exact or reports overflow** (`None` exactly for `MIN`). -/
theorem i256_checked_neg (a : I256) (ha : a.WF) :
    (∀ r, a.checkedNeg = some r → r.WF ∧ r.value = -a.value) ∧
    (a.checkedNeg = none ↔ ¬ (-(2 ^ 255 : Int) ≤ -a.value ∧ -a.value < 2 ^ 255)) :=
  checkedNeg_spec a ha

/-- **`mulx` loses no carry**: for all `u128` operands the four 64×64 partial products with
their carry shuffling give exactly the 256-bit product, `low + 2^128·high = a·b`, and no
intermediate `u128` addition or shift overflows (every step is modelled with wrap-around, so
a lost carry would falsify the equation).  Depends on the shift amounts `64` regenerated from
the source. -/
theorem i256_mulx_exact (a b : Nat) (ha : a < 2 ^ 128) (hb : b < 2 ^ 128) :
    (mulx a b).1 < 2 ^ 128 ∧ (mulx a b).2 < 2 ^ 128 ∧ (mulx a b).1 + 2 ^ 128 * (mulx a b).2 = a * b :=
  mulx_exact a b ha hb

/-- **`i256::wrapping_mul`** (`mulx` of the low limbs plus the two cross products into the high
limb) denotes `a · b` modulo `2^256`. -/
theorem i256_wrapping_mul (a b : I256) (ha : a.WF) (hb : b.WF) :
    (a.wrappingMul b).WF ∧ (a.wrappingMul b).value = wrap256 (a.value * b.value) :=
  wrappingMul_value a b ha hb

/-- non-vacuity: both 64-bit halves set, product needs all four partial products -/
example : mulx (2 ^ 128 - 1) (2 ^ 128 - 1) = (1, 2 ^ 128 - 2) := by decide

/-- **`i256::checked_mul` is exact or reports overflow**: for all operands it returns `Some r`
only with `r` denoting exactly `a · b`, and `None` iff the exact product is not representable
(`−2^255 ≤ a·b < 2^255` fails) — never a wrapped value, no spurious overflow.  The proof goes
through the code's blocks: zero short-cut, `wrapping_abs` magnitudes (`|MIN| = 2^255` read as
unsigned), "both high parts non-zero", the `mulx` product with the `checked_mul`/`checked_add`
high-part tests (`mulCore`: exact 256-bit product or ≥ 2^256), the conditional two's-complement
negation (`signFix`) and the final sign test. -/
theorem i256_checked_mul (a b : I256) (ha : a.WF) (hb : b.WF) :
    (∀ r, a.checkedMul b = some r → r.WF ∧ r.value = a.value * b.value) ∧
    (a.checkedMul b = none ↔ ¬ (-(2 ^ 255 : Int) ≤ a.value * b.value ∧ a.value * b.value < 2 ^ 255)) :=
  checkedMul_spec a b ha hb

example : I256.MIN.WF ∧ I256.MIN.wrappingAbs = I256.MIN ∧ I256.MIN.checkedMul I256.MINUS_ONE = none ∧
    I256.MIN.checkedMul I256.ONE = some I256.MIN :=
  ⟨by simp only [I256.WF, I256.MIN]; omega, by decide, by decide, by decide⟩

/-- **`impl Ord for i256`** (`high.cmp().then(low.cmp())`) is the order of the denoted integers. -/
theorem i256_cmp (a b : I256) (ha : a.WF) (hb : b.WF) : a.cmp b = compare a.value b.value :=
  cmp_eq a b ha hb

/-- **`i256::from_i128`** (`v as u128`, `v >> 127`) denotes `v`. Depends on the shift being 127
(regenerated from the source). -/
theorem i256_from_i128 (v : Int) (hv : -(2 ^ 127 : Int) ≤ v ∧ v < 2 ^ 127) :
    (I256.fromI128 v).WF ∧ (I256.fromI128 v).value = v :=
  fromI128_value v hv

/-- **`i256::to_i128`** returns the denoted integer exactly when it fits an `i128`, `None` otherwise. -/
theorem i256_to_i128 (a : I256) (ha : a.WF) :
    a.toI128 = if -(2 ^ 127 : Int) ≤ a.value ∧ a.value < 2 ^ 127 then some a.value else none :=
  toI128_spec a ha

/-- non-vacuity: limbs in range whose sum carries into the high limb and overflows -/
example : (I256.MAX).WF ∧ (I256.ONE).WF ∧ (I256.MAX.checkedAdd I256.ONE) = none ∧
    (I256.MAX.wrappingAdd I256.ONE) = I256.MIN :=
  ⟨by simp only [I256.WF, I256.MAX]; omega, by simp only [I256.WF, I256.ONE]; omega, by decide, by decide⟩

/-! ## native widths: `ArrowNativeTypeOp` glue (arrow-array/src/arithmetic.rs) -/

/-- **wrapping = modulo the type width**: for `n ∈ {8,16,32,64,128}`, signed or unsigned, the
wrapped value is representable, congruent to the exact value modulo `2^n`, and equal to it
whenever the exact value is representable. -/
theorem native_wrap (t : NT) (ht : t.bits ∈ stdWidths) (x : Int) :
    t.inRange (t.wrap x) = true ∧ (t.wrap x - x) % (2 ^ t.bits : Int) = 0 ∧ (t.inRange x = true → t.wrap x = x) :=
  wrap_spec t ht x

/-- **`add_checked` / `sub_checked` / `mul_checked` / `div_checked` are exact or report an error**:
`checked_op().ok_or(ArithmeticOverflow)`, with the zero test first for division
(`DivideByZero` wins), is the specification `checkedSpec`. -/
theorem native_checked (t : NT) (a b : Int) :
    addChecked t a b = checkedSpec t .add a b ∧ subChecked t a b = checkedSpec t .sub a b ∧
    mulChecked t a b = checkedSpec t .mul a b ∧ divChecked t a b = checkedSpec t .div a b :=
  ⟨addChecked_spec t a b, subChecked_spec t a b, mulChecked_spec t a b, divChecked_eq_spec t a b⟩

/-- **`div_checked` classifies exactly**: on representable operands it is `DivideByZero` iff the
divisor is zero, `ArithmeticOverflow` iff the type is signed and the operands are `MIN / −1`,
and the truncated quotient otherwise (no other quotient leaves the range). -/
theorem native_div_checked (t : NT) (ht : t.bits ∈ stdWidths) (a b : Int)
    (ha : t.inRange a = true) (hb : t.inRange b = true) :
    divChecked t a b =
      if b = 0 then .error .divzero
      else if t.signed = true ∧ a = t.lo ∧ b = -1 then .error .overflow
      else .ok (Int.tdiv a b) :=
  divChecked_spec t ht a b ha hb

example : divChecked ⟨true, 8⟩ (-128) (-1) = .error .overflow ∧ divChecked ⟨true, 8⟩ (-128) 0 = .error .divzero ∧
    divChecked ⟨true, 8⟩ (-128) 3 = .ok (-42) := ⟨rfl, rfl, rfl⟩

/-! ## `arity.rs`: null semantics of the element-wise kernels -/

/-- **`try_binary`** (both the no-null fast path and the valid-index loop over a zeroed
buffer): the logical result is the specification `tryBinarySpec` of the logical inputs — null
exactly where an input is null, `op` of the two values elsewhere, and an error iff `op` fails
at some slot where *both* inputs are valid (the first such slot decides the error).  The
physical values under null slots do not occur on the right-hand side: they can neither
change a result nor cause an error. -/
theorem kernel_try_binary {α β γ ε} (op : α → β → Except ε γ) (zero : γ) (a : Arr α) (b : Arr β)
    (ha : a.valid.length = a.vals.length) (hb : b.valid.length = b.vals.length)
    (hl : a.vals.length = b.vals.length) :
    (tryBinary op zero a b).map Arr.logical = tryBinarySpec op a.logical b.logical :=
  tryBinary_spec op zero a b ha hb hl

/-- **null payloads are irrelevant to `try_binary`**: two pairs of arrays with the same logical
content (differing only in the garbage under null slots) give the same logical result and
the same error. -/
theorem kernel_try_binary_payload_independent {α β γ ε} (op : α → β → Except ε γ) (zero : γ)
    (a a' : Arr α) (b b' : Arr β)
    (ha : a.valid.length = a.vals.length) (hb : b.valid.length = b.vals.length)
    (hl : a.vals.length = b.vals.length)
    (ha' : a'.valid.length = a'.vals.length) (hb' : b'.valid.length = b'.vals.length)
    (hl' : a'.vals.length = b'.vals.length)
    (ea : a.logical = a'.logical) (eb : b.logical = b'.logical) :
    (tryBinary op zero a b).map Arr.logical = (tryBinary op zero a' b').map Arr.logical := by
  rw [tryBinary_spec op zero a b ha hb hl, tryBinary_spec op zero a' b' ha' hb' hl', ea, eb]

/-- **`binary`** computes `op` on every slot (also under nulls) and unions the null masks; its
logical result is `binarySpec`: null exactly where an input is null, `op` elsewhere. -/
theorem kernel_binary {α β γ} (op : α → β → γ) (a : Arr α) (b : Arr β) :
    (binary op a b).logical = binarySpec op a.logical b.logical :=
  decode_binary op a.vals b.vals a.valid b.valid

/-- **`try_unary`**: null where the input is null, `op` elsewhere, error iff `op` fails at a valid slot. -/
theorem kernel_try_unary {α γ ε} (op : α → Except ε γ) (zero : γ) (a : Arr α) :
    (tryUnary op zero a).map Arr.logical = tryUnarySpec op a.logical := by
  simp only [tryUnary, Arr.logical]
  rw [← tryUnaryVals_spec op zero a.vals a.valid]
  cases tryUnaryVals op zero a.vals a.valid <;> simp [Except.map, Arr.logical]

/-- **`unary`**: `op` on every slot, nulls cloned. -/
theorem kernel_unary {α γ} (op : α → γ) (a : Arr α) :
    (unary op a).logical = unarySpec op a.logical :=
  decode_map_unary op a.vals a.valid

/-- non-vacuity: a null slot whose payload would overflow (`127 + 1` on `i8`) does not make
the checked kernel fail, a valid one does -/
example :
    (tryBinary (addChecked ⟨true, 8⟩) 0 ⟨[1, 127], [true, false]⟩ ⟨[1, 1], [true, true]⟩).map Arr.logical
      = .ok [some 2, none] ∧
    (tryBinary (addChecked ⟨true, 8⟩) 0 ⟨[1, 127], [true, true]⟩ ⟨[1, 1], [true, true]⟩).map Arr.logical
      = .error .overflow := ⟨rfl, rfl⟩

/-! ## aggregates -/

/-- **`sum_checked`** (`try_fold` over the valid slots in index order with `add_checked`):
returns the exact sum of the non-null values iff every prefix of the running exact sum is
representable, and `ArithmeticOverflow` otherwise — exactly the condition in the code's
evaluation order; null payloads do not take part. -/
theorem sum_checked_exact (t : NT) (vals : List Int) (valid : List Bool) :
    sumCheckedLoop (addChecked t) 0 vals valid =
      if prefixesInRange t 0 (nonNull (decode vals valid))
      then .ok ((nonNull (decode vals valid)).foldl (· + ·) 0) else .error .overflow :=
  sumCheckedLoop_spec t 0 vals valid

/-- **lane-split aggregation = reduction over the non-null values** (`aggregate_nullable_lanes`
/ `aggregate_nonnull_lanes` + `reduce_accumulators`): for every associative-commutative
accumulator operation with identity `e` (the accumulators' `Default`), every power-of-two
lane count `2^k` (the code asserts `LANES.is_power_of_two()`; the count itself is a tuning
knob), every input and every null pattern, splitting the slots over the lanes, skipping null
slots, and tree-reducing the lanes gives exactly the left fold of the non-null values;
`None` iff there is no non-null value.  Null payloads do not occur on the right-hand side. -/
theorem aggregate_lanes_reduce {α : Type} (op : α → α → α) (e : α)
    (hc : ∀ x y, op x y = op y x) (ha : ∀ x y z, op (op x y) z = op x (op y z)) (he : ∀ x, op e x = x)
    (k : Nat) (vals : List α) (valid : List Bool) :
    aggregateLanes op e (2 ^ k) vals valid = reduceSpec op e (decode vals valid) :=
  aggregateLanes_spec op e hc ha he k vals valid

/-- **`sum`** (`SumAccumulator`, `add_wrapping`) on `n`-bit words: the lane-split wrapping sum is
the sum of the non-null values modulo `2^n`, for every width, lane count and null pattern. -/
theorem sum_lanes_wrapping (n k : Nat) (vals : List (BitVec n)) (valid : List Bool) :
    aggregateLanes (· + ·) (0 : BitVec n) (2 ^ k) vals valid = reduceSpec (· + ·) 0 (decode vals valid) :=
  aggregateLanes_spec _ _ BitVec.add_comm BitVec.add_assoc BitVec.zero_add k vals valid

/-- **`max`** (`MaxAccumulator` starting from `MIN_TOTAL_ORDER`) on total-order keys (naturals, the
least key as start): lane-split maximum = maximum of the non-null values. -/
theorem max_lanes (k : Nat) (vals : List Nat) (valid : List Bool) :
    aggregateLanes max 0 (2 ^ k) vals valid = reduceSpec max 0 (decode vals valid) :=
  aggregateLanes_spec _ _ Nat.max_comm Nat.max_assoc Nat.zero_max k vals valid

/-- **`product`** (`ProductAccumulator`, `mul_wrapping`) on `n`-bit words. -/
theorem product_lanes_wrapping (n k : Nat) (vals : List (BitVec n)) (valid : List Bool) :
    aggregateLanes (· * ·) (1 : BitVec n) (2 ^ k) vals valid = reduceSpec (· * ·) 1 (decode vals valid) :=
  aggregateLanes_spec _ _ BitVec.mul_comm BitVec.mul_assoc BitVec.one_mul k vals valid

example : aggregateLanes (· + ·) (0 : BitVec 8) (2 ^ 2) [200, 100, 7, 1, 1, 1] [true, true, false, true, true, true]
    = some 47 := by decide

example : sumCheckedLoop (addChecked ⟨true, 8⟩) 0 [100, 100, 100, -100] [true, false, true, true]
    = .error .overflow := rfl

/-! ## Kleene logic (arrow-arith/src/boolean.rs) -/

/-- **`and_kleene`, both sides nullable**: for every bit `i` of every 64-bit word, the
(validity, value) pair produced by `(a | (c & !d)) & (c | (a & !b))` and `b & d` is the
three-valued AND of the two inputs — also when the value bits under null slots are garbage. -/
theorem and_kleene_words (a b c d : BitVec 64) (i : Nat) (hi : i < 64) :
    optBit ((andKleeneValidity a b c d).getLsbD i) ((andKleeneValues b d).getLsbD i)
      = kleeneAnd (optBit (a.getLsbD i) (b.getLsbD i)) (optBit (c.getLsbD i) (d.getLsbD i)) :=
  andKleene_words a b c d i hi

/-- **`or_kleene`, both sides nullable**: `(a | (c & d)) & (c | (a & b))`, `b | d`. -/
theorem or_kleene_words (a b c d : BitVec 64) (i : Nat) (hi : i < 64) :
    optBit ((orKleeneValidity a b c d).getLsbD i) ((orKleeneValues b d).getLsbD i)
      = kleeneOr (optBit (a.getLsbD i) (b.getLsbD i)) (optBit (c.getLsbD i) (d.getLsbD i)) :=
  orKleene_words a b c d i hi

/-- **`and_kleene`, one side without nulls**: validity `a | !d`. -/
theorem and_kleene_one_sided (a b d : BitVec 64) (i : Nat) (hi : i < 64) :
    optBit ((andKleeneValidity1 a d).getLsbD i) ((andKleeneValues b d).getLsbD i)
      = kleeneAnd (optBit (a.getLsbD i) (b.getLsbD i)) (some (d.getLsbD i)) :=
  andKleene1_words a b d i hi

/-- **`or_kleene`, one side without nulls**: validity `a | d`. -/
theorem or_kleene_one_sided (a b d : BitVec 64) (i : Nat) (hi : i < 64) :
    optBit ((orKleeneValidity1 a d).getLsbD i) ((orKleeneValues b d).getLsbD i)
      = kleeneOr (optBit (a.getLsbD i) (b.getLsbD i)) (some (d.getLsbD i)) :=
  orKleene1_words a b d i hi

/-- non-vacuity: `null AND false = false` with a garbage `true` under the null -/
example : optBit (andKleeneBit false true true false).1 (andKleeneBit false true true false).2 = some false := by decide

/-! ## decimal result types (`decimal_op`) -/

/-- **add/sub**: the `i8`/`u8` saturating code yields the documented type
`(min(max(s1,s2) + max(p1−s1, p2−s2) + 1, P), max(s1,s2))` for all valid input types. -/
theorem decimal_add_type (maxP p1 s1 p2 s2 : Int) (hP : 1 ≤ maxP ∧ maxP ≤ 76)
    (h1 : 0 ≤ s1 ∧ s1 ≤ p1 ∧ p1 ≤ maxP) (h2 : 0 ≤ s2 ∧ s2 ≤ p2 ∧ p2 ≤ maxP) :
    decAddTypeM maxP p1 s1 p2 s2 = decAddType maxP p1 s1 p2 s2 :=
  decAddType_eq maxP p1 s1 p2 s2 hP h1 h2

/-- **mul**: `(min(p1+p2+1, P), s1+s2)`. -/
theorem decimal_mul_type (maxP p1 s1 p2 s2 : Int) (hP : 1 ≤ maxP ∧ maxP ≤ 76)
    (h1 : 0 ≤ s1 ∧ s1 ≤ p1 ∧ p1 ≤ maxP) (h2 : 0 ≤ s2 ∧ s2 ≤ p2 ∧ p2 ≤ maxP) (hs : s1 + s2 ≤ 127) :
    decMulTypeM maxP p1 s1 p2 s2 = decMulType maxP p1 s1 p2 s2 :=
  decMulType_eq maxP p1 s1 p2 s2 hP h1 h2 hs

/-- **div**: `(min(p1−s1+s2+s, P), s)` with `s = min(s1+4, S)`; depends on the increment 4
(regenerated from the source). -/
theorem decimal_div_type (maxP maxS p1 s1 p2 s2 : Int) (hP : 1 ≤ maxP ∧ maxP ≤ 76) (hS : 0 ≤ maxS ∧ maxS ≤ maxP)
    (h1 : 0 ≤ s1 ∧ s1 ≤ p1 ∧ p1 ≤ maxP ∧ s1 ≤ maxS) (h2 : 0 ≤ s2 ∧ s2 ≤ p2 ∧ p2 ≤ maxP) :
    (decDivTypeM maxP maxS p1 s1 p2 s2).1 = decDivType maxP maxS p1 s1 p2 s2 :=
  decDivType_eq maxP maxS p1 s1 p2 s2 hP hS h1 h2

/-- **rem**: `(min(min(p1−s1, p2−s2) + max(s1,s2), P), max(s1,s2))`. -/
theorem decimal_rem_type (maxP p1 s1 p2 s2 : Int) (hP : 1 ≤ maxP ∧ maxP ≤ 76)
    (h1 : 0 ≤ s1 ∧ s1 ≤ p1 ∧ p1 ≤ maxP) (h2 : 0 ≤ s2 ∧ s2 ≤ p2 ∧ p2 ≤ maxP) :
    decRemTypeM maxP p1 s1 p2 s2 = decRemType maxP p1 s1 p2 s2 :=
  decRemType_eq maxP p1 s1 p2 s2 hP h1 h2

example : decAddTypeM 38 38 10 20 2 = (38, 10) := by decide

/-! ## source shapes (T-tie) -/

/-- **The critical expressions the model transcribes are still present in `/repo` as written**
(regenerated by `tools/translate.py` on every run): the Kleene bit formulas and which buffer
each operand comes from, the zero-divisor guards and their order, the `try_op!` scalar arms, the
valid-index loop of `try_binary`, the null-mask union of `binary`, the i256 carry / overflow /
sign-test expressions and the `mulx` statements, the accumulators' validity masks and the decimal
precision/scale expressions.  An edit to any of them makes the item `LOST` and this theorem false. -/
theorem source_shapes :
    (SHAPE_AND_KLEENE_BOTH_lost ||
     SHAPE_OR_KLEENE_BOTH_lost ||
     SHAPE_AND_KLEENE_ONE_L_lost ||
     SHAPE_AND_KLEENE_ONE_R_lost ||
     SHAPE_OR_KLEENE_ONE_L_lost ||
     SHAPE_OR_KLEENE_ONE_R_lost ||
     SHAPE_KLEENE_QUAT_ORDER_AND_lost ||
     SHAPE_KLEENE_QUAT_ORDER_OR_lost ||
     SHAPE_AND_KLEENE_VALUES_lost ||
     SHAPE_OR_KLEENE_VALUES_lost ||
     SHAPE_BOOL_BINARY_NULLS_lost ||
     SHAPE_DIV_CHECKED_GUARD_lost ||
     SHAPE_MOD_CHECKED_GUARD_lost ||
     SHAPE_ADD_CHECKED_lost ||
     SHAPE_NEG_CHECKED_lost ||
     SHAPE_INTEGER_OP_ADD_lost ||
     SHAPE_INTEGER_OP_SUB_lost ||
     SHAPE_INTEGER_OP_MUL_lost ||
     SHAPE_INTEGER_OP_DIV_lost ||
     SHAPE_INTEGER_OP_REM_lost ||
     SHAPE_TRY_OP_SCALAR_R_lost ||
     SHAPE_TRY_OP_SCALAR_L_lost ||
     SHAPE_TRY_BINARY_VALID_IDX_lost ||
     SHAPE_BINARY_NULL_UNION_lost ||
     SHAPE_I256_WRAPPING_ADD_lost ||
     SHAPE_I256_WRAPPING_SUB_lost ||
     SHAPE_I256_ADD_OVERFLOW_lost ||
     SHAPE_I256_SUB_OVERFLOW_lost ||
     SHAPE_I256_NEG_lost ||
     SHAPE_I256_CMP_lost ||
     SHAPE_I256_MUL_BOTH_HIGH_lost ||
     SHAPE_I256_MUL_SIGN_TEST_lost ||
     SHAPE_I256_MUL_SIGNFIX_lost ||
     SHAPE_I256_WRAPPING_MUL_lost ||
     SHAPE_MULX_BODY_lost ||
     SHAPE_MULX_BODY2_lost ||
     SHAPE_MULX_BODY3_lost ||
     SHAPE_SUM_CHECKED_FOLD_lost ||
     SHAPE_SUM_ACC_NULLABLE_lost ||
     SHAPE_MIN_ACC_NULLABLE_lost ||
     SHAPE_MAX_ACC_NULLABLE_lost ||
     SHAPE_AGG_CHUNK_VALIDITY_lost ||
     SHAPE_DECIMAL_ADD_PRECISION_lost ||
     SHAPE_DECIMAL_MUL_TYPE_lost ||
     SHAPE_DECIMAL_DIV_TYPE_lost ||
     SHAPE_DECIMAL_REM_PRECISION_lost) = false := by decide

end ArrowModel.C12
