import ArrowModel.C09.Physical
import ArrowModel.C01.Spec
/-
C01 physical kernel models: the places where arrow-select / arrow-array build their result with
`*_unchecked` constructors under a SAFETY comment, mirrored on `Physical.ArrayData`
(buffers as byte lists, little-endian offsets, LSB-first bitmaps).

  * `mkNulls`      – `FilterPredicate::filter_nulls` / `take_nulls`: packed bitmap at bit offset 0,
                     `null_count = count − popcount`, dropped when there is no null
                     (arrow-select/src/filter.rs:512, `NullBuffer::new_unchecked`)
  * `takeFixed`    – `take_native` / `filter_native`: one `w`-byte value per output slot
  * `filterFixed`  – `filter_primitive` = `takeFixed` at the set positions of the mask
  * `gatherBytes`  – `take_bytes` (both null paths, incl. back-filled offsets) and `filter_bytes`
                     (`FilterBytes::extend_offsets_idx/_slices`): offsets are the running sums of the
                     copied slot lengths (`OffsetBuffer::new_unchecked`, `GenericByteArray::new_unchecked`)
  * `takeBytes`, `filterBytes` – the two instantiations
  * `rebase`, `concat2`, `concatBytes` – `GenericByteBuilder::append_array` as used by `concat_bytes`:
                     offsets of the appended array shifted by `next_offset − offsets[0]`, the value
                     block `[offsets[0], offsets[len])` copied in one piece
-/
namespace ArrowModel.C01
open ArrowModel.Physical

/-! ### encoders -/

/-- `v.to_le_bytes()[..w]` -/
def encLE : Nat → Nat → List Nat
  | 0, _ => []
  | w + 1, v => v % 256 :: encLE w (v / 256)

/-- a buffer of `w`-byte little-endian integers -/
def encInts (w : Nat) : List Nat → List Nat
  | [] => []
  | x :: xs => encLE w x ++ encInts w xs

def bitNat (bits : List Bool) (i : Nat) : Nat := if bits[i]? = some true then 1 else 0

/-- byte `k` of the LSB-first bitmap of `bits` -/
def packByte (bits : List Bool) (k : Nat) : Nat :=
  bitNat bits (8 * k) + 2 * (bitNat bits (8 * k + 1) + 2 * (bitNat bits (8 * k + 2) + 2 * (bitNat bits (8 * k + 3)
  + 2 * (bitNat bits (8 * k + 4) + 2 * (bitNat bits (8 * k + 5) + 2 * (bitNat bits (8 * k + 6) + 2 * bitNat bits (8 * k + 7)))))))

/-- LSB-first bitmap of `bits`, `ceil(len/8)` bytes, padding bits zero (`BooleanBufferBuilder`) -/
def packBits (bits : List Bool) : List Nat := (List.range ((bits.length + 7) / 8)).map (packByte bits)

/-! ### validity of a kernel output -/

/-- `filter_nulls` / `take_nulls`: the validity of the output slots as a fresh bitmap at bit offset 0;
`null_count = count − count_set_bits`; `None` when the result has no null -/
def mkNulls (bits : List Bool) : Option Nulls :=
  let nc := bits.length - bits.count true
  if nc = 0 then none else some { bytes := packBits bits, off := 0, len := bits.length, nullCount := nc }

/-- validity of the slot an optional index selects (`take_nulls`: index null or value null ⇒ null) -/
def selValid (d : ArrayData) (i : Option Nat) : Bool :=
  match i with
  | some i => d.isValid i
  | none => false

/-- positions of the set bits of a filter mask (`IndexIterator` / `SlicesIterator` flattened) -/
def maskIndices (mask : List Bool) : List Nat := (List.range mask.length).filter (fun i => mask[i]? = some true)

/-! ### fixed-width take / filter -/

/-- the `w` value bytes of slot `i` (zeros when the index is null: `T::default()`) -/
def fixedSlot (b : List Nat) (w off : Nat) (i : Option Nat) : List Nat :=
  match i with
  | some i => (readBytes b w (off + i)).getD (List.replicate w 0)
  | none => List.replicate w 0

/-- `take_primitive` / `take_fixed_size_binary` on a `prim w` / `fsb w` array -/
def takeFixed (d : ArrayData) (idx : List (Option Nat)) : ArrayData :=
  let w := match d.type with
    | .prim w => w
    | .fsb w => w
    | _ => 0
  let b := d.buffers.headD []
  { type := d.type, len := idx.length, offset := 0, nulls := mkNulls (idx.map (selValid d)),
    buffers := [(idx.map (fixedSlot b w d.offset)).flatten], children := [] }

/-- `filter_primitive` -/
def filterFixed (d : ArrayData) (mask : List Bool) : ArrayData := takeFixed d ((maskIndices mask).map some)

/-! ### variable-width take / filter -/

def isLarge : DType → Bool
  | .utf8 l => l
  | .binary l => l
  | _ => false

/-- value bytes copied for output slot `s` (`none` = zero-length slot) -/
def byteSlot (d : ArrayData) (s : Option Nat) : List Nat :=
  match s, d.buffers with
  | some i, [offs, data] => (binValue offs data (isLarge d.type) (d.offset + i)).getD []
  | _, _ => []

/-- output built slot by slot: `offsets[j+1] = offsets[j] + len(slot j)`, values appended in order -/
def gatherBytes (d : ArrayData) (slots : List (Option Nat)) (valid : List Bool) : ArrayData :=
  let vs := slots.map (byteSlot d)
  { type := d.type, len := slots.length, offset := 0, nulls := mkNulls valid,
    buffers := [encInts (offW (isLarge d.type)) (prefixSums 0 (vs.map List.length)), vs.flatten],
    children := [] }

/-- `take_bytes`: a null output slot (null index or null value) gets a zero-length range
(the back-filled offsets of the nullable path); with no null in the output every slot is copied -/
def takeBytes (d : ArrayData) (idx : List (Option Nat)) : ArrayData :=
  let valid := idx.map (selValid d)
  gatherBytes d (idx.map (fun i => if selValid d i then i else none)) valid

/-- `filter_bytes`: the bytes under null slots are copied too, validity filtered separately -/
def filterBytes (d : ArrayData) (mask : List Bool) : ArrayData :=
  let ix := maskIndices mask
  gatherBytes d (ix.map some) (ix.map d.isValid)

/-! ### concat of byte arrays -/

/-- the `len+1` offsets of a byte array as naturals (negative / missing read as 0) -/
def offsetsOf (d : ArrayData) : List Nat :=
  match d.buffers with
  | offs :: _ => (List.range (d.len + 1)).map
      (fun i => ((readInt offs (offW (isLarge d.type)) true (d.offset + i)).getD 0).toNat)
  | [] => []

/-- `offsets[1..].map(|o| o + shift)` with `shift = next_offset − offsets[0]` -/
def rebase (next : Nat) (offs : List Nat) : List Nat :=
  match offs with
  | [] => []
  | o0 :: rest => rest.map (fun o => next + (o - o0))

/-- validity bits of all slots -/
def validBits (d : ArrayData) : List Bool := (List.range d.len).map d.isValid

/-- state of a `GenericByteBuilder`: offsets (starting with 0), values, validity -/
structure ByteBuilder where
  offsets : List Nat
  values : List Nat
  valid : List Bool

def ByteBuilder.empty : ByteBuilder := ⟨[0], [], []⟩

/-- `GenericByteBuilder::append_array` -/
def ByteBuilder.appendArray (b : ByteBuilder) (d : ArrayData) : ByteBuilder :=
  if d.len = 0 then b else
  let offs := offsetsOf d
  let first := offs.headD 0
  let last := offs.getLastD 0
  let data := (d.buffers.drop 1).headD []
  { offsets := b.offsets ++ rebase (b.offsets.getLastD 0) offs,
    values := b.values ++ (data.drop first).take (last - first),
    valid := b.valid ++ validBits d }

/-- `GenericByteBuilder::finish` -/
def ByteBuilder.finish (b : ByteBuilder) (t : DType) : ArrayData :=
  { type := t, len := b.offsets.length - 1, offset := 0, nulls := mkNulls b.valid,
    buffers := [encInts (offW (isLarge t)) b.offsets, b.values], children := [] }

/-- byte width of a fixed-width layout -/
def fixedWidth : DType → Nat
  | .prim w => w
  | .fsb w => w
  | _ => 0

/-- the `len · w` value bytes of a fixed-width array -/
def windowFixed (d : ArrayData) : List Nat :=
  ((d.buffers.headD []).drop (d.offset * fixedWidth d.type)).take (d.len * fixedWidth d.type)

/-- `concat_primitives` / `concat_fixed_size_binary`: value windows and validity appended in order -/
def concatFixed (d : ArrayData) (ds : List ArrayData) : ArrayData :=
  { type := d.type, len := ((d :: ds).map (·.len)).sum, offset := 0,
    nulls := mkNulls ((d :: ds).flatMap validBits),
    buffers := [(d :: ds).flatMap windowFixed], children := [] }

/-- `concat_bytes` -/
def concatBytes (d : ArrayData) (ds : List ArrayData) : ArrayData :=
  ((d :: ds).foldl ByteBuilder.appendArray ByteBuilder.empty).finish d.type

end ArrowModel.C01
