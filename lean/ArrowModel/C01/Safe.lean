import ArrowModel.C01.Kernels
/-
C01: accessor safety — `WellFormed d → SafeAccess d` (the abstraction function `decode`, which reads only
through checked accessors, succeeds and yields `len` rows).
-/
namespace ArrowModel.C01
open ArrowModel.Physical

theorem mapM_some {α β} (f : α → Option β) : ∀ (l : List α), (∀ x, x ∈ l → ∃ y, f x = some y) →
    ∃ ys, l.mapM f = some ys ∧ ys.length = l.length
  | [], _ => ⟨[], by simp, rfl⟩
  | a :: l, h => by
    obtain ⟨y, hy⟩ := h a (by simp)
    obtain ⟨ys, hys, hl⟩ := mapM_some f l (fun x hx => h x (List.mem_cons_of_mem _ hx))
    refine ⟨y :: ys, ?_, by simp [hl]⟩
    simp [List.mapM_cons, hy, hys]

theorem tabulateM_some {α} (n : Nat) (f : Nat → Option α) (h : ∀ i, i < n → ∃ y, f i = some y) :
    ∃ ys, tabulateM n f = some ys ∧ ys.length = n := by
  obtain ⟨ys, h1, h2⟩ := mapM_some f (List.range n) (fun x hx => h x (by simpa using hx))
  exact ⟨ys, h1, by simpa using h2⟩

/-- the validity of a slot below `len` is readable -/
theorem validAt_some (d : ArrayData) (h : NullsOk d) (i : Nat) (hi : i < d.len) : ∃ b, d.validAt i = some b := by
  unfold ArrayData.validAt
  unfold NullsOk at h
  cases hn : d.nulls with
  | none => exact ⟨true, rfl⟩
  | some n =>
    rw [hn] at h
    simp only
    unfold bitAt
    have : (n.off + i) / 8 < n.bytes.length := by omega
    rw [List.getElem?_eq_getElem this]
    exact ⟨_, rfl⟩

theorem binValue_some (offs data : List Nat) (large : Bool) (p : Nat)
    (h : offsetPairOk offs large data.length p = true) : ∃ v, binValue offs data large p = some v := by
  unfold offsetPairOk at h
  unfold binValue
  cases ha : readInt offs (offW large) true p with
  | none => rw [ha] at h; simp at h
  | some a =>
    cases hb : readInt offs (offW large) true (p + 1) with
    | none => rw [ha, hb] at h; simp at h
    | some b =>
      rw [ha, hb] at h
      simp only [decide_eq_true_eq] at h
      simp only
      rw [if_pos ⟨h.1, by omega⟩]
      unfold sliceChecked
      rw [if_pos (by omega)]
      exact ⟨_, rfl⟩

/-- every slot of a well-formed leaf array is readable -/
theorem slotVal_some_leaf (d : ArrayData) (hl : LocalWF d) (i : Nat) (hi : i < d.len)
    (ht : d.type = .null ∨ d.type = .bool ∨ (∃ w, d.type = .prim w) ∨ (∃ w, d.type = .fsb w) ∨
          (∃ l, d.type = .binary l) ∨ (∃ l, d.type = .utf8 l)) :
    ∃ v, slotVal d [] i = some v := by
  obtain ⟨hn, hty⟩ := hl
  obtain ⟨vb, hvb⟩ := validAt_some d hn i hi
  unfold slotVal
  rw [hvb]
  cases vb with
  | false => exact ⟨_, rfl⟩
  | true =>
    simp only
    rcases ht with h | h | ⟨w, h⟩ | ⟨w, h⟩ | ⟨l, h⟩ | ⟨l, h⟩ <;> rw [h] at hty ⊢ <;> simp only at hty ⊢
    · exact ⟨_, rfl⟩
    · obtain ⟨_, b, hb, hle⟩ := hty
      rw [hb]
      simp only [bitAt]
      have : (d.offset + i) / 8 < b.length := by omega
      rw [List.getElem?_eq_getElem this]
      exact ⟨_, rfl⟩
    · obtain ⟨_, b, hb, hle⟩ := hty
      rw [hb]
      simp only [readBytes, sliceChecked]
      have : (d.offset + i) * w + w ≤ b.length := by
        have := Nat.mul_le_mul_right w (show d.offset + i + 1 ≤ d.offset + d.len by omega)
        rw [Nat.add_mul, Nat.one_mul] at this
        omega
      rw [if_pos ⟨by omega, this⟩]
      exact ⟨_, rfl⟩
    · obtain ⟨_, b, hb, hle⟩ := hty
      rw [hb]
      simp only [readBytes, sliceChecked]
      have : (d.offset + i) * w + w ≤ b.length := by
        have := Nat.mul_le_mul_right w (show d.offset + i + 1 ≤ d.offset + d.len by omega)
        rw [Nat.add_mul, Nat.one_mul] at this
        omega
      rw [if_pos ⟨by omega, this⟩]
      exact ⟨_, rfl⟩
    · obtain ⟨_, offs, data, hb, h3⟩ := hty
      rw [hb]
      rcases h3 with ⟨h0, _⟩ | h3
      · omega
      · obtain ⟨v, hv⟩ := binValue_some offs data l _ (h3 i hi)
        simp only [hv]; exact ⟨_, rfl⟩
    · obtain ⟨_, offs, data, hb, h3⟩ := hty
      rw [hb]
      rcases h3 with ⟨h0, _⟩ | h3
      · omega
      · obtain ⟨v, hv⟩ := binValue_some offs data l _ (h3 i hi).1
        simp only [hv]; exact ⟨_, rfl⟩

/-- **accessor safety for leaf layouts (partial: Null, Boolean, fixed-width, FixedSizeBinary, Binary, Utf8
and their Large variants).**  A well-formed leaf array decodes: every buffer index the accessor model
dereferences (validity bit, value bit, value bytes, both offsets, the value byte range) is in bounds, and
the array denotes exactly `len` rows.  Gap: nested, dictionary, run-end and union layouts (checked at run
time by the driver: `wellFormedB d ∧ ¬ safeAccessB d` is reported as MODEL-SPEC-MISMATCH). -/
theorem wellFormed_safeAccess_leaf_partial : ∀ (d : ArrayData), WellFormed d →
    (d.type = .null ∨ d.type = .bool ∨ (∃ w, d.type = .prim w) ∨ (∃ w, d.type = .fsb w) ∨
      (∃ l, d.type = .binary l) ∨ (∃ l, d.type = .utf8 l)) → SafeAccess d
  | ⟨t, l, o, n, bs, cs⟩, h, ht => by
    have hl := wellFormed_local _ h
    have hcs : cs = [] := by
      have := hl.2
      simp only at ht
      rcases ht with h | h | ⟨w, h⟩ | ⟨w, h⟩ | ⟨l, h⟩ | ⟨l, h⟩ <;> subst h <;> simp only at this
      · exact this.2.2
      · exact this.1
      · exact this.1
      · exact this.1
      · exact this.1
      · exact this.1
    subst hcs
    unfold SafeAccess decode
    simp only [decodeAll]
    exact tabulateM_some l _ (fun i hi => slotVal_some_leaf _ hl i hi ht)


theorem readInt_pair_of_ok (offs : List Nat) (large : Bool) (limit p : Nat)
    (h : offsetPairOk offs large limit p = true) :
    ∃ a b : Int, readInt offs (offW large) true p = some a ∧ readInt offs (offW large) true (p + 1) = some b ∧
      0 ≤ a ∧ a ≤ b ∧ b ≤ (limit : Int) := by
  unfold offsetPairOk at h
  cases ha : readInt offs (offW large) true p with
  | none => rw [ha] at h; simp at h
  | some a =>
    cases hb : readInt offs (offW large) true (p + 1) with
    | none => rw [ha, hb] at h; simp at h
    | some b =>
      rw [ha, hb] at h
      simp only [decide_eq_true_eq] at h
      exact ⟨a, b, rfl, rfl, h⟩

theorem one_child {c : ArrayData} {cvs : List (List Val)} (h : cvs.map List.length = [c].map (·.len)) :
    ∃ cv, cvs = [cv] ∧ cv.length = c.len := by
  rcases cvs with _ | ⟨cv, _ | ⟨x, r⟩⟩ <;> simp at h
  exact ⟨cv, rfl, h⟩

/-- slots of a well-formed List / FixedSizeList / Dictionary node are readable once the child decoded to
`cv` with one value per child slot -/
theorem slotVal_some_one_child (d c : ArrayData) (cv : List Val) (hl : LocalWF d) (hc : d.children = [c])
    (hcv : cv.length = c.len) (i : Nat) (hi : i < d.len)
    (ht : (∃ l it nb, d.type = .list l it nb) ∨ (∃ n it nb, d.type = .fsl n it nb) ∨ (∃ kw sg v, d.type = .dict kw sg v)) :
    ∃ v, slotVal d [cv] i = some v := by
  obtain ⟨hn, hty⟩ := hl
  obtain ⟨vb, hvb⟩ := validAt_some d hn i hi
  unfold slotVal
  rw [hvb]
  cases vb with
  | false => exact ⟨_, rfl⟩
  | true =>
    simp only
    rcases ht with ⟨l, it, nb, h⟩ | ⟨n, it, nb, h⟩ | ⟨kw, sg, v, h⟩ <;> rw [h] at hty ⊢ <;> simp only at hty ⊢
    · obtain ⟨offs, c', hb, hc', _, h4, _⟩ := hty
      rw [hc] at hc'; cases hc'
      rw [hb]
      rcases h4 with ⟨h0, _⟩ | h4
      · omega
      · obtain ⟨a, b, ra, rb, h0, hab, hbl⟩ := readInt_pair_of_ok offs l c.len _ (h4 i hi)
        simp only [ra, rb]
        rw [if_pos ⟨h0, by omega⟩]
        unfold sliceChecked
        rw [if_pos (by omega)]
        exact ⟨_, rfl⟩
    · obtain ⟨_, c', hc', _, h4, _⟩ := hty
      rw [hc] at hc'; cases hc'
      have : (d.offset + i) * n + n ≤ c.len := by
        have := Nat.mul_le_mul_right n (show d.offset + i + 1 ≤ d.offset + d.len by omega)
        rw [Nat.add_mul, Nat.one_mul] at this
        omega
      unfold sliceChecked
      rw [if_pos ⟨by omega, by omega⟩]
      exact ⟨_, rfl⟩
    · obtain ⟨keys, v', hb, hc', _, _, _, h6⟩ := hty
      rw [hc] at hc'; cases hc'
      rw [hb]
      have hv : d.isValid i = true := by simp [ArrayData.isValid, hvb]
      have hk := h6 i hi hv
      unfold keyOk at hk
      cases hr : readInt keys kw sg (d.offset + i) with
      | none => rw [hr] at hk; simp at hk
      | some k =>
        rw [hr] at hk
        simp only [decide_eq_true_eq] at hk
        simp only [hr]
        rw [if_pos hk.1]
        have : k.toNat < cv.length := by omega
        rw [List.getElem?_eq_getElem this]
        exact ⟨_, rfl⟩


mutual
/-- the layouts covered by `wellFormed_safeAccess_partial`: every node is a leaf layout, a List / LargeList,
a FixedSizeList or a Dictionary -/
def simpleTree : ArrayData → Bool
  | ⟨t, _, _, _, _, cs⟩ =>
    (match t with
     | .null | .bool | .prim _ | .fsb _ | .binary _ | .utf8 _ | .list _ _ _ | .fsl _ _ _ | .dict _ _ _ => true
     | _ => false) && simpleAll cs
def simpleAll : List ArrayData → Bool
  | [] => true
  | c :: cs => simpleTree c && simpleAll cs
end

mutual
/-- **accessor safety (partial: trees of leaf, List/LargeList, FixedSizeList and Dictionary nodes).**
`WellFormed d → SafeAccess d`: no read of the accessor model falls outside a buffer or a child, at any
depth.  Gap: Struct, RunEndEncoded and Union nodes (runtime-checked by the driver). -/
theorem wellFormed_safeAccess_partial : ∀ (d : ArrayData), WellFormed d → simpleTree d = true → SafeAccess d
  | ⟨t, l, o, n, bs, cs⟩, h, hs => by
    unfold WellFormed at h
    obtain ⟨hl, hall⟩ := h
    unfold simpleTree at hs
    simp only [Bool.and_eq_true] at hs
    obtain ⟨hty, hsa⟩ := hs
    obtain ⟨cvs, hd, hlen⟩ := wellFormedAll_safe cs hall hsa
    unfold SafeAccess decode
    simp only [hd]
    apply tabulateM_some
    intro i hi
    have hl2 := hl.2
    cases t with
    | null =>
      simp only at hl2; obtain ⟨_, _, hc⟩ := hl2; subst hc
      simp only [decodeAll, Option.some.injEq] at hd; subst hd
      exact slotVal_some_leaf _ hl i hi (Or.inl rfl)
    | bool =>
      simp only at hl2; obtain ⟨hc, _⟩ := hl2; subst hc
      simp only [decodeAll, Option.some.injEq] at hd; subst hd
      exact slotVal_some_leaf _ hl i hi (Or.inr (Or.inl rfl))
    | prim w =>
      simp only at hl2; obtain ⟨hc, _⟩ := hl2; subst hc
      simp only [decodeAll, Option.some.injEq] at hd; subst hd
      exact slotVal_some_leaf _ hl i hi (Or.inr (Or.inr (Or.inl ⟨w, rfl⟩)))
    | fsb w =>
      simp only at hl2; obtain ⟨hc, _⟩ := hl2; subst hc
      simp only [decodeAll, Option.some.injEq] at hd; subst hd
      exact slotVal_some_leaf _ hl i hi (Or.inr (Or.inr (Or.inr (Or.inl ⟨w, rfl⟩))))
    | binary lg =>
      simp only at hl2; obtain ⟨hc, _⟩ := hl2; subst hc
      simp only [decodeAll, Option.some.injEq] at hd; subst hd
      exact slotVal_some_leaf _ hl i hi (Or.inr (Or.inr (Or.inr (Or.inr (Or.inl ⟨lg, rfl⟩)))))
    | utf8 lg =>
      simp only at hl2; obtain ⟨hc, _⟩ := hl2; subst hc
      simp only [decodeAll, Option.some.injEq] at hd; subst hd
      exact slotVal_some_leaf _ hl i hi (Or.inr (Or.inr (Or.inr (Or.inr (Or.inr ⟨lg, rfl⟩)))))
    | list lg it nb =>
      simp only at hl2; obtain ⟨_, c, _, hc, _⟩ := hl2; subst hc
      obtain ⟨cv, rfl, hcv⟩ := one_child hlen
      exact slotVal_some_one_child _ c cv hl rfl hcv i hi (Or.inl ⟨lg, it, nb, rfl⟩)
    | fsl k it nb =>
      simp only at hl2; obtain ⟨_, c, hc, _⟩ := hl2; subst hc
      obtain ⟨cv, rfl, hcv⟩ := one_child hlen
      exact slotVal_some_one_child _ c cv hl rfl hcv i hi (Or.inr (Or.inl ⟨k, it, nb, rfl⟩))
    | dict kw sg v =>
      simp only at hl2; obtain ⟨_, c, _, hc, _⟩ := hl2; subst hc
      obtain ⟨cv, rfl, hcv⟩ := one_child hlen
      exact slotVal_some_one_child _ c cv hl rfl hcv i hi (Or.inr (Or.inr ⟨kw, sg, v, rfl⟩))
    | view u => simp at hty
    | struct f => simp at hty
    | ree a b => simp at hty
    | union a b => simp at hty
theorem wellFormedAll_safe : ∀ (cs : List ArrayData), WellFormedAll cs → simpleAll cs = true →
    ∃ cvs, decodeAll cs = some cvs ∧ cvs.map List.length = cs.map (·.len)
  | [], _, _ => ⟨[], rfl, rfl⟩
  | c :: cs, h, hs => by
    unfold WellFormedAll at h
    unfold simpleAll at hs
    simp only [Bool.and_eq_true] at hs
    obtain ⟨cv, h1, h2⟩ := wellFormed_safeAccess_partial c h.1 hs.1
    obtain ⟨cvs, h3, h4⟩ := wellFormedAll_safe cs h.2 hs.2
    exact ⟨cv :: cvs, by simp [decodeAll, h1, h3], by simp [h2, h4]⟩
end


end ArrowModel.C01
