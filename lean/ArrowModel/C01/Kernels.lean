import ArrowModel.C01.Lemmas
/-
C01: full preservation theorems `WellFormed in → WellFormed (K in)` for the physically modelled
`*_unchecked` construction sites (fixed-width take/filter, take_bytes / filter_bytes) and the offset
invariant of `GenericByteBuilder::append_array` (concat_bytes).
-/
namespace ArrowModel.C01
open ArrowModel.Physical

/-- **`take_primitive` / `take_fixed_size_binary` / `filter_primitive` preserve well-formedness**
(unconditionally in the indices: the model writes `T::default()` for anything it cannot read). -/
theorem takeFixed_wellFormed (d : ArrayData) (idx : List (Option Nat))
    (ht : (∃ w, d.type = .prim w) ∨ (∃ w, d.type = .fsb w)) : WellFormed (takeFixed d idx) := by
  rw [wellFormed_leaf _ rfl]
  refine ⟨nullsOk_mkNulls _ (idx.map (selValid d)) (by simp [takeFixed]) rfl, ?_⟩
  rcases ht with ⟨w, hw⟩ | ⟨w, hw⟩
  · have : (takeFixed d idx).type = .prim w := hw
    rw [this]
    refine ⟨rfl, _, rfl, ?_⟩
    simp only [takeFixed, hw, Nat.zero_add]
    rw [flatten_length_const _ w (fixedSlot_length _ w d.offset)]
    exact Nat.le_refl _
  · have : (takeFixed d idx).type = .fsb w := hw
    rw [this]
    refine ⟨rfl, _, rfl, ?_⟩
    simp only [takeFixed, hw, Nat.zero_add]
    rw [flatten_length_const _ w (fixedSlot_length _ w d.offset)]
    exact Nat.le_refl _

theorem filterFixed_wellFormed (d : ArrayData) (mask : List Bool)
    (ht : (∃ w, d.type = .prim w) ∨ (∃ w, d.type = .fsb w)) : WellFormed (filterFixed d mask) :=
  takeFixed_wellFormed d _ ht


theorem wellFormed_local : ∀ (d : ArrayData), WellFormed d → LocalWF d
  | ⟨t, l, o, n, bs, cs⟩, h => by unfold WellFormed at h; exact h.1

theorem sum_take_succ (ls : List Nat) (i : Nat) (hi : i < ls.length) :
    (ls.take (i + 1)).sum = (ls.take i).sum + ls[i] := by
  rw [List.take_add_one, List.sum_append, List.getElem?_eq_getElem hi]; simp

theorem sum_take_le (ls : List Nat) (i : Nat) : (ls.take i).sum ≤ ls.sum := by
  have : ls.sum = (ls.take i).sum + (ls.drop i).sum := by
    rw [← List.sum_append, List.take_append_drop]
  omega

/-- both offsets of slot `i` read back from an encoded offsets buffer -/
theorem readInt_pair_enc (large : Bool) (ps : List Nat) (i limit : Nat) (hi : i + 1 < ps.length)
    (hlim : ∀ j (hj : j < ps.length), ps[j] ≤ limit) (hfit : 2 * limit < 2 ^ (8 * offW large)) :
    readInt (encInts (offW large) ps) (offW large) true i = some (ps[i] : Int) ∧
    readInt (encInts (offW large) ps) (offW large) true (i + 1) = some (ps[i + 1] : Int) := by
  have h1 := hlim i (by omega)
  have h2 := hlim (i + 1) hi
  exact ⟨readInt_encInts _ ps i (by omega) (by omega), readInt_encInts _ ps (i + 1) hi (by omega)⟩

/-- the bytes a slot copies from a well-formed Utf8 array are well-formed UTF-8 -/
theorem byteSlot_utf8 (d : ArrayData) (l : Bool) (hwf : WellFormed d) (ht : d.type = .utf8 l) (s : Option Nat)
    (hs : ∀ k, s = some k → k < d.len) : utf8Valid (byteSlot d s) = true := by
  have hl := (wellFormed_local d hwf).2
  rw [ht] at hl
  simp only at hl
  obtain ⟨_, offs, data, hb, h⟩ := hl
  cases s with
  | none => simp [byteSlot, utf8Valid, utf8ValidAux]
  | some k =>
    have hk := hs k rfl
    rcases h with ⟨h0, _⟩ | h
    · omega
    · have := (h k hk).2
      unfold utf8SlotOk at this
      simp only [byteSlot, hb, ht, isLarge]
      cases hv : binValue offs data l (d.offset + k) with
      | none => rw [hv] at this; simp at this
      | some v => rw [hv] at this; simpa using this

/-- **`take_bytes` / `filter_bytes` preserve well-formedness** (`GenericByteArray::new_unchecked` under
the SAFETY comments at take.rs:619 and filter.rs:924): for a well-formed Binary/Utf8 (or Large) input,
in-range selected slots and a result that fits the offset type (otherwise the kernel returns
`OffsetOverflowError`), the array built from the running-sum offsets, the concatenated slot bytes and
the packed validity is well-formed — offsets monotone and in bounds, every slot valid UTF-8, bitmap
covering the slots with the exact null count. -/
theorem gatherBytes_wellFormed (d : ArrayData) (slots : List (Option Nat)) (valid : List Bool)
    (hwf : WellFormed d) (ht : (∃ l, d.type = .binary l) ∨ (∃ l, d.type = .utf8 l))
    (hin : ∀ (i k : Nat), slots[i]? = some (some k) → k < d.len)
    (hv : valid.length = slots.length)
    (hfit : 2 * (slots.map (byteSlot d)).flatten.length < 2 ^ (8 * offW (isLarge d.type))) :
    WellFormed (gatherBytes d slots valid) := by
  rw [wellFormed_leaf _ rfl]
  refine ⟨nullsOk_mkNulls _ valid (by simp [gatherBytes, hv]) rfl, ?_⟩
  -- abbreviations
  let vs := slots.map (byteSlot d)
  let lens := vs.map List.length
  have hsum : lens.sum = vs.flatten.length := by simp [lens, List.length_flatten]
  have hps_len : (prefixSums 0 lens).length = slots.length + 1 := by simp [prefixSums_length, lens, vs]
  have hps_get : ∀ j (hj : j < (prefixSums 0 lens).length), (prefixSums 0 lens)[j] = (lens.take j).sum := by
    intro j hj
    have := prefixSums_get 0 lens j (by simp [lens, vs]; omega)
    rw [List.getElem?_eq_getElem hj] at this
    simpa using this
  have hlim : ∀ j (hj : j < (prefixSums 0 lens).length), (prefixSums 0 lens)[j] ≤ vs.flatten.length := by
    intro j hj; rw [hps_get j hj, ← hsum]; exact sum_take_le lens j
  -- per-slot facts
  have hslot : ∀ i, i < slots.length →
      offsetPairOk (encInts (offW (isLarge d.type)) (prefixSums 0 lens)) (isLarge d.type) vs.flatten.length (0 + i) = true ∧
      binValue (encInts (offW (isLarge d.type)) (prefixSums 0 lens)) vs.flatten (isLarge d.type) (0 + i)
        = some (byteSlot d (slots[i]?.join)) := by
    intro i hi
    have hi1 : i + 1 < (prefixSums 0 lens).length := by omega
    obtain ⟨r1, r2⟩ := readInt_pair_enc (isLarge d.type) (prefixSums 0 lens) i vs.flatten.length hi1 hlim hfit
    have hil : i < lens.length := by simp [lens, vs]; exact hi
    have e1 := hps_get i (by omega)
    have e2 := hps_get (i + 1) hi1
    have e3 := sum_take_succ lens i hil
    have e4 := hlim (i + 1) hi1
    have hvi : lens[i] = (byteSlot d (slots[i]?.join)).length := by
      simp [lens, vs, List.getElem?_eq_getElem hi]
    constructor
    · unfold offsetPairOk
      rw [Nat.zero_add, r1, r2]
      simp only [decide_eq_true_eq]
      omega
    · unfold binValue
      rw [Nat.zero_add, r1, r2]
      simp only [Int.natCast_nonneg, and_self, if_true, Int.toNat_natCast]
      unfold sliceChecked
      rw [if_pos (by omega)]
      rw [e1, e2, e3, Nat.add_sub_cancel_left, hvi]
      have hvs : i < vs.length := by simp [vs]; exact hi
      have := flatten_slot vs i hvs
      have hmt : (vs.take i).map List.length = lens.take i := by simp [lens, List.map_take]
      rw [hmt] at this
      have hvi' : vs[i] = byteSlot d (slots[i]?.join) := by simp [vs, List.getElem?_eq_getElem hi]
      rw [hvi'] at this
      rw [this]
  rcases ht with ⟨l, hl⟩ | ⟨l, hl⟩
  · have hL : l = isLarge d.type := by rw [hl]; rfl
    subst hL
    have : (gatherBytes d slots valid).type = .binary (isLarge d.type) := hl
    rw [this]
    refine ⟨rfl, _, _, rfl, Or.inr ?_⟩
    intro i hi
    exact (hslot i hi).1
  · have hL : l = isLarge d.type := by rw [hl]; rfl
    subst hL
    have : (gatherBytes d slots valid).type = .utf8 (isLarge d.type) := hl
    rw [this]
    refine ⟨rfl, _, _, rfl, Or.inr ?_⟩
    intro i hi
    have hi' : i < slots.length := hi
    obtain ⟨h1, h2⟩ := hslot i hi'
    refine ⟨h1, ?_⟩
    change (match binValue (encInts (offW (isLarge d.type)) (prefixSums 0 lens)) vs.flatten (isLarge d.type) (0 + i) with
      | some v => utf8Valid v
      | none => false) = true
    rw [h2]
    apply byteSlot_utf8 d _ hwf hl
    intro k hk
    apply hin i k
    rw [List.getElem?_eq_getElem hi'] at hk ⊢
    simpa using hk


/-- **`take_bytes` preserves well-formedness** (both null paths) for in-range indices -/
theorem takeBytes_wellFormed (d : ArrayData) (idx : List (Option Nat))
    (hwf : WellFormed d) (ht : (∃ l, d.type = .binary l) ∨ (∃ l, d.type = .utf8 l))
    (hin : ∀ (i k : Nat), idx[i]? = some (some k) → k < d.len)
    (hfit : 2 * ((idx.map (fun i => if selValid d i then i else none)).map (byteSlot d)).flatten.length
              < 2 ^ (8 * offW (isLarge d.type))) :
    WellFormed (takeBytes d idx) := by
  unfold takeBytes
  apply gatherBytes_wellFormed d _ _ hwf ht ?_ (by simp) hfit
  intro i k h
  rw [List.getElem?_map] at h
  cases hi : idx[i]? with
  | none => rw [hi] at h; simp at h
  | some ix =>
    rw [hi] at h
    simp only [Option.map_some, Option.some.injEq] at h
    split at h
    · subst h; exact hin i k hi
    · cases h

/-- **`filter_bytes` preserves well-formedness** (every iteration strategy selects `maskIndices mask`) -/
theorem filterBytes_wellFormed (d : ArrayData) (mask : List Bool)
    (hwf : WellFormed d) (ht : (∃ l, d.type = .binary l) ∨ (∃ l, d.type = .utf8 l))
    (hm : mask.length = d.len)
    (hfit : 2 * (((maskIndices mask).map some).map (byteSlot d)).flatten.length < 2 ^ (8 * offW (isLarge d.type))) :
    WellFormed (filterBytes d mask) := by
  unfold filterBytes
  apply gatherBytes_wellFormed d _ _ hwf ht ?_ (by simp) hfit
  intro i k h
  have hk : some k ∈ (maskIndices mask).map some := List.mem_of_getElem? h
  simp only [List.mem_map, Option.some.injEq, exists_eq_right] at hk
  unfold maskIndices at hk
  simp only [List.mem_filter, List.mem_range] at hk
  omega

/-! ### concat: offset rebasing of `GenericByteBuilder::append_array` -/

theorem rebase_length (next : Nat) (offs : List Nat) : (rebase next offs).length = offs.length - 1 := by
  cases offs <;> simp [rebase]

/-- **rebased offsets stay ordered**: `next :: offsets[1..].map(|o| o + shift)` is non-decreasing when
the appended array's offsets are -/
theorem rebase_pairwise (next : Nat) (offs : List Nat) (h : offs.Pairwise (· ≤ ·)) :
    (next :: rebase next offs).Pairwise (· ≤ ·) := by
  cases offs with
  | nil => simp [rebase]
  | cons o0 rest =>
    simp only [rebase, List.pairwise_cons, List.mem_map, forall_exists_index, and_imp, forall_apply_eq_imp_iff₂]
    refine ⟨fun a _ => by omega, ?_⟩
    rw [List.pairwise_map]
    exact (List.pairwise_cons.1 h).2.imp (fun hab => by omega)

/-- the last rebased offset is `next + (last − first)`: exactly the number of value bytes copied -/
theorem rebase_getLast (next o0 : Nat) (rest : List Nat) (hr : rest ≠ []) :
    (rebase next (o0 :: rest)).getLast? = some (next + ((o0 :: rest).getLastD 0 - o0)) := by
  have hl : (o0 :: rest).getLast? = rest.getLast? := by
    cases rest with
    | nil => exact absurd rfl hr
    | cons a r => rw [List.getLast?_cons_cons]
  have hd : (o0 :: rest).getLastD 0 = (rest.getLast?).getD 0 := by
    rw [← hl]; simp
  rw [hd]
  simp only [rebase, List.getLast?_map]
  cases h : rest.getLast? with
  | none => rw [List.getLast?_eq_none_iff] at h; exact absurd h hr
  | some x => simp


/-- invariant of a `GenericByteBuilder`: offsets start at 0, are non-decreasing, bounded by and ending at
the length of the values written so far -/
def BuilderInv (b : ByteBuilder) : Prop :=
  b.offsets.Pairwise (· ≤ ·) ∧ b.offsets.head? = some 0 ∧ b.offsets.getLast? = some b.values.length ∧
  ∀ a, a ∈ b.offsets → a ≤ b.values.length

theorem builderInv_empty : BuilderInv ByteBuilder.empty := by
  simp [BuilderInv, ByteBuilder.empty]

/-- **`append_array` (concat of byte arrays) keeps the offsets well-formed**: appending an array whose own
offsets are non-decreasing, bounded by their last entry, with that last entry inside its values buffer
(the offset-level content of `WellFormed` for a Binary/Utf8 array) re-bases them so that the builder's
offsets stay non-decreasing, still start at 0 and end exactly at the new values length. -/
theorem appendArray_inv (b : ByteBuilder) (d : ArrayData) (hb : BuilderInv b)
    (hp : (offsetsOf d).Pairwise (· ≤ ·))
    (hmax : ∀ o, o ∈ offsetsOf d → o ≤ (offsetsOf d).getLastD 0)
    (hlast : (offsetsOf d).getLastD 0 ≤ ((d.buffers.drop 1).headD []).length) :
    BuilderInv (b.appendArray d) := by
  unfold ByteBuilder.appendArray
  split
  · exact hb
  · obtain ⟨h1, h2, h3, h4⟩ := hb
    have hnext : b.offsets.getLastD 0 = b.values.length := by
      rw [List.getLastD_eq_getLast?, h3]; rfl
    rw [hnext]
    generalize hoffs : offsetsOf d = offs at hp hmax hlast
    generalize ((d.buffers.drop 1).headD []) = data at hlast
    rcases offs with _ | ⟨o0, _ | ⟨o1, rest⟩⟩
    · simp [rebase, BuilderInv, h1, h2, h3]; exact h4
    · simp [rebase, BuilderInv, h1, h2, h3]; exact h4
    · have hl0 : o0 ≤ (o0 :: o1 :: rest).getLastD 0 := hmax o0 (by simp)
      have hlen : ((data.drop o0).take ((o0 :: o1 :: rest).getLastD 0 - o0)).length = (o0 :: o1 :: rest).getLastD 0 - o0 := by
        simp only [List.length_take, List.length_drop, List.headD_cons]; omega
      have hrl := rebase_getLast b.values.length o0 (o1 :: rest) (by simp)
      have hrp := rebase_pairwise b.values.length (o0 :: o1 :: rest) hp
      have hmem : ∀ c, c ∈ rebase b.values.length (o0 :: o1 :: rest) →
          b.values.length ≤ c ∧ c ≤ b.values.length + ((o0 :: o1 :: rest).getLastD 0 - o0) := by
        intro c hc
        simp only [rebase, List.mem_map] at hc
        obtain ⟨o, ho, rfl⟩ := hc
        have := hmax o (List.mem_cons_of_mem _ ho)
        omega
      refine ⟨?_, ?_, ?_, ?_⟩
      · rw [List.pairwise_append]
        refine ⟨h1, (List.pairwise_cons.1 hrp).2, ?_⟩
        intro a ha c hc
        have := h4 a ha
        have := (hmem c hc).1
        omega
      · simp only [List.headD_cons]
        cases hbo : b.offsets with
        | nil => rw [hbo] at h2; simp at h2
        | cons x xs => rw [hbo] at h2; simpa using h2
      · simp only [List.headD_cons, List.length_append, hlen]
        rw [List.getLast?_append, hrl]; rfl
      · intro a ha
        simp only [List.headD_cons, List.length_append, hlen]
        rcases List.mem_append.1 ha with ha | ha
        · have := h4 a ha; omega
        · exact (hmem a ha).2

/-- `concat_bytes`: the invariant holds after appending every input -/
theorem concat_offsets_ok (ds : List ArrayData)
    (h : ∀ d, d ∈ ds → (offsetsOf d).Pairwise (· ≤ ·) ∧ (∀ o, o ∈ offsetsOf d → o ≤ (offsetsOf d).getLastD 0) ∧
          (offsetsOf d).getLastD 0 ≤ ((d.buffers.drop 1).headD []).length) :
    ∀ b, BuilderInv b → BuilderInv (ds.foldl ByteBuilder.appendArray b) := by
  induction ds with
  | nil => intro b hb; exact hb
  | cons d ds ih =>
    intro b hb
    obtain ⟨h1, h2, h3⟩ := h d (by simp)
    exact ih (fun x hx => h x (List.mem_cons_of_mem _ hx)) _ (appendArray_inv b d hb h1 h2 h3)

end ArrowModel.C01
