import ArrowModel.Common.Proto
import ArrowModel.C09.Driver
import ArrowModel.C01.Spec
import ArrowModel.C01.Model
/-
C01 driver: one case per line → one canonical answer per line.

  step  <desc> <step> <ltype> <array>   an array handed out by a safe API (the input of pipeline
                                        stage `<step>`; `<step>` = `end` for the last output),
                                        dumped in the C09 physical grammar (see C09/Driver.lean).
                                        Answer `wf=<0|1>`: verdict of the proved validator
                                        `wellFormedB` (the harness answers `wf=1`: that is the property).
                                        `<desc>`, `<step>`, `<ltype>` (hex of the logical Arrow type)
                                        are used by the Rust side only.
  stepx …                               same for a type outside `DType` (views, list-views): `SKIP`
  batch <desc> <rows> <fields> <cols>   a RecordBatch handed out by a safe API: `wf=<0|1>` from
                                        `batchSpecB` (schema/column type, length, nullability agreement
                                        and every column well-formed)
  ktake / kfilter / kconcat             correspondence of the physical kernel models of Model.lean with the real
                                        take / filter / concat kernels: `len= offs= vals= nulls= wf=` of the model
                                        output (offsets relative to the first, the value window, declared null count,
                                        verdict of `wellFormedB` on the model output; the harness prints the same
                                        observation of the real output with `wf=1`)
  hist <kind> <seed>                    a builder history (arrays it hands out arrive as `step … end` lines): `ok`

When `wellFormedB d` holds the driver also runs the accessor model `decode` and reports
`MODEL-SPEC-MISMATCH` if it fails (the theorem `wellFormed_safeAccess` says it cannot).
-/
namespace ArrowModel.C01
open ArrowModel.Proto ArrowModel.Physical ArrowModel.C09

def judge (d : ArrayData) : String :=
  let wf := wellFormedB d
  if wf && !safeAccessB d then "MODEL-SPEC-MISMATCH wf=1 but decode fails"
  else s!"wf={showBool wf}"

/-- canonical physical answer for the kernel-model ops: offsets (decimal) / values (hex) / null count -/
def showKernel (d : ArrayData) : String :=
  let offs := match d.type, d.buffers with
    | .binary l, [o, _] | .utf8 l, [o, _] =>
      showList toString ((List.range (d.len + 1)).map (fun i => (readInt o (offW l) true (d.offset + i)).getD (-1)))
    | _, _ => "-"
  let vals := match d.buffers with
    | [_, v] => toHex v
    | [v] => toHex v
    | _ => "-"
  let nc := match d.nulls with
    | some n => toString n.nullCount
    | none => "0"
  s!"len={d.len} offs={offs} vals={vals} nulls={nc} wf={showBool (wellFormedB d)}"

def isFixed : DType → Bool
  | .prim _ => true
  | .fsb _ => true
  | _ => false

def parseOptNat (s : String) : Option (Option Nat) :=
  if s = "n" then some none else s.toNat?.map some

def handle (toks : List String) : String :=
  match toks with
  | ["step", _desc, _step, _lt, a] =>
    match parseArray a with
    | some d => judge d
    | none => "bad-op"
  | "stepx" :: _ => "SKIP"
  | ["batch", _desc, rows, fields, cols] =>
    match rows.toNat?,
          plusList (fun s => match pNb s.toList with
            | some (nb, r) => (pType r).bind (fun (t, r) => if r.isEmpty then some (t, nb) else none)
            | none => none) fields,
          plusList parseArray cols with
    | some rows, some fs, some cs => s!"wf={showBool (batchSpecB (some rows) fs cs)}"
    | _, _, _ => "bad-op"
  -- correspondence of the physical kernel models with the real kernels (harness: `run_kcase`)
  -- ktake <ltype> <array> <indices> <index type>: `take` (`n` = null index)
  | ["ktake", _lt, a, idx, _k] =>
    match parseArray a, parseList parseOptNat idx with
    | some d, some ix => showKernel (if isFixed d.type then takeFixed d ix else takeBytes d ix)
    | _, _ => "bad-op"
  -- kfilter <ltype> <array> <mask bits> <mask null bits> <optimize> <mask bit offset>: `filter`
  | ["kfilter", _lt, a, bits, nulls, _opt, _k] =>
    match parseArray a, parseBits bits, parseBits nulls with
    | some d, some bs, some ns =>
      let mask := (bs.zip ns).map (fun (b, n) => b && !n)
      showKernel (if isFixed d.type then filterFixed d mask else filterBytes d mask)
    | _, _, _ => "bad-op"
  -- kconcat <ltype> <array>+<array>…: `concat`
  | ["kconcat", _lt, as] =>
    match plusList parseArray as with
    | some (d :: ds) => showKernel (if isFixed d.type then concatFixed d ds else concatBytes d ds)
    | _ => "bad-op"
  -- builder histories are judged through the `step … end` lines of the arrays they hand out
  | "hist" :: _ => "ok"
  | _ => "bad-op"

end ArrowModel.C01
