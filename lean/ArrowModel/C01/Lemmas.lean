import ArrowModel.C09.Lemmas
import ArrowModel.C01.Model
/-
C01 helper lemmas: slicing one node, prefix sums, offset rebasing, bitmap packing / null counting.
-/
namespace ArrowModel.C01
open ArrowModel.Physical

theorem slice_isValid (d : ArrayData) (o l i : Nat) : (slice d o l).isValid i = d.isValid (o + i) := by
  unfold ArrayData.isValid ArrayData.validAt slice
  cases d.nulls <;> simp [Nulls.slice, Nat.add_assoc]

theorem nullsOk_slice {d : ArrayData} (h : NullsOk d) (o l : Nat) (hol : o + l ≤ d.len) : NullsOk (slice d o l) := by
  unfold NullsOk slice at *
  cases hn : d.nulls with
  | none => simp
  | some n =>
    rw [hn] at h
    simp only [Option.map_some, Nulls.slice]
    have := h.2.1
    refine ⟨?_, ?_, ?_⟩ <;> first | rfl | trivial | omega

theorem childValid_slice (d c : ArrayData) (k o l i : Nat) :
    childValidWhereParentValid (slice d o l) c k i = childValidWhereParentValid d c k (o + i) := by
  unfold childValidWhereParentValid
  rw [slice_isValid]
  simp [slice, Nat.add_assoc]

theorem fieldsMatch_mono {f g : Field → ArrayData → Bool} (h : ∀ a b, f a b = true → g a b = true) :
    ∀ (fs : List Field) (cs : List ArrayData), fieldsMatch f fs cs = true → fieldsMatch g fs cs = true
  | [], [], _ => rfl
  | [], _ :: _, h' => by simp [fieldsMatch] at h'
  | _ :: _, [], h' => by simp [fieldsMatch] at h'
  | a :: fs, c :: cs, h' => by
    simp only [fieldsMatch, Bool.and_eq_true] at h' ⊢
    exact ⟨h _ _ h'.1, fieldsMatch_mono h fs cs h'.2⟩

theorem localWF_slice {d : ArrayData} (h : LocalWF d) (o l : Nat) (hol : o + l ≤ d.len) : LocalWF (slice d o l) := by
  obtain ⟨hn, ht⟩ := h
  refine ⟨nullsOk_slice hn o l hol, ?_⟩
  have hty : (slice d o l).type = d.type := rfl
  have hb : (slice d o l).buffers = d.buffers := rfl
  have hc : (slice d o l).children = d.children := rfl
  have hoff : (slice d o l).offset = d.offset + o := rfl
  have hlen : (slice d o l).len = l := rfl
  rw [hty]
  cases hT : d.type with
  | null =>
    rw [hT] at ht; simp only at ht ⊢
    refine ⟨?_, ht.2.1, ht.2.2⟩
    simp [slice, ht.1]
  | bool =>
    rw [hT] at ht; simp only at ht ⊢
    obtain ⟨h1, b, h2, h3⟩ := ht
    exact ⟨h1, b, h2, by rw [hoff, hlen]; omega⟩
  | prim w =>
    rw [hT] at ht; simp only at ht ⊢
    obtain ⟨h1, b, h2, h3⟩ := ht
    refine ⟨h1, b, h2, ?_⟩
    rw [hoff, hlen]
    exact Nat.le_trans (Nat.mul_le_mul_right w (by omega)) h3
  | fsb w =>
    rw [hT] at ht; simp only at ht ⊢
    obtain ⟨h1, b, h2, h3⟩ := ht
    refine ⟨h1, b, h2, ?_⟩
    rw [hoff, hlen]
    exact Nat.le_trans (Nat.mul_le_mul_right w (by omega)) h3
  | binary large =>
    rw [hT] at ht; simp only at ht ⊢
    obtain ⟨h1, offs, data, h2, h3⟩ := ht
    refine ⟨h1, offs, data, h2, ?_⟩
    rw [hoff, hlen]
    rcases h3 with ⟨h0, he⟩ | h3
    · left; exact ⟨by omega, he⟩
    · right; intro i hi
      have := h3 (o + i) (by omega)
      rwa [Nat.add_assoc]
  | utf8 large =>
    rw [hT] at ht; simp only at ht ⊢
    obtain ⟨h1, offs, data, h2, h3⟩ := ht
    refine ⟨h1, offs, data, h2, ?_⟩
    rw [hoff, hlen]
    rcases h3 with ⟨h0, he⟩ | h3
    · left; exact ⟨by omega, he⟩
    · right; intro i hi
      have := h3 (o + i) (by omega)
      rwa [Nat.add_assoc]
  | list large item nullable =>
    rw [hT] at ht; simp only at ht ⊢
    obtain ⟨offs, c, h1, h2, h3, h4, h5⟩ := ht
    refine ⟨offs, c, h1, h2, h3, ?_, h5⟩
    rw [hoff, hlen]
    rcases h4 with ⟨h0, he⟩ | h4
    · left; exact ⟨by omega, he⟩
    · right; intro i hi
      have := h4 (o + i) (by omega)
      rwa [Nat.add_assoc]
  | fsl n item nullable =>
    rw [hT] at ht; simp only at ht ⊢
    obtain ⟨h1, c, h2, h3, h4, h5⟩ := ht
    refine ⟨h1, c, h2, h3, ?_, ?_⟩
    · rw [hoff, hlen]
      exact Nat.le_trans (Nat.mul_le_mul_right n (by omega)) h4
    · intro hn i hi
      rw [hlen] at hi
      rw [childValid_slice]
      exact h5 hn (o + i) (by omega)
  | struct fields =>
    rw [hT] at ht; simp only at ht ⊢
    obtain ⟨h1, h2, h3⟩ := ht
    refine ⟨h1, ?_, ?_⟩
    · rw [hc]
      refine fieldsMatch_mono ?_ _ _ h2
      intro a b hab
      simp only [Bool.and_eq_true, decide_eq_true_eq] at hab ⊢
      exact ⟨hab.1, by rw [hoff, hlen]; omega⟩
    · rw [hc]
      refine fieldsMatch_mono ?_ _ _ h3
      intro a b hab
      simp only [Bool.or_eq_true] at hab ⊢
      rcases hab with hab | hab
      · left; exact hab
      · right
        rw [allBelow_iff] at hab ⊢
        intro i hi
        rw [hlen] at hi
        rw [childValid_slice]
        exact hab (o + i) (by omega)
  | dict kw signed value =>
    rw [hT] at ht; simp only at ht ⊢
    obtain ⟨keys, v, h1, h2, h3, h4, h5, h6⟩ := ht
    refine ⟨keys, v, h1, h2, h3, h4, ?_, ?_⟩
    · rw [hoff, hlen]
      exact Nat.le_trans (Nat.mul_le_mul_right kw (by omega)) h5
    · intro i hi hv
      rw [hlen] at hi
      rw [slice_isValid] at hv
      have := h6 (o + i) (by omega) hv
      rw [hoff, Nat.add_assoc]; exact this
  | ree rw value =>
    rw [hT] at ht; simp only at ht ⊢
    obtain ⟨h1, h2, re, vals, h3, h4, h5, h6, h7, h8, h9, last, h10, h11⟩ := ht
    refine ⟨by simp [slice, h1], h2, re, vals, h3, h4, h5, h6, h7, h8, h9, last, h10, ?_⟩
    rw [hoff, hlen]
    omega
  | union dense fields =>
    rw [hT] at ht; simp only at ht ⊢
    obtain ⟨h1, h2, ids, offs, h3, h4, h5, h6⟩ := ht
    refine ⟨by simp [slice, h1], ?_, ids, offs, h3, ?_, ?_, ?_⟩
    · rw [hc]
      refine fieldsMatch_mono ?_ _ _ h2
      intro a b hab
      simp only [Bool.and_eq_true, Bool.or_eq_true, decide_eq_true_eq] at hab ⊢
      refine ⟨hab.1, ?_⟩
      rcases hab.2 with h | h
      · left; exact h
      · right; rw [hoff, hlen]; omega
    · rw [hoff, hlen]; omega
    · intro hd; rw [hoff, hlen]; have := h5 hd; omega
    · intro i hi
      rw [hlen] at hi
      have := h6 (o + i) (by omega)
      rw [hoff, hc, Nat.add_assoc]; exact this



/-! ### prefix sums (offset construction of take_bytes / filter_bytes) -/

theorem prefixSums_length (s : Nat) (ls : List Nat) : (prefixSums s ls).length = ls.length + 1 := by
  induction ls generalizing s with
  | nil => rfl
  | cons l ls ih => simp [prefixSums, ih]

theorem prefixSums_head (s : Nat) (ls : List Nat) : (prefixSums s ls).head? = some s := by
  cases ls <;> rfl

theorem prefixSums_getLast (s : Nat) (ls : List Nat) : (prefixSums s ls).getLast? = some (s + ls.sum) := by
  induction ls generalizing s with
  | nil => rfl
  | cons l ls ih =>
    have h := ih (s + l)
    cases hps : prefixSums (s + l) ls with
    | nil => rw [hps] at h; simp at h
    | cons a r =>
      rw [hps] at h
      simp only [prefixSums, hps, List.getLast?_cons_cons, List.sum_cons]
      rw [h]; congr 1; omega

/-- element `i` of the running sums is `s +` the sum of the first `i` lengths -/
theorem prefixSums_get (s : Nat) (ls : List Nat) (i : Nat) (hi : i ≤ ls.length) :
    (prefixSums s ls)[i]? = some (s + (ls.take i).sum) := by
  induction ls generalizing s i with
  | nil => have : i = 0 := by simpa using hi
           subst this; rfl
  | cons l ls ih =>
    cases i with
    | zero => simp [prefixSums]
    | succ i =>
      simp only [prefixSums, List.getElem?_cons_succ, List.take_succ_cons, List.sum_cons]
      rw [ih (s + l) i (by simpa using hi)]
      congr 1; omega

/-- consecutive running sums are ordered and differ by the slot length -/
theorem prefixSums_step (s : Nat) (ls : List Nat) (i : Nat) (hi : i < ls.length) :
    ∃ a b, (prefixSums s ls)[i]? = some a ∧ (prefixSums s ls)[i + 1]? = some b ∧ a ≤ b ∧ b = a + ls[i] ∧ b ≤ s + ls.sum := by
  refine ⟨_, _, prefixSums_get s ls i (by omega), prefixSums_get s ls (i + 1) (by omega), ?_, ?_, ?_⟩
  · have h : (ls.take (i + 1)).sum = (ls.take i).sum + ls[i] := by
      rw [List.take_add_one, List.sum_append, List.getElem?_eq_getElem hi]; simp
    omega
  · have h : (ls.take (i + 1)).sum = (ls.take i).sum + ls[i] := by
      rw [List.take_add_one, List.sum_append, List.getElem?_eq_getElem hi]; simp
    omega
  · have : ls.sum = (ls.take (i + 1)).sum + (ls.drop (i + 1)).sum := by
      rw [← List.sum_append, List.take_append_drop]
    omega

/-! ### counting -/

theorem range_filter_count (bs : List Bool) : ∀ n, n ≤ bs.length →
    ((List.range n).filter (fun i => bs[i]? = some true)).length = (bs.take n).count true
  | 0, _ => by simp
  | n + 1, h => by
    have ih := range_filter_count bs n (by omega)
    rw [List.range_succ, List.filter_append, List.length_append, ih, List.take_add_one, List.count_append]
    have hn : n < bs.length := by omega
    have hg : bs[n]? = some bs[n] := List.getElem?_eq_getElem hn
    simp only [hg, Option.toList_some]
    cases hb : bs[n] <;> simp [List.filter, hg, hb]

theorem maskIndices_length (mask : List Bool) : (maskIndices mask).length = mask.count true := by
  unfold maskIndices
  have := range_filter_count mask mask.length (Nat.le_refl _)
  simp only [List.take_length] at this
  simpa using this


end ArrowModel.C01
