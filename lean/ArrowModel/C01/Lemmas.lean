import ArrowModel.C09.Lemmas
import ArrowModel.C01.Model
/-
C01 helper lemmas: slicing one node, prefix sums, offset rebasing, bitmap packing / null counting.
-/
namespace ArrowModel.C01
open ArrowModel.Physical

theorem slice_isValid (d : ArrayData) (o l i : Nat) : (slice d o l).isValid i = d.isValid (o + i) := by
  unfold ArrayData.isValid ArrayData.validAt slice
  cases d.nulls <;> simp [Nulls.slice, Nat.add_assoc]

theorem nullsOk_slice {d : ArrayData} (h : NullsOk d) (o l : Nat) (hol : o + l ≤ d.len) : NullsOk (slice d o l) := by
  unfold NullsOk slice at *
  cases hn : d.nulls with
  | none => simp
  | some n =>
    rw [hn] at h
    simp only [Option.map_some, Nulls.slice]
    have := h.2.1
    refine ⟨?_, ?_, ?_⟩ <;> first | rfl | trivial | omega

theorem childValid_slice (d c : ArrayData) (k o l i : Nat) :
    childValidWhereParentValid (slice d o l) c k i = childValidWhereParentValid d c k (o + i) := by
  unfold childValidWhereParentValid
  rw [slice_isValid]
  simp [slice, Nat.add_assoc]

theorem fieldsMatch_mono {f g : Field → ArrayData → Bool} (h : ∀ a b, f a b = true → g a b = true) :
    ∀ (fs : List Field) (cs : List ArrayData), fieldsMatch f fs cs = true → fieldsMatch g fs cs = true
  | [], [], _ => rfl
  | [], _ :: _, h' => by simp [fieldsMatch] at h'
  | _ :: _, [], h' => by simp [fieldsMatch] at h'
  | a :: fs, c :: cs, h' => by
    simp only [fieldsMatch, Bool.and_eq_true] at h' ⊢
    exact ⟨h _ _ h'.1, fieldsMatch_mono h fs cs h'.2⟩

theorem localWF_slice {d : ArrayData} (h : LocalWF d) (o l : Nat) (hol : o + l ≤ d.len) : LocalWF (slice d o l) := by
  obtain ⟨hn, ht⟩ := h
  refine ⟨nullsOk_slice hn o l hol, ?_⟩
  have hty : (slice d o l).type = d.type := rfl
  have hb : (slice d o l).buffers = d.buffers := rfl
  have hc : (slice d o l).children = d.children := rfl
  have hoff : (slice d o l).offset = d.offset + o := rfl
  have hlen : (slice d o l).len = l := rfl
  rw [hty]
  cases hT : d.type with
  | null =>
    rw [hT] at ht; simp only at ht ⊢
    refine ⟨?_, ht.2.1, ht.2.2⟩
    simp [slice, ht.1]
  | bool =>
    rw [hT] at ht; simp only at ht ⊢
    obtain ⟨h1, b, h2, h3⟩ := ht
    exact ⟨h1, b, h2, by rw [hoff, hlen]; omega⟩
  | prim w =>
    rw [hT] at ht; simp only at ht ⊢
    obtain ⟨h1, b, h2, h3⟩ := ht
    refine ⟨h1, b, h2, ?_⟩
    rw [hoff, hlen]
    exact Nat.le_trans (Nat.mul_le_mul_right w (by omega)) h3
  | fsb w =>
    rw [hT] at ht; simp only at ht ⊢
    obtain ⟨h1, b, h2, h3⟩ := ht
    refine ⟨h1, b, h2, ?_⟩
    rw [hoff, hlen]
    exact Nat.le_trans (Nat.mul_le_mul_right w (by omega)) h3
  | view u =>
    rw [hT] at ht; simp only at ht ⊢
    obtain ⟨h1, views, datas, h2, h3, h4⟩ := ht
    refine ⟨h1, views, datas, h2, ?_, ?_⟩
    · rw [hoff, hlen]
      exact Nat.le_trans (Nat.mul_le_mul_right 16 (by omega)) h3
    · intro i hi
      rw [hlen] at hi
      have := h4 (o + i) (by omega)
      rw [hoff, Nat.add_assoc]; exact this
  | binary large =>
    rw [hT] at ht; simp only at ht ⊢
    obtain ⟨h1, offs, data, h2, h3⟩ := ht
    refine ⟨h1, offs, data, h2, ?_⟩
    rw [hoff, hlen]
    rcases h3 with ⟨h0, he⟩ | h3
    · left; exact ⟨by omega, he⟩
    · right; intro i hi
      have := h3 (o + i) (by omega)
      rwa [Nat.add_assoc]
  | utf8 large =>
    rw [hT] at ht; simp only at ht ⊢
    obtain ⟨h1, offs, data, h2, h3⟩ := ht
    refine ⟨h1, offs, data, h2, ?_⟩
    rw [hoff, hlen]
    rcases h3 with ⟨h0, he⟩ | h3
    · left; exact ⟨by omega, he⟩
    · right; intro i hi
      have := h3 (o + i) (by omega)
      rwa [Nat.add_assoc]
  | list large item nullable =>
    rw [hT] at ht; simp only at ht ⊢
    obtain ⟨offs, c, h1, h2, h3, h4, h5⟩ := ht
    refine ⟨offs, c, h1, h2, h3, ?_, h5⟩
    rw [hoff, hlen]
    rcases h4 with ⟨h0, he⟩ | h4
    · left; exact ⟨by omega, he⟩
    · right; intro i hi
      have := h4 (o + i) (by omega)
      rwa [Nat.add_assoc]
  | fsl n item nullable =>
    rw [hT] at ht; simp only at ht ⊢
    obtain ⟨h1, c, h2, h3, h4, h5⟩ := ht
    refine ⟨h1, c, h2, h3, ?_, ?_⟩
    · rw [hoff, hlen]
      exact Nat.le_trans (Nat.mul_le_mul_right n (by omega)) h4
    · intro hn i hi
      rw [hlen] at hi
      rw [childValid_slice]
      exact h5 hn (o + i) (by omega)
  | struct fields =>
    rw [hT] at ht; simp only at ht ⊢
    obtain ⟨h1, h2, h3⟩ := ht
    refine ⟨h1, ?_, ?_⟩
    · rw [hc]
      refine fieldsMatch_mono ?_ _ _ h2
      intro a b hab
      simp only [Bool.and_eq_true, decide_eq_true_eq] at hab ⊢
      exact ⟨hab.1, by rw [hoff, hlen]; omega⟩
    · rw [hc]
      refine fieldsMatch_mono ?_ _ _ h3
      intro a b hab
      simp only [Bool.or_eq_true] at hab ⊢
      rcases hab with hab | hab
      · left; exact hab
      · right
        rw [allBelow_iff] at hab ⊢
        intro i hi
        rw [hlen] at hi
        rw [childValid_slice]
        exact hab (o + i) (by omega)
  | dict kw signed value =>
    rw [hT] at ht; simp only at ht ⊢
    obtain ⟨keys, v, h1, h2, h3, h4, h5, h6⟩ := ht
    refine ⟨keys, v, h1, h2, h3, h4, ?_, ?_⟩
    · rw [hoff, hlen]
      exact Nat.le_trans (Nat.mul_le_mul_right kw (by omega)) h5
    · intro i hi hv
      rw [hlen] at hi
      rw [slice_isValid] at hv
      have := h6 (o + i) (by omega) hv
      rw [hoff, Nat.add_assoc]; exact this
  | ree rw value =>
    rw [hT] at ht; simp only at ht ⊢
    obtain ⟨h1, h2, re, vals, h3, h4, h5, h6, h7, h8, h9, last, h10, h11⟩ := ht
    refine ⟨by simp [slice, h1], h2, re, vals, h3, h4, h5, h6, h7, h8, h9, last, h10, ?_⟩
    rw [hoff, hlen]
    omega
  | union dense fields =>
    rw [hT] at ht; simp only at ht ⊢
    obtain ⟨h1, h2, ids, offs, h3, h4, h5, h6⟩ := ht
    refine ⟨by simp [slice, h1], ?_, ids, offs, h3, ?_, ?_, ?_⟩
    · rw [hc]
      refine fieldsMatch_mono ?_ _ _ h2
      intro a b hab
      simp only [Bool.and_eq_true, Bool.or_eq_true, decide_eq_true_eq] at hab ⊢
      refine ⟨hab.1, ?_⟩
      rcases hab.2 with h | h
      · left; exact h
      · right; rw [hoff, hlen]; omega
    · rw [hoff, hlen]; omega
    · intro hd; rw [hoff, hlen]; have := h5 hd; omega
    · intro i hi
      rw [hlen] at hi
      have := h6 (o + i) (by omega)
      rw [hoff, hc, Nat.add_assoc]; exact this



/-! ### prefix sums (offset construction of take_bytes / filter_bytes) -/

theorem prefixSums_length (s : Nat) (ls : List Nat) : (prefixSums s ls).length = ls.length + 1 := by
  induction ls generalizing s with
  | nil => rfl
  | cons l ls ih => simp [prefixSums, ih]

theorem prefixSums_head (s : Nat) (ls : List Nat) : (prefixSums s ls).head? = some s := by
  cases ls <;> rfl

theorem prefixSums_getLast (s : Nat) (ls : List Nat) : (prefixSums s ls).getLast? = some (s + ls.sum) := by
  induction ls generalizing s with
  | nil => rfl
  | cons l ls ih =>
    have h := ih (s + l)
    cases hps : prefixSums (s + l) ls with
    | nil => rw [hps] at h; simp at h
    | cons a r =>
      rw [hps] at h
      simp only [prefixSums, hps, List.getLast?_cons_cons, List.sum_cons]
      rw [h]; congr 1; omega

/-- element `i` of the running sums is `s +` the sum of the first `i` lengths -/
theorem prefixSums_get (s : Nat) (ls : List Nat) (i : Nat) (hi : i ≤ ls.length) :
    (prefixSums s ls)[i]? = some (s + (ls.take i).sum) := by
  induction ls generalizing s i with
  | nil => have : i = 0 := by simpa using hi
           subst this; rfl
  | cons l ls ih =>
    cases i with
    | zero => simp [prefixSums]
    | succ i =>
      simp only [prefixSums, List.getElem?_cons_succ, List.take_succ_cons, List.sum_cons]
      rw [ih (s + l) i (by simpa using hi)]
      congr 1; omega

/-- consecutive running sums are ordered and differ by the slot length -/
theorem prefixSums_step (s : Nat) (ls : List Nat) (i : Nat) (hi : i < ls.length) :
    ∃ a b, (prefixSums s ls)[i]? = some a ∧ (prefixSums s ls)[i + 1]? = some b ∧ a ≤ b ∧ b = a + ls[i] ∧ b ≤ s + ls.sum := by
  refine ⟨_, _, prefixSums_get s ls i (by omega), prefixSums_get s ls (i + 1) (by omega), ?_, ?_, ?_⟩
  · have h : (ls.take (i + 1)).sum = (ls.take i).sum + ls[i] := by
      rw [List.take_add_one, List.sum_append, List.getElem?_eq_getElem hi]; simp
    omega
  · have h : (ls.take (i + 1)).sum = (ls.take i).sum + ls[i] := by
      rw [List.take_add_one, List.sum_append, List.getElem?_eq_getElem hi]; simp
    omega
  · have : ls.sum = (ls.take (i + 1)).sum + (ls.drop (i + 1)).sum := by
      rw [← List.sum_append, List.take_append_drop]
    omega

/-! ### counting -/

theorem range_filter_count (bs : List Bool) : ∀ n, n ≤ bs.length →
    ((List.range n).filter (fun i => bs[i]? = some true)).length = (bs.take n).count true
  | 0, _ => by simp
  | n + 1, h => by
    have ih := range_filter_count bs n (by omega)
    rw [List.range_succ, List.filter_append, List.length_append, ih, List.take_add_one, List.count_append]
    have hn : n < bs.length := by omega
    have hg : bs[n]? = some bs[n] := List.getElem?_eq_getElem hn
    simp only [hg, Option.toList_some]
    cases hb : bs[n] <;> simp [List.filter, hg, hb]

theorem maskIndices_length (mask : List Bool) : (maskIndices mask).length = mask.count true := by
  unfold maskIndices
  have := range_filter_count mask mask.length (Nat.le_refl _)
  simp only [List.take_length] at this
  simpa using this



/-! ### little-endian encode / checked read round trip -/

theorem encLE_length (w v : Nat) : (encLE w v).length = w := by
  induction w generalizing v with
  | zero => rfl
  | succ w ih => simp [encLE, ih]

theorem readLE_append_right (pre bs : List Nat) (p w : Nat) :
    readLE (pre ++ bs) (pre.length + p) w = readLE bs p w := by
  induction w generalizing p with
  | zero => rfl
  | succ w ih =>
    simp only [readLE]
    rw [List.getElem?_append_right (by omega), show pre.length + p - pre.length = p by omega,
      show pre.length + p + 1 = pre.length + (p + 1) by omega, ih]

theorem readLE_encLE (w v : Nat) (post : List Nat) : readLE (encLE w v ++ post) 0 w = some (v % 2 ^ (8 * w)) := by
  induction w generalizing v with
  | zero => simp [readLE, Nat.mod_one]
  | succ w ih =>
    simp only [encLE, readLE, List.cons_append, List.getElem?_cons_zero]
    have h := readLE_append_right [v % 256] (encLE w (v / 256) ++ post) 0 w
    simp only [List.singleton_append, List.length_singleton, Nat.add_zero] at h
    rw [show (0 : Nat) + 1 = 1 by rfl, h, ih]
    simp only [Nat.mod_mod]
    congr 1
    rw [show 8 * (w + 1) = 8 + 8 * w by omega, Nat.pow_add, show (2 : Nat) ^ 8 = 256 by rfl, Nat.mod_mul]

theorem encInts_length (w : Nat) (xs : List Nat) : (encInts w xs).length = xs.length * w := by
  induction xs with
  | nil => simp [encInts]
  | cons x xs ih => simp [encInts, encLE_length, ih, Nat.add_mul]; omega

theorem readLE_encInts (w : Nat) (xs : List Nat) (i : Nat) (hi : i < xs.length) :
    readLE (encInts w xs) (i * w) w = some (xs[i] % 2 ^ (8 * w)) := by
  induction xs generalizing i with
  | nil => simp at hi
  | cons x xs ih =>
    cases i with
    | zero => simp only [encInts, Nat.zero_mul, List.getElem_cons_zero]; exact readLE_encLE w x _
    | succ i =>
      simp only [encInts, List.getElem_cons_succ]
      have h := readLE_append_right (encLE w x) (encInts w xs) (i * w) w
      rw [encLE_length] at h
      rw [show (i + 1) * w = w + i * w by rw [Nat.add_mul]; omega, h]
      exact ih i (by simpa using hi)

/-- reading slot `i` of an encoded offsets buffer gives back the offset, if it fits the signed width -/
theorem readInt_encInts (w : Nat) (xs : List Nat) (i : Nat) (hi : i < xs.length) (hfit : 2 * xs[i] < 2 ^ (8 * w)) :
    readInt (encInts w xs) w true i = some (xs[i] : Int) := by
  unfold readInt
  rw [readLE_encInts w xs i hi]
  have : xs[i] % 2 ^ (8 * w) = xs[i] := Nat.mod_eq_of_lt (by omega)
  simp [this, toSigned, hfit]


/-! ### bitmap packing and null counting -/

theorem bitNat_lt (bits : List Bool) (i : Nat) : bitNat bits i < 2 := by
  unfold bitNat; split <;> omega

theorem testBit_cons_zero (b x : Nat) (hb : b < 2) : (b + 2 * x).testBit 0 = decide (b = 1) := by
  rw [Nat.testBit_zero]
  have : (b + 2 * x) % 2 = b := by omega
  rw [this]

theorem testBit_cons_succ (b x j : Nat) (hb : b < 2) : (b + 2 * x).testBit (j + 1) = x.testBit j := by
  rw [Nat.testBit_succ]
  have : (b + 2 * x) / 2 = x := by omega
  rw [this]

theorem bitNat_eq_one (bits : List Bool) (i : Nat) : decide (bitNat bits i = 1) = decide (bits[i]? = some true) := by
  unfold bitNat; split <;> simp_all

theorem packByte_testBit (bits : List Bool) (k j : Nat) (hj : j < 8) :
    (packByte bits k).testBit j = decide (bits[8 * k + j]? = some true) := by
  unfold packByte
  have h0 := bitNat_lt bits (8 * k)
  have h1 := bitNat_lt bits (8 * k + 1)
  have h2 := bitNat_lt bits (8 * k + 2)
  have h3 := bitNat_lt bits (8 * k + 3)
  have h4 := bitNat_lt bits (8 * k + 4)
  have h5 := bitNat_lt bits (8 * k + 5)
  have h6 := bitNat_lt bits (8 * k + 6)
  have h7 := bitNat_lt bits (8 * k + 7)
  have e7 : 2 * bitNat bits (8 * k + 7) = bitNat bits (8 * k + 7) + 2 * bitNat bits (8 * k + 7) / 2 := by omega
  rcases (by omega : j = 0 ∨ j = 1 ∨ j = 2 ∨ j = 3 ∨ j = 4 ∨ j = 5 ∨ j = 6 ∨ j = 7) with h | h | h | h | h | h | h | h <;> subst h
  · rw [testBit_cons_zero _ _ h0, bitNat_eq_one]; rfl
  · rw [testBit_cons_succ _ _ _ h0, testBit_cons_zero _ _ h1, bitNat_eq_one]
  · rw [testBit_cons_succ _ _ _ h0, testBit_cons_succ _ _ _ h1, testBit_cons_zero _ _ h2, bitNat_eq_one]
  · rw [testBit_cons_succ _ _ _ h0, testBit_cons_succ _ _ _ h1, testBit_cons_succ _ _ _ h2, testBit_cons_zero _ _ h3, bitNat_eq_one]
  · rw [testBit_cons_succ _ _ _ h0, testBit_cons_succ _ _ _ h1, testBit_cons_succ _ _ _ h2, testBit_cons_succ _ _ _ h3,
      testBit_cons_zero _ _ h4, bitNat_eq_one]
  · rw [testBit_cons_succ _ _ _ h0, testBit_cons_succ _ _ _ h1, testBit_cons_succ _ _ _ h2, testBit_cons_succ _ _ _ h3,
      testBit_cons_succ _ _ _ h4, testBit_cons_zero _ _ h5, bitNat_eq_one]
  · rw [testBit_cons_succ _ _ _ h0, testBit_cons_succ _ _ _ h1, testBit_cons_succ _ _ _ h2, testBit_cons_succ _ _ _ h3,
      testBit_cons_succ _ _ _ h4, testBit_cons_succ _ _ _ h5, testBit_cons_zero _ _ h6, bitNat_eq_one]
  · rw [testBit_cons_succ _ _ _ h0, testBit_cons_succ _ _ _ h1, testBit_cons_succ _ _ _ h2, testBit_cons_succ _ _ _ h3,
      testBit_cons_succ _ _ _ h4, testBit_cons_succ _ _ _ h5, testBit_cons_succ _ _ _ h6]
    have := testBit_cons_zero (bitNat bits (8 * k + 7)) 0 h7
    simp only [Nat.mul_zero, Nat.add_zero] at this
    rw [this, bitNat_eq_one]

theorem packBits_length (bits : List Bool) : (packBits bits).length = (bits.length + 7) / 8 := by
  simp [packBits]

/-- **bit `i` of the packed bitmap is `bits[i]`** (LSB-first, as `BooleanBufferBuilder` writes it) -/
theorem bitAt_packBits (bits : List Bool) (i : Nat) (hi : i < bits.length) :
    bitAt (packBits bits) i = some bits[i] := by
  unfold bitAt packBits
  have hk : i / 8 < (bits.length + 7) / 8 := by omega
  rw [List.getElem?_map, List.getElem?_range hk]
  simp only [Option.map_some]
  rw [packByte_testBit bits (i / 8) (i % 8) (Nat.mod_lt _ (by omega)), show 8 * (i / 8) + i % 8 = i by omega,
    List.getElem?_eq_getElem hi]
  cases bits[i] <;> simp

theorem count_false_eq (bs : List Bool) : bs.count false = bs.length - bs.count true := by
  induction bs with
  | nil => rfl
  | cons b bs ih =>
    have := List.count_le_length (a := true) (l := bs)
    cases b <;> simp [List.count_cons, ih] <;> omega

theorem range_filter_count_false (bs : List Bool) : ∀ n, n ≤ bs.length →
    ((List.range n).filter (fun i => bs[i]? != some true)).length = (bs.take n).count false
  | 0, _ => by simp
  | n + 1, h => by
    have ih := range_filter_count_false bs n (by omega)
    rw [List.range_succ, List.filter_append, List.length_append, ih, List.take_add_one, List.count_append]
    have hn : n < bs.length := by omega
    have hg : bs[n]? = some bs[n] := List.getElem?_eq_getElem hn
    simp only [hg, Option.toList_some]
    cases hb : bs[n] <;> simp [List.filter, hg, hb] <;> rfl

/-- **null count of `filter_nulls` / `take_nulls`** (`count − popcount`): the number of unset bits
among the `len` bits of the packed bitmap is `len − (number of valid slots)` -/
theorem countNulls_packBits (bits : List Bool) :
    countNulls (packBits bits) 0 bits.length = bits.length - bits.count true := by
  unfold countNulls
  rw [← count_false_eq]
  have h := range_filter_count_false bits bits.length (Nat.le_refl _)
  rw [List.take_length] at h
  rw [← h]
  congr 1
  apply List.filter_congr
  intro i hi
  have hi' : i < bits.length := by simpa using hi
  rw [Nat.zero_add, bitAt_packBits bits i hi', List.getElem?_eq_getElem hi']

/-- an array whose validity is `mkNulls bits` over `bits.length` slots satisfies the bitmap rule
(exact null count, bitmap covers the slots) -/
theorem nullsOk_mkNulls (d : ArrayData) (bits : List Bool) (hl : d.len = bits.length) (hn : d.nulls = mkNulls bits) :
    NullsOk d := by
  unfold NullsOk
  rw [hn]
  unfold mkNulls
  by_cases h0 : bits.length - bits.count true = 0
  · simp [h0]
  · simp only [h0, if_false]
    refine ⟨hl.symm, ?_, ?_⟩
    · simp only [packBits_length]; omega
    · exact (countNulls_packBits bits).symm


/-! ### leaf arrays, slot lengths, flattening -/

theorem wellFormed_leaf : ∀ (d : ArrayData), d.children = [] → (WellFormed d ↔ LocalWF d)
  | ⟨t, l, o, n, bs, cs⟩, h => by
    simp only at h
    subst h
    simp [WellFormed, WellFormedAll]

theorem sliceChecked_length {α} {xs r : List α} {a b : Nat} (h : sliceChecked xs a b = some r) : r.length = b - a := by
  unfold sliceChecked at h
  split at h
  · cases h; simp; omega
  · cases h

theorem fixedSlot_length (b : List Nat) (w off : Nat) (i : Option Nat) : (fixedSlot b w off i).length = w := by
  unfold fixedSlot
  cases i with
  | none => simp
  | some i =>
    simp only
    cases h : readBytes b w (off + i) with
    | none => simp
    | some r =>
      unfold readBytes at h
      have := sliceChecked_length h
      simp only [Option.getD_some]; omega

theorem flatten_length_const {α β} (f : α → List β) (w : Nat) (hf : ∀ x, (f x).length = w) (l : List α) :
    (l.map f).flatten.length = l.length * w := by
  induction l with
  | nil => simp
  | cons x l ih => simp [hf, ih, Nat.add_mul]; omega

/-- slot `i` of a flattened list of slots sits at the running sum of the earlier lengths -/
theorem flatten_slot {α} (vs : List (List α)) (i : Nat) (hi : i < vs.length) :
    (vs.flatten.drop ((vs.take i).map List.length).sum).take (vs[i].length) = vs[i] := by
  induction vs generalizing i with
  | nil => simp at hi
  | cons v vs ih =>
    cases i with
    | zero => simp
    | succ i =>
      simp only [List.take_succ_cons, List.map_cons, List.sum_cons, List.flatten_cons, List.getElem_cons_succ]
      rw [List.drop_append, List.drop_eq_nil_of_le (Nat.le_add_right _ _), List.nil_append, Nat.add_sub_cancel_left]
      exact ih i (by simpa using hi)


end ArrowModel.C01
