import ArrowModel.C09.Physical
/-
C01 specification: *every array returned by a safe API is a well-formed Arrow array*.

The property statement appeals to the shared layout library `ArrowModel.Physical`
(`C09/Physical.lean`, written from the Arrow columnar format specification):

* `WellFormed d`   – the layout rules (buffer sizes for `offset+len`, monotone in-range offsets,
                     UTF-8 validity, in-range dictionary keys, declared union type ids and dense
                     offsets in child range, strictly increasing run ends covering `offset+len`,
                     child lengths, exact null counts, the non-nullable-child rule);
* `wellFormedB d`  – its executable form (`wellFormedB_iff`, C09), the *runtime validator* the
                     harness sends every produced array to;
* `decode d`       – the accessor model: reads buffers only through checked `get?`, so
                     `decode d = some _` means that no accessor reads outside a buffer.

This file adds the two notions the C01 statement needs on top:

* `SafeAccess d`   – "no sequence of safe calls can read outside a buffer", stated for the accessor
                     model: the abstraction function succeeds and yields exactly `len` rows;
* list-level specifications of the kernels whose `*_unchecked` construction sites are modelled
  physically in `Model.lean` (`selectSpec`, `concatSpec`): the value of output slot `j` is the
  value of the selected input slot.
-/
namespace ArrowModel.C01
open ArrowModel.Physical

/-- every index the accessor model dereferences is in bounds, and the array denotes `len` rows -/
def SafeAccess (d : ArrayData) : Prop := ∃ c, decode d = some c ∧ c.length = d.len

/-- executable form of `SafeAccess` -/
def safeAccessB (d : ArrayData) : Bool :=
  match decode d with
  | some c => c.length == d.len
  | none => false

/-- list-level specification of `take` / `filter` on a column of optional values:
output slot `j` is input slot `idx[j]` (a `none` index gives a null). -/
def selectSpec {α} (col : List (Option α)) (idx : List (Option Nat)) : List (Option α) :=
  idx.map (fun i => match i with
    | none => none
    | some i => (col[i]?).join)

/-- list-level specification of `concat` -/
def concatSpec {α} (cols : List (List (Option α))) : List (Option α) := cols.flatten

/-- running sums `[s, s+l₀, s+l₀+l₁, …]`: what an offsets buffer of slots with lengths `ls` is -/
def prefixSums (s : Nat) : List Nat → List Nat
  | [] => [s]
  | l :: ls => s :: prefixSums (s + l) ls

end ArrowModel.C01
