import ArrowModel.C09.Lemmas
import ArrowModel.Generated.C01
/-
C01 extension of the shared layout library: the **view layouts** `Utf8View` / `BinaryView`
(not in C09's `DType`).  Written from the Arrow columnar format ("Variable-size Binary View Layout"):

* buffer 0 holds one 16-byte view per slot; the other buffers are data buffers;
* a view starts with the value length as a little-endian `u32`;
* length ≤ 12 (`MAX_INLINE_VIEW_LEN`, regenerated from the source): the value bytes follow inline and
  the remaining bytes up to 16 are zero padding;
* length > 12: 4 prefix bytes, then the data buffer index and the offset (both `u32`); the index
  addresses an existing data buffer, `offset + length` is inside it, and the prefix equals the first four
  value bytes;
* `Utf8View`: the value bytes are well-formed UTF-8;
* the validity bitmap rule is the one of every other layout (`NullsOk`).

As for `Utf8` the per-slot rule is required of every slot, valid or null (the Rust accessor `value(i)`
does not consult the bitmap; `validate_full` checks every view as well).

The array is carried in a `Physical.ArrayData` whose `type` field is ignored (the C09 dump parser has no
view token; the driver parses the dump with the token replaced).
-/
namespace ArrowModel.PhysicalExt
open ArrowModel.Physical

/-- inline limit, tied to `arrow-data/src/byte_view.rs` -/
def maxInline : Nat := ArrowModel.Generated.C01.MAX_INLINE_VIEW_LEN

/-- the view at physical position `p` is well-formed w.r.t. the data buffers `bufs` -/
def viewOk (utf8 : Bool) (views : List Nat) (bufs : List (List Nat)) (p : Nat) : Bool :=
  match readLE views (16 * p) 4, sliceChecked views (16 * p) (16 * p + 16) with
  | some len, some bytes =>
    if len ≤ maxInline then
      -- inline: value bytes then zero padding
      ((bytes.drop (4 + len)).all (· % 256 == 0)) && (!utf8 || utf8Valid ((bytes.drop 4).take len))
    else
      match readLE views (16 * p + 8) 4, readLE views (16 * p + 12) 4 with
      | some bi, some off =>
        match bufs[bi]? with
        | some data =>
          match sliceChecked data off (off + len) with
          | some v => (v.take 4 == (bytes.drop 4).take 4) && (!utf8 || utf8Valid v)
          | none => false
        | none => false
      | _, _ => false
  | _, _ => false

/-- **specification predicate for a view array** -/
def ViewWF (utf8 : Bool) (d : ArrayData) : Prop :=
  NullsOk d ∧ d.children = [] ∧ ∃ views bufs, d.buffers = views :: bufs ∧
    (d.offset + d.len) * 16 ≤ views.length ∧
    ∀ i, i < d.len → viewOk utf8 views bufs (d.offset + i) = true

/-- executable form -/
def viewWFB (utf8 : Bool) (d : ArrayData) : Bool :=
  nullsOkB d && d.children.isEmpty &&
  match d.buffers with
  | views :: bufs =>
    decide ((d.offset + d.len) * 16 ≤ views.length) &&
    allBelow d.len (fun i => viewOk utf8 views bufs (d.offset + i))
  | [] => false

/-- **the executable view validator decides the specification predicate** -/
theorem viewWFB_iff (utf8 : Bool) (d : ArrayData) : viewWFB utf8 d = true ↔ ViewWF utf8 d := by
  unfold viewWFB ViewWF
  rw [Bool.and_eq_true, Bool.and_eq_true, nullsOkB_iff, list_isEmpty_iff, and_assoc]
  apply and_congr Iff.rfl
  apply and_congr Iff.rfl
  cases hb : d.buffers with
  | nil => simp
  | cons views bufs =>
    simp only [Bool.and_eq_true, decide_eq_true_eq, allBelow_iff, List.cons.injEq]
    constructor
    · rintro ⟨h1, h2⟩; exact ⟨views, bufs, ⟨rfl, rfl⟩, h1, h2⟩
    · rintro ⟨_, _, ⟨rfl, rfl⟩, h1, h2⟩; exact ⟨h1, h2⟩

/-- a well-formed long view addresses an existing data buffer and stays inside it
(the "in-bounds view references" clause of the property, for the accessor that follows the view) -/
theorem viewOk_in_bounds (utf8 : Bool) (views : List Nat) (bufs : List (List Nat)) (p len : Nat)
    (h : viewOk utf8 views bufs p = true) (hl : readLE views (16 * p) 4 = some len) (hlong : maxInline < len) :
    ∃ bi off data, readLE views (16 * p + 8) 4 = some bi ∧ readLE views (16 * p + 12) 4 = some off ∧
      bufs[bi]? = some data ∧ off + len ≤ data.length := by
  unfold viewOk at h
  rw [hl] at h
  cases hs : sliceChecked views (16 * p) (16 * p + 16) with
  | none => rw [hs] at h; simp at h
  | some bytes =>
    rw [hs] at h
    simp only at h
    rw [if_neg (by omega)] at h
    cases hbi : readLE views (16 * p + 8) 4 with
    | none => rw [hbi] at h; simp at h
    | some bi =>
      cases hoff : readLE views (16 * p + 12) 4 with
      | none => rw [hbi, hoff] at h; simp at h
      | some off =>
        rw [hbi, hoff] at h
        simp only at h
        cases hd : bufs[bi]? with
        | none => rw [hd] at h; simp at h
        | some data =>
          rw [hd] at h
          simp only at h
          cases hv : sliceChecked data off (off + len) with
          | none => rw [hv] at h; simp at h
          | some v =>
            refine ⟨bi, off, data, rfl, rfl, hd, ?_⟩
            unfold sliceChecked at hv
            split at hv
            · omega
            · cases hv

/-- the source constants / expression shapes this check relies on are the ones the models were written
against (regenerated from /repo on every run by `tools/items/C01.py`; an edit makes this fail) -/
theorem source_ties_intact :
    ArrowModel.Generated.C01.MAX_INLINE_VIEW_LEN_lost = false ∧ ArrowModel.Generated.C01.MAX_INLINE_VIEW_LEN = 12 ∧
    ArrowModel.Generated.C01.FILTER_NULLS_POPCOUNT_START_lost = false ∧ ArrowModel.Generated.C01.FILTER_NULLS_POPCOUNT_START = 0 ∧
    ArrowModel.Generated.C01.FILTER_NULLS_BITMAP_OFFSET_lost = false ∧ ArrowModel.Generated.C01.FILTER_NULLS_BITMAP_OFFSET = 0 ∧
    ArrowModel.Generated.C01.FILTER_BYTES_FIRST_OFFSET_lost = false ∧ ArrowModel.Generated.C01.FILTER_BYTES_FIRST_OFFSET = 0 ∧
    ArrowModel.Generated.C01.FILTER_BYTES_NEXT_IDX_lost = false ∧ ArrowModel.Generated.C01.FILTER_BYTES_NEXT_IDX = 1 ∧
    ArrowModel.Generated.C01.TAKE_BYTES_CAPACITY_START_lost = false ∧ ArrowModel.Generated.C01.TAKE_BYTES_CAPACITY_START = 0 ∧
    ArrowModel.Generated.C01.TAKE_BYTES_NULLPATH_SLOT_lost = false ∧ ArrowModel.Generated.C01.TAKE_BYTES_NULLPATH_SLOT = 1 ∧
    ArrowModel.Generated.C01.TAKE_BYTES_BACKFILL_lost = false ∧ ArrowModel.Generated.C01.TAKE_BYTES_BACKFILL = 1 ∧
    ArrowModel.Generated.C01.APPEND_ARRAY_SHIFT_BASE_lost = false ∧ ArrowModel.Generated.C01.APPEND_ARRAY_SHIFT_BASE = 0 ∧
    ArrowModel.Generated.C01.APPEND_ARRAY_REBASED_FROM_lost = false ∧ ArrowModel.Generated.C01.APPEND_ARRAY_REBASED_FROM = 1 ∧
    ArrowModel.Generated.C01.APPEND_ARRAY_VALUES_FROM_lost = false ∧ ArrowModel.Generated.C01.APPEND_ARRAY_VALUES_FROM = 0 := by
  decide

example : viewWFB true ⟨.null, 2, 0, none,
    [[1,0,0,0, 0x61,0,0,0, 0,0,0,0, 0,0,0,0,   13,0,0,0, 0x61,0x62,0x63,0x64, 0,0,0,0, 1,0,0,0],
     [0x7A, 0x61,0x62,0x63,0x64,0x65,0x66,0x67,0x68,0x69,0x6A,0x6B,0x6C,0x6D]], []⟩ = true := by decide
-- non-zero padding in an inline view is rejected
example : viewWFB true ⟨.null, 1, 0, none, [[1,0,0,0, 0x61,0,0,0, 2,0,0,0, 0,0,0,0]], []⟩ = false := by decide

end ArrowModel.PhysicalExt
