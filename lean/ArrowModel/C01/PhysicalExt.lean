import ArrowModel.C09.Lemmas
import ArrowModel.Generated.C01
/-
C01 source ties and view-layout facts.

The view layouts `Utf8View` / `BinaryView` are part of the shared library now (`DType.view`, C09/Physical.lean:
`viewSlotOk` — view length, zero padding of inline views, buffer index and offset in bounds, prefix, UTF-8).
This file adds (1) the regenerated source constants / expression shapes the C01 models and the view rule
rely on, as one obligation, and (2) the "in-bounds view references" consequence of well-formedness.
-/
namespace ArrowModel.PhysicalExt
open ArrowModel.Physical

/-- the source constants / expression shapes this check relies on are the ones the models were written
against (regenerated from /repo on every run by `tools/items/C01.py`; an edit makes this fail) -/
theorem source_ties_intact :
    ArrowModel.Generated.C01.MAX_INLINE_VIEW_LEN_lost = false ∧ ArrowModel.Generated.C01.MAX_INLINE_VIEW_LEN = 12 ∧
    ArrowModel.Generated.C01.FILTER_NULLS_POPCOUNT_START_lost = false ∧ ArrowModel.Generated.C01.FILTER_NULLS_POPCOUNT_START = 0 ∧
    ArrowModel.Generated.C01.FILTER_NULLS_BITMAP_OFFSET_lost = false ∧ ArrowModel.Generated.C01.FILTER_NULLS_BITMAP_OFFSET = 0 ∧
    ArrowModel.Generated.C01.FILTER_BYTES_FIRST_OFFSET_lost = false ∧ ArrowModel.Generated.C01.FILTER_BYTES_FIRST_OFFSET = 0 ∧
    ArrowModel.Generated.C01.FILTER_BYTES_NEXT_IDX_lost = false ∧ ArrowModel.Generated.C01.FILTER_BYTES_NEXT_IDX = 1 ∧
    ArrowModel.Generated.C01.TAKE_BYTES_CAPACITY_START_lost = false ∧ ArrowModel.Generated.C01.TAKE_BYTES_CAPACITY_START = 0 ∧
    ArrowModel.Generated.C01.TAKE_BYTES_NULLPATH_SLOT_lost = false ∧ ArrowModel.Generated.C01.TAKE_BYTES_NULLPATH_SLOT = 1 ∧
    ArrowModel.Generated.C01.TAKE_BYTES_BACKFILL_lost = false ∧ ArrowModel.Generated.C01.TAKE_BYTES_BACKFILL = 1 ∧
    ArrowModel.Generated.C01.APPEND_ARRAY_SHIFT_BASE_lost = false ∧ ArrowModel.Generated.C01.APPEND_ARRAY_SHIFT_BASE = 0 ∧
    ArrowModel.Generated.C01.APPEND_ARRAY_REBASED_FROM_lost = false ∧ ArrowModel.Generated.C01.APPEND_ARRAY_REBASED_FROM = 1 ∧
    ArrowModel.Generated.C01.APPEND_ARRAY_VALUES_FROM_lost = false ∧ ArrowModel.Generated.C01.APPEND_ARRAY_VALUES_FROM = 0 := by
  decide


/-- the inline limit the shared view rule uses is the source's `MAX_INLINE_VIEW_LEN` -/
theorem viewSlotOk_uses_source_limit :
    viewSlotOk = viewSlotOkN ArrowModel.Generated.C01.MAX_INLINE_VIEW_LEN := rfl

/-- a well-formed view array: every slot's view passes the view rule (restated for the C01 property text:
"in-bounds view references") -/
theorem wellFormed_view_slots (d : ArrayData) (u : Bool) (h : WellFormed d) (ht : d.type = .view u) :
    ∃ views datas, d.buffers = views :: datas ∧ (d.offset + d.len) * 16 ≤ views.length ∧
      ∀ i, i < d.len → viewSlotOk views datas u (d.offset + i) = true := by
  have hl : LocalWF d := by
    cases d with
    | mk t l o n bs cs => unfold WellFormed at h; exact h.1
  have h2 := hl.2
  rw [ht] at h2
  simp only at h2
  exact h2.2

end ArrowModel.PhysicalExt
