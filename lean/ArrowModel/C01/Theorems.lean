import ArrowModel.C01.Lemmas
import ArrowModel.C01.Kernels
import ArrowModel.C01.Safe
import ArrowModel.C01.PhysicalExt
/-
C01 property statements: *every array returned by a safe API is a well-formed Arrow array*.

The universal claim over **all** kernels / readers / builders is carried by runtime verification:
the harness sends every array produced at every pipeline stage to the validator `wellFormedB`,
which is proved to decide the specification predicate (`Physical.wellFormedB_iff`, C09).  The
theorems below add

  (a) closure of `WellFormed` under the specification's zero-copy `slice` (every type constructor);
  (b) preservation / construction facts for the physically modelled `*_unchecked` sites
      (`Model.lean`): output lengths of fixed-width take/filter, the offsets built by
      `take_bytes` / `filter_bytes` (start at 0, non-decreasing, consecutive difference = slot length,
      last = length of the copied data), offset rebasing of `append_array` / `concat_bytes`,
      and the exact null count of `filter_nulls` / `take_nulls`;
      full preservation `WellFormed in → WellFormed (K in)` for fixed-width take/filter and for
      take_bytes / filter_bytes, and the builder invariant of `append_array` (concat) — `Kernels.lean`:
      `takeFixed_wellFormed`, `filterFixed_wellFormed`, `gatherBytes_wellFormed`, `takeBytes_wellFormed`,
      `filterBytes_wellFormed`, `nullsOk_mkNulls` / `countNulls_packBits` (Lemmas), `rebase_pairwise`,
      `rebase_getLast`, `appendArray_inv`, `concat_offsets_ok`;
  (c) `WellFormed d → SafeAccess d` (`Safe.lean`): `wellFormed_safeAccess_partial` for every tree of leaf,
      List/LargeList, FixedSizeList and Dictionary nodes; Struct, RunEndEncoded and Union are the gap.
-/
namespace ArrowModel.C01
open ArrowModel.Physical

/-! ### (a) slicing -/

/-- **Slice preservation.**  Slicing a well-formed array `[o, o+l)` with `o + l ≤ len` (what
`Array::slice` / `ArrayData::slice` do for every non-struct layout: bump `offset`, set `len`, slice
the validity bitmap and re-count its nulls) yields a well-formed array — for *every* type constructor
of `DType` (nested, dictionary, run-end encoded, dense and sparse union included). -/
theorem wellFormed_slice : ∀ (d : ArrayData) (o l : Nat), WellFormed d → o + l ≤ d.len → WellFormed (slice d o l)
  | ⟨t, n, off, nu, bs, cs⟩, o, l, h, hol => by
    unfold WellFormed at h
    have h1 := localWF_slice h.1 o l hol
    show WellFormed ⟨t, l, off + o, nu.map (·.slice o l), bs, cs⟩
    unfold WellFormed
    exact ⟨h1, h.2⟩

/-- the hypotheses are satisfiable by a non-trivial value: a sliced Utf8 array with a null -/
example : WellFormed (slice ⟨.utf8 false, 3, 1, some ⟨[0b1011], 1, 3, 1⟩,
    [[0,0,0,0, 1,0,0,0, 1,0,0,0, 3,0,0,0, 4,0,0,0], [0x61, 0xC3, 0xA9, 0x7A]], []⟩ 1 2) := by decide

/-- the executable validator agrees after slicing (corollary used by the driver's judgement) -/
theorem wellFormedB_slice (d : ArrayData) (o l : Nat) (h : wellFormedB d = true) (hol : o + l ≤ d.len) :
    wellFormedB (slice d o l) = true :=
  (wellFormedB_iff _).2 (wellFormed_slice d o l ((wellFormedB_iff d).1 h) hol)

/-! ### (b) the `*_unchecked` construction sites -/

/-- the offsets `take_bytes` / `filter_bytes` build for the slots `slots` of `d` -/
def gatherOffsets (d : ArrayData) (slots : List (Option Nat)) : List Nat :=
  prefixSums 0 ((slots.map (byteSlot d)).map List.length)

/-- `gatherBytes` stores exactly these offsets (little-endian) and the concatenated slot bytes -/
theorem gatherBytes_buffers (d : ArrayData) (slots : List (Option Nat)) (valid : List Bool) :
    (gatherBytes d slots valid).buffers =
      [encInts (offW (isLarge d.type)) (gatherOffsets d slots), (slots.map (byteSlot d)).flatten] := rfl

/-- **`take_bytes` / `filter_bytes` offsets (SAFETY comment of `OffsetBuffer::new_unchecked`,
arrow-select/src/take.rs:619, filter.rs:919).**  The offsets have `len + 1` entries, start at 0,
every consecutive pair is ordered and differs by exactly the length of the copied slot, every
offset is within the copied data, and the last offset *is* the length of the values buffer —
for every selection (any indices, any validity, both null paths). -/
theorem gatherOffsets_ok (d : ArrayData) (slots : List (Option Nat)) :
    (gatherOffsets d slots).length = slots.length + 1 ∧
    (gatherOffsets d slots).head? = some 0 ∧
    (gatherOffsets d slots).getLast? = some ((slots.map (byteSlot d)).flatten.length) ∧
    ∀ i, i < slots.length → ∃ a b, (gatherOffsets d slots)[i]? = some a ∧ (gatherOffsets d slots)[i + 1]? = some b ∧
      a ≤ b ∧ b = a + (byteSlot d (slots[i]?.join)).length ∧ b ≤ (slots.map (byteSlot d)).flatten.length := by
  unfold gatherOffsets
  have hsum : ((slots.map (byteSlot d)).map List.length).sum = (slots.map (byteSlot d)).flatten.length := by
    rw [List.length_flatten]
  refine ⟨by simp [prefixSums_length], prefixSums_head _ _, by rw [prefixSums_getLast, hsum]; simp, ?_⟩
  intro i hi
  obtain ⟨a, b, h1, h2, h3, h4, h5⟩ := prefixSums_step 0 ((slots.map (byteSlot d)).map List.length) i (by simpa using hi)
  refine ⟨a, b, h1, h2, h3, ?_, by omega⟩
  rw [h4]
  simp [List.getElem?_eq_getElem hi]

example : gatherOffsets ⟨.binary false, 2, 0, none, [[0,0,0,0, 2,0,0,0, 3,0,0,0], [7, 8, 9]], []⟩ [some 1, none, some 0, some 1]
    = [0, 1, 1, 3, 4] := by decide

/-- **output length of `take` on byte arrays** = number of indices -/
theorem takeBytes_len (d : ArrayData) (idx : List (Option Nat)) : (takeBytes d idx).len = idx.length := by
  simp [takeBytes, gatherBytes]

/-- **output length of `filter` on byte arrays** = number of set mask bits (`FilterPredicate::count`) -/
theorem filterBytes_len (d : ArrayData) (mask : List Bool) : (filterBytes d mask).len = mask.count true := by
  simp [filterBytes, gatherBytes, maskIndices_length]

/-- **output length of `take_primitive` / `take_fixed_size_binary`** = number of indices -/
theorem takeFixed_len (d : ArrayData) (idx : List (Option Nat)) : (takeFixed d idx).len = idx.length := rfl

/-- **output length of `filter_primitive`** = number of set mask bits -/
theorem filterFixed_len (d : ArrayData) (mask : List Bool) : (filterFixed d mask).len = mask.count true := by
  simp [filterFixed, takeFixed, maskIndices_length]

example : (filterFixed ⟨.prim 2, 3, 1, none, [[9,9, 1,0, 2,0, 3,0]], []⟩ [true, false, true]).buffers = [[1,0, 3,0]] := by decide


/-! ### non-trivial instances of the preservation theorems' hypotheses -/

/-- a sliced Utf8 array with a null and a multi-byte character -/
def exUtf8 : ArrayData := ⟨.utf8 false, 3, 1, some ⟨[0b1011], 1, 3, 1⟩,
    [[0,0,0,0, 1,0,0,0, 1,0,0,0, 3,0,0,0, 4,0,0,0], [0x61, 0xC3, 0xA9, 0x7A]], []⟩

example : WellFormed exUtf8 := by decide
example : WellFormed (takeBytes exUtf8 [some 2, none, some 1, some 0]) := by decide
example : WellFormed (filterBytes exUtf8 [true, false, true]) := by decide
example : (takeBytes exUtf8 [some 2, none, some 1, some 0]).nulls.map (·.nullCount) = some 2 := by decide
example : SafeAccess exUtf8 := wellFormed_safeAccess_leaf_partial exUtf8 (by decide) (Or.inr (Or.inr (Or.inr (Or.inr (Or.inr ⟨false, rfl⟩)))))
example : WellFormed (takeFixed ⟨.prim 2, 3, 1, some ⟨[0b0110], 1, 3, 1⟩, [[9,9, 1,0, 2,0, 3,0]], []⟩ [some 2, none, some 0]) := by decide

end ArrowModel.C01
