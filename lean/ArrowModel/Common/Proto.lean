/-
Line protocol helpers shared by every property driver (import-free, executable).

A case line is `<prop> <op> <field> …` with single spaces; integers are decimal,
byte strings are lower-case hex (the empty string is `-`), lists are comma separated
(the empty list is `-`).  Answers are one line each.
-/
namespace ArrowModel.Proto

def hexVal (c : Char) : Option Nat :=
  if '0' ≤ c ∧ c ≤ '9' then some (c.toNat - '0'.toNat)
  else if 'a' ≤ c ∧ c ≤ 'f' then some (c.toNat - 'a'.toNat + 10)
  else if 'A' ≤ c ∧ c ≤ 'F' then some (c.toNat - 'A'.toNat + 10)
  else none

/-- hex string → bytes; `-` is the empty byte string. -/
def parseHex (s : String) : Option (List Nat) :=
  if s = "-" then some [] else
  let rec go : List Char → List Nat → Option (List Nat)
    | [], acc => some acc.reverse
    | [_], _ => none
    | a :: b :: rest, acc =>
      match hexVal a, hexVal b with
      | some x, some y => go rest ((x * 16 + y) :: acc)
      | _, _ => none
  go s.toList []

def hexDigit (n : Nat) : Char :=
  if n < 10 then Char.ofNat (n + '0'.toNat) else Char.ofNat (n - 10 + 'a'.toNat)

def toHex (bs : List Nat) : String :=
  if bs.isEmpty then "-" else
  String.ofList (bs.foldr (fun b acc => hexDigit (b / 16 % 16) :: hexDigit (b % 16) :: acc) [])

/-- little-endian bytes → Nat -/
def bytesToNat : List Nat → Nat
  | [] => 0
  | b :: bs => b % 256 + 256 * bytesToNat bs

/-- Nat → `n` little-endian bytes -/
def natToBytes : Nat → Nat → List Nat
  | 0, _ => []
  | n + 1, v => v % 256 :: natToBytes n (v / 256)

def parseInt (s : String) : Option Int :=
  match s.toList with
  | '-' :: rest => (String.ofList rest).toNat?.map (fun n => - (n : Int))
  | _ => s.toNat?.map (fun n => (n : Int))

def parseList {α} (f : String → Option α) (s : String) : Option (List α) :=
  if s = "-" then some [] else (s.splitOn ",").mapM f

def showList {α} (f : α → String) (xs : List α) : String :=
  if xs.isEmpty then "-" else ",".intercalate (xs.map f)

def showBool (b : Bool) : String := if b then "1" else "0"

def parseBits (s : String) : Option (List Bool) :=
  if s = "-" then some [] else
  s.toList.mapM (fun c => if c = '1' then some true else if c = '0' then some false else none)

def showBits (bs : List Bool) : String :=
  if bs.isEmpty then "-" else String.ofList (bs.map (fun b => if b then '1' else '0'))

end ArrowModel.Proto
