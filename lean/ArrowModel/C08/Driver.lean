import ArrowModel.Common.Proto
import ArrowModel.C08.Spec
import ArrowModel.C08.Model
/-
C08 driver: one case per line → one canonical answer per line.

Unit operations (byte-level decoders) are answered by the *model*; where the ULEB128
specification applies the driver also evaluates it and prints `MODEL-SPEC-MISMATCH` if the
two differ where the theorems say they agree.  Corruption-search operations (`pq`, `pqraw`,
`tmeta`, `rle`, `ipc`, `ocf`, `csv`, `json`, `variant`, …) are not modelled: the driver answers `SKIP`
and the harness itself reports panics / hangs / oversized allocations / invalid arrays as
oracle failures.
-/
namespace ArrowModel.C08
open ArrowModel.Proto

def showErr : Err → String
  | .eof => "ERR:eof"
  | .panic => "PANIC"
  | _ => "ERR:other"

/-- the spec's value for a byte string, when ULEB128-u64 accepts it -/
def specU64 (bs : List Nat) : Option (Nat × Nat) := Spec.uleb64 bs

def mismatch (m s : String) : String := s!"MODEL-SPEC-MISMATCH model={m} spec={s}"

def searchOps : List String :=
  ["pq", "pqraw", "tmeta", "rle", "ipc", "ipcraw", "ocf", "ocfraw", "csv", "csvraw", "json", "jsonraw",
   "variant", "variantraw", "ipcz", "ipczraw", "flight", "avrodec", "dict", "jsongrid", "jsonty", "pqsplit"]

/-- Avro `read_varint` + zig-zag; model and ULEB128-u64 specification must agree on every input -/
def avlqAnswer (h : String) : String :=
  match parseHex h with
  | none => "bad-op"
  | some bs =>
    let m := match avroReadVarint bs with
      | none => "ERR"
      | some (v, n) => s!"ok {zigzagInt v} {n}"
    let s := match specU64 bs with
      | none => "ERR"
      | some (v, n) => s!"ok {Spec.unzigzag v} {n}"
    if m = s then m else mismatch m s

def handle (toks : List String) : String :=
  match toks with
  -- thrift read_vlq + zig-zag, observed through `num_rows` of a footer
  | ["tvlq", h] =>
    match parseHex h with
    | none => "bad-op"
    | some bs =>
      match thriftReadVlq bs with
      | .error e => showErr e
      | .ok (w, rest) =>
        let n := bs.length - rest.length
        let m := s!"ok {zigzagInt w} {n}"
        match specU64 bs with
        | some (v, n') =>
          let s := s!"ok {Spec.unzigzag v} {n'}"
          if m = s then m else mismatch m s
        | none => m
  -- thrift list header followed by `nelems` well-formed elements
  | ["tlist", h, ne] =>
    match parseHex h, ne.toNat? with
    | some bs, some nelems =>
      match thriftReadListBegin bs with
      | .error _ => "ERR"
      | .ok (li, rest) =>
        if li.elemType ≠ 12 then "ERR"
        else if rest ≠ [] then "SKIP"
        else if li.size = nelems then s!"ok {li.size}"
        else if li.size > nelems then "ERR"
        else "SKIP"
    | _, _ => "bad-op"
  -- unknown struct fields after field 4 of FileMetaData: read_field_begin + skip of scalar types
  | ["tfield", h] =>
    match parseHex h with
    | none => "bad-op"
    | some bs =>
      -- an id that FileMetaData knows (1..9) is parsed, not skipped: outside this model
      match thriftSkipFields (fun i => decide (1 ≤ i ∧ i ≤ 9)) (bs.length + 1) 4 bs with
      | none => "SKIP"
      | some (.error _) => "ERR"
      | some (.ok _) => "ok"
  -- BitReader::get_vlq_int / get_zigzag_vlq_int
  | ["bvlq", h] =>
    match parseHex h with
    | none => "bad-op"
    | some bs =>
      match bitReaderVlq bs with
      | .error e => showErr e
      | .ok none => "none"
      | .ok (some (w, n)) =>
        let m := s!"ok {i64OfBits w} {n}"
        match specU64 bs with
        | some (v, n') =>
          let s := s!"ok {Spec.toI64 v} {n'}"
          if m = s then m else mismatch m s
        | none => m
  | ["bzz", h] =>
    match parseHex h with
    | none => "bad-op"
    | some bs =>
      match bitReaderVlq bs with
      | .error e => showErr e
      | .ok none => "none"
      | .ok (some (w, n)) =>
        let m := s!"ok {zigzagInt w} {n}"
        match specU64 bs with
        | some (v, n') =>
          let s := s!"ok {Spec.unzigzag v} {n'}"
          if m = s then m else mismatch m s
        | none => m
  | ["delta", h] =>
    match parseHex h with
    | none => "bad-op"
    | some bs =>
      match deltaHeader bs with
      | .error .panic => "PANIC"
      | .error _ => "ERR"
      | .ok _ => "ok"
  -- Avro read_varint / get_long, observed through a record with one `long` field
  | ["avlq", h] => avlqAnswer h
  | ["avlqf", h] => avlqAnswer h
  -- streaming VLQDecoder::long, observed through the OCF block header (count, size)
  | ["ablock", h] =>
    match parseHex h with
    | none => "bad-op"
    | some bs =>
      match blockHeader bs with
      | .error .eof => "ERR:eof"
      | .error _ => "ERR:other"
      | .ok (c, s, r, rest) => s!"ok {c} {s} {r} {bs.length - rest.length}"
  -- IPC read_buffer slicing: body length, offset, length of the values buffer, rows
  | ["ipcslice", bl, off, len, rows] =>
    match bl.toNat?, parseInt off, parseInt len, rows.toNat? with
    | some bl, some off, some len, some rows =>
      -- the writer emits an all-valid bitmap of ceil(rows/8) bytes at offset 0 as buffer 0;
      -- `next_buffer` slices it first, then the patched values buffer
      match ipcSlice bl 0 ((rows + 7) / 8) with
      | .error _ => "ERR"
      | .ok _ =>
        match ipcSlice bl off len with
        | .error _ => "ERR"
        | .ok (_, l) => if rows * 4 ≤ l then "ok" else "ERR"
    | _, _, _, _ => "bad-op"
  | op :: _ => if searchOps.contains op then "SKIP" else "bad-op"
  | _ => "bad-op"

end ArrowModel.C08
