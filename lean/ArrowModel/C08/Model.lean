import ArrowModel.Generated.C08
/-
C08 algorithm model: the *acceptance logic* of the byte-level decoders of arrow-rs, as
total functions on `List Nat` (bytes) returning `Except Err (value × rest)` (or `Option`
where the Rust function returns `Option`).  Each definition names the Rust function it
mirrors and follows it statement by statement; `&mut` cursors become the returned rest.
Every loop is structural recursion on the input list: there is no fuel anywhere, so the
fact that these definitions are accepted by Lean is the termination argument.

A Rust `panic!`/`assert!` reachable from input is modelled as the error `Err.panic`
(the driver prints it as `PANIC`); it is *not* an acceptable outcome for C08.

Fixed-width arithmetic: `u64` values are `Nat`s reduced `% 2^64` exactly where the Rust
operation truncates (`<<`, `wrapping_shl`, wrapping `+`/`-` in release builds).
-/
namespace ArrowModel.C08
open ArrowModel.Generated.C08

inductive Err where
  | eof          -- input ended inside a token
  | overflow     -- integer does not fit the target type
  | invalidType  -- unknown thrift element / field type
  | negative     -- negative count / size
  | malformed    -- other malformed input (too many continuation bytes, …)
  | utf8
  | oob          -- (offset, length) outside the addressed buffer
  | panic        -- the Rust code panics here (assert!/index/slice); a C08 violation
  deriving DecidableEq, Repr

def two64 : Nat := 2 ^ 64

/-- `x << s` on a `u64` with `s < 64`: high bits are shifted out -/
def shl64 (x s : Nat) : Nat := (x <<< s) % two64

/-- `x.wrapping_shl(s)` on `u64`: the shift amount is masked to `s & 63` -/
def wshl64 (x s : Nat) : Nat := (x <<< (s % 64)) % two64

/-! ## thrift compact protocol (`parquet/src/parquet_thrift.rs`) -/

/-- the `loop` of `ThriftCompactInputProtocol::read_vlq`: **no limit on the number of
bytes**, shift by `wrapping_shl` (so an over-long varint is accepted and its high groups
are OR-ed into wrapped positions) -/
def thriftVlqLoop (acc shift : Nat) : List Nat → Except Err (Nat × List Nat)
  | [] => .error .eof
  | b :: bs =>
    let acc := acc ||| wshl64 (b % (THRIFT_VLQ_PAYLOAD + 1)) shift     -- in_progress |= ((byte & 0x7F) as u64).wrapping_shl(shift)
    if b < THRIFT_VLQ_CONT then .ok (acc, bs)                           -- byte & 0x80 == 0
    else thriftVlqLoop acc (shift + THRIFT_VLQ_SHIFT_STEP) bs

/-- `ThriftCompactInputProtocol::read_vlq` over `ThriftSliceInputProtocol::read_byte` -/
def thriftReadVlq : List Nat → Except Err (Nat × List Nat)
  | [] => .error .eof
  | b :: bs =>
    if b < THRIFT_VLQ_CONT then .ok (b, bs)
    else thriftVlqLoop (b % (THRIFT_VLQ_PAYLOAD + 1)) THRIFT_VLQ_SHIFT0 bs

/-- `(val >> 1) as i64 ^ -((val & 1) as i64)` on the 64-bit pattern -/
def zigzag64 (v : BitVec 64) : BitVec 64 := (v >>> 1) ^^^ (-(v &&& 1#64))

/-- zig-zag decode of a `u64` as a signed integer (`read_zig_zag`, `VLQDecoder::long`,
`AvroCursor::get_long`, `BitReader::get_zigzag_vlq_int` all use the same expression) -/
def zigzagInt (v : Nat) : Int := (zigzag64 (BitVec.ofNat 64 v)).toInt

/-- `ThriftCompactInputProtocol::read_zig_zag` -/
def thriftReadZigZag (bs : List Nat) : Except Err (Int × List Nat) :=
  match thriftReadVlq bs with
  | .error e => .error e
  | .ok (v, rest) => .ok (zigzagInt v, rest)

/-- `x as i16` / `x as i32` of an `i64` -/
def wrapSigned (bits : Nat) (x : Int) : Int :=
  let m := x % (2 ^ bits : Nat)
  if m < (2 ^ (bits - 1) : Nat) then m else m - (2 ^ bits : Nat)

/-- `read_i16` / `read_i32`: `read_zig_zag()? as _` (silent truncation) -/
def thriftReadI16 (bs : List Nat) : Except Err (Int × List Nat) :=
  match thriftReadZigZag bs with
  | .error e => .error e
  | .ok (v, rest) => .ok (wrapSigned 16 v, rest)

def thriftReadI32 (bs : List Nat) : Except Err (Int × List Nat) :=
  match thriftReadZigZag bs with
  | .error e => .error e
  | .ok (v, rest) => .ok (wrapSigned 32 v, rest)

structure ListIdent where
  elemType : Nat      -- canonical `ElementType` discriminant (1 is mapped to 2 = Bool)
  size : Nat          -- `i32`, always `0 ≤ size ≤ i32::MAX`
  deriving DecidableEq, Repr

def i32Max : Nat := 2 ^ 31 - 1

/-- `TryFrom<u8> for ElementType` -/
def elementTypeOf (t : Nat) : Except Err Nat :=
  if t = THRIFT_ELEM_BOOL_ALT ∨ t = THRIFT_ELEM_BOOL then .ok THRIFT_ELEM_BOOL
  else if THRIFT_ELEM_BYTE ≤ t ∧ t ≤ THRIFT_ELEM_UUID then .ok t
  else .error .invalidType

/-- `ThriftCompactInputProtocol::read_list_begin` -/
def thriftReadListBegin : List Nat → Except Err (ListIdent × List Nat)
  | [] => .error .eof
  | header :: bs =>
    if header = 0 then .ok ({ elemType := THRIFT_ELEM_BYTE, size := 0 }, bs)
    else
      match elementTypeOf (header % (THRIFT_LIST_TYPE_MASK + 1)) with     -- header & 0x0f
      | .error e => .error e
      | .ok et =>
        let possible := (header / 2 ^ THRIFT_LIST_SIZE_SHIFT) % 16          -- (header & 0xF0) >> 4
        if possible ≠ THRIFT_LIST_LONG_FORM then .ok ({ elemType := et, size := possible }, bs)
        else
          match thriftReadVlq bs with
          | .error e => .error e
          | .ok (v, rest) =>
            if v ≤ i32Max then .ok ({ elemType := et, size := v }, rest)   -- i32::try_from(read_vlq()?)?
            else .error .overflow

/-- `TryFrom<u8> for FieldType` (0 = Stop is handled by the caller) -/
def fieldTypeOk (t : Nat) : Bool := decide (t ≤ THRIFT_FIELD_UUID)

/-- `ThriftCompactInputProtocol::read_field_begin`: `(field type, field id, rest)`;
field type `0` is `Stop` -/
def thriftReadFieldBegin (lastId : Int) : List Nat → Except Err (Nat × Int × List Nat)
  | [] => .error .eof
  | b :: bs =>
    if b % 16 = 0 then .ok (THRIFT_FIELD_STOP, 0, bs)
    else
      let delta := (b / 16) % 16
      let ty := b % 16
      if !fieldTypeOk ty then .error .invalidType
      else if delta ≠ 0 then
        -- last_field_id.checked_add(field_delta as i16)
        if lastId + delta > 32767 then .error .overflow else .ok (ty, lastId + delta, bs)
      else
        match thriftReadI16 bs with
        | .error e => .error e
        | .ok (id, rest) => .ok (ty, id, rest)

/-- the element loop of `read_thrift_vec` for an element reader `elem` -/
def readElems {α} (elem : List Nat → Except Err (α × List Nat)) : Nat → List Nat → Except Err (List α × List Nat)
  | 0, bs => .ok ([], bs)
  | n + 1, bs =>
    match elem bs with
    | .error e => .error e
    | .ok (x, rest) =>
      match readElems elem n rest with
      | .error e => .error e
      | .ok (xs, rest') => .ok (x :: xs, rest')

/-- `list_prealloc`: the capacity `read_thrift_vec` (and the hand-written row-group and
offset-index list readers) reserve before any element is read -/
def thriftVecReserve (size : Nat) : Nat := min size THRIFT_LIST_PREALLOC_MAX

/-- `read_thrift_vec`, first half: the list header is read and the element type validated.
Returns the declared number of elements; `thriftVecReserve` of it is reserved up front. -/
def thriftVecCapacity (expected : Nat) (bs : List Nat) : Except Err (Nat × List Nat) :=
  match thriftReadListBegin bs with
  | .error e => .error e
  | .ok (li, rest) => if li.elemType ≠ expected then .error .invalidType else .ok (li.size, rest)

/-- `read_thrift_vec` -/
def thriftReadVec {α} (expected : Nat) (elem : List Nat → Except Err (α × List Nat)) (bs : List Nat) :
    Except Err (List α × List Nat) :=
  match thriftVecCapacity expected bs with
  | .error e => .error e
  | .ok (n, rest) => readElems elem n rest

/-- `skip_vlq`: bytes are consumed until one without the continuation bit; no length limit -/
def thriftSkipVlq : List Nat → Except Err (List Nat)
  | [] => .error .eof
  | b :: bs => if b < THRIFT_VLQ_CONT then .ok bs else thriftSkipVlq bs

/-- `ThriftSliceInputProtocol::skip_bytes(n)` -/
def thriftSkipBytes (n : Nat) (bs : List Nat) : Except Err (List Nat) :=
  if bs.length < n then .error .eof else .ok (bs.drop n)

/-- `skip_till_depth` on a list / set whose element type is `ElementType::Bool`: unlike a boolean
struct field a boolean element occupies one byte, so the list is skipped with
`skip_bytes(size)`.  `none` = another element type (the per-element loop, not modelled here). -/
def thriftSkipBoolList (bs : List Nat) : Option (Except Err (List Nat)) :=
  match thriftReadListBegin bs with
  | .error e => some (.error e)
  | .ok (li, rest) =>
    if li.elemType = THRIFT_ELEM_BOOL then some (thriftSkipBytes li.size rest) else none

/-- `skip_till_depth` for the field types that carry no nested data (bool, byte, i16/i32/i64,
double, binary, uuid); `none` = a container type, not modelled here -/
def thriftSkipScalar (ty : Nat) (bs : List Nat) : Option (Except Err (List Nat)) :=
  if ty = 1 ∨ ty = 2 then some (.ok bs)
  else if ty = 3 then some (thriftSkipBytes 1 bs)                 -- read_i8
  else if ty = 4 ∨ ty = 5 ∨ ty = 6 then some (thriftSkipVlq bs)
  else if ty = 7 then some (thriftSkipBytes 8 bs)
  else if ty = 8 then
    some (match thriftReadVlq bs with
      | .error e => .error e
      | .ok (len, rest) => thriftSkipBytes len rest)              -- skip_binary: read_vlq()? as usize
  else if ty = 13 then some (thriftSkipBytes 16 bs)
  else none

/-- the field loop of a struct reader that skips every field (`read_field_begin(last_field_id)`,
`skip`, `last_field_id = id`) until the stop byte.  `fuel` = number of bytes: every field
header consumes one (see `thrift_field_begin_progress`).  Returns the ids seen, or `none`
when a container type is met or when the id is one the enclosing struct knows (`known`):
such a field is parsed by its own reader, not skipped. -/
def thriftSkipFields (known : Int → Bool) : Nat → Int → List Nat → Option (Except Err (List Int × List Nat))
  | 0, _, _ => some (.error .eof)
  | fuel + 1, lastId, bs =>
    match thriftReadFieldBegin lastId bs with
    | .error e => some (.error e)
    | .ok (ty, id, rest) =>
      if ty = THRIFT_FIELD_STOP then some (.ok ([], rest))
      else if known id then none
      else match thriftSkipScalar ty rest with
        | none => none
        | some (.error e) => some (.error e)
        | some (.ok rest') =>
          match thriftSkipFields known fuel id rest' with
          | none => none
          | some (.error e) => some (.error e)
          | some (.ok (ids, r)) => some (.ok (id :: ids, r))

/-! ## Avro varints (`arrow-avro/src/reader/vlq.rs`) -/

/-- `read_varint_array`, the loop over the first nine bytes and the tenth byte.
`k` = remaining loop iterations, `idx` = loop index.  `+=`/`-=` are modelled as the
wrapping `u64` operations of a release build. -/
def avroFastGo : Nat → Nat → Nat → List Nat → Option (Nat × Nat)
  | _, _, _, [] => none                               -- unreachable: the array has ten bytes
  | 0, _, acc, b :: _ =>
    let acc := (acc + shl64 b (7 * AVRO_FAST_LOOP)) % two64          -- in_progress += b << (7 * 9)
    if b < AVRO_FAST_LAST_LIMIT then some (acc, AVRO_FAST_LEN) else none
  | k + 1, idx, acc, b :: bs =>
    let acc := (acc + shl64 b (7 * idx)) % two64                      -- in_progress += (b as u64) << (7 * idx)
    if b < 128 then some (acc, idx + 1)
    else avroFastGo k (idx + 1) ((acc + two64 - shl64 AVRO_FAST_SUB (7 * idx)) % two64) bs  -- in_progress -= 0x80 << (7 * idx)

/-- `read_varint_array(buf: [u8; 10])` -/
def avroReadVarintArray (buf : List Nat) : Option (Nat × Nat) := avroFastGo AVRO_FAST_LOOP 0 0 buf

/-- `read_varint_slow`: `for (count, _) in buf.iter().take(10).enumerate()` -/
def avroSlowGo (count value : Nat) : List Nat → Option (Nat × Nat)
  | [] => none
  | b :: bs =>
    if count ≥ AVRO_SLOW_MAX then none
    else
      let value := value ||| shl64 (b % 128) (count * 7)
      if b ≤ 127 then
        if count ≠ AVRO_SLOW_LAST_IDX ∨ b < AVRO_SLOW_LAST_LIMIT then some (value, count + 1) else none
      else avroSlowGo (count + 1) value bs

def avroReadVarintSlow (buf : List Nat) : Option (Nat × Nat) := avroSlowGo 0 0 buf

/-- `read_varint`: one-byte happy path, then the unrolled array reader when ten bytes are
available, else the slow reader -/
def avroReadVarint (buf : List Nat) : Option (Nat × Nat) :=
  match buf with
  | [] => none
  | first :: _ =>
    if first < 128 then some (first, 1)
    else if AVRO_FAST_LEN ≤ buf.length then avroReadVarintArray (buf.take AVRO_FAST_LEN)
    else avroReadVarintSlow buf

/-- state of the streaming `VLQDecoder` -/
structure VlqState where
  inProgress : Nat
  shift : Nat
  deriving DecidableEq, Repr

inductive LongResult where
  | value (v : Int) (rest : List Nat)            -- `Ok(Some(v))`, decoder state reset
  | pending (st : VlqState)                      -- `Ok(None)`: input exhausted mid-varint
  | error (rest : List Nat)                      -- `Err(..)`, state reset, offending byte not consumed
  deriving DecidableEq, Repr

/-- `VLQDecoder::long` -/
def vlqLong (st : VlqState) : List Nat → LongResult
  | [] => .pending st
  | b :: bs =>
    if st.shift = AVRO_STREAM_LAST_SHIFT ∧ b ≥ AVRO_STREAM_LAST_LIMIT then .error (b :: bs)
    else
      let ip := st.inProgress ||| shl64 (b % 128) st.shift
      if b < 128 then .value (zigzagInt ip) bs
      else vlqLong { inProgress := ip, shift := st.shift + AVRO_STREAM_SHIFT_STEP } bs

/-- `AvroCursor::get_long` -/
def avroGetLong (buf : List Nat) : Except Err (Int × List Nat) :=
  match avroReadVarint buf with
  | none => .error .malformed
  | some (v, n) => .ok (zigzagInt v, buf.drop n)

/-- `AvroCursor::get_bytes`: the length is an `i64` that must convert to `usize` and be
backed by the remaining input -/
def avroGetBytes (buf : List Nat) : Except Err (List Nat × List Nat) :=
  match avroGetLong buf with
  | .error e => .error e
  | .ok (len, rest) =>
    if len < 0 then .error .negative
    else if rest.length < len.toNat then .error .eof
    else .ok (rest.take len.toNat, rest.drop len.toNat)

/-- header of an OCF block as read by `BlockDecoder::decode` when the whole header is in
one buffer: object count, byte size (both must be non-negative), and the amount passed to
`Vec::reserve` = `min(size, bytes available)`.  `(count, size, reserved, rest)`. -/
def blockHeader (buf : List Nat) : Except Err (Nat × Nat × Nat × List Nat) :=
  match vlqLong ⟨0, 0⟩ buf with
  | .pending _ => .error .eof
  | .error _ => .error .malformed
  | .value c rest =>
    if c < 0 then .error .negative
    else match vlqLong ⟨0, 0⟩ rest with
      | .pending _ => .error .eof
      | .error _ => .error .malformed
      | .value s rest' =>
        if s < 0 then .error .negative
        else .ok (c.toNat, s.toNat, min s.toNat rest'.length, rest')

/-! ## Parquet `BitReader::get_vlq_int` (`parquet/src/util/bit_util.rs`) -/

/-- the `for (i, &byte) in buf.iter().enumerate()` loop: on the eleventh byte of an unterminated
varint (`shift >= MAX_VLQ_BYTE_LEN * 7`) the function returns `None`; a ten-byte varint is
accepted whatever its last byte (high bits are shifted out).  `ok none` = buffer exhausted or
varint too long. -/
def bitReaderVlqGo (i shift v : Nat) : List Nat → Except Err (Option (Nat × Nat))
  | [] => .ok none
  | b :: bs =>
    let v := v ||| wshl64 (b % 128) shift
    let shift := shift + BITREADER_VLQ_STEP
    if shift > MAX_VLQ_BYTE_LEN * 7 then .ok none
    else if b < 128 then .ok (some (v, i + 1))
    else bitReaderVlqGo (i + 1) shift v bs

/-- `BitReader::get_vlq_int` on a byte-aligned reader: `(u64 pattern of the i64, bytes)` -/
def bitReaderVlq (buf : List Nat) : Except Err (Option (Nat × Nat)) := bitReaderVlqGo 0 0 0 buf

/-- two's complement reading of a `u64` pattern -/
def i64OfBits (u : Nat) : Int := (BitVec.ofNat 64 u).toInt


/-- header checks of `DeltaBitPackDecoder::<Int64Type>::set_data`
(`parquet/src/encodings/decoding.rs`): four varints through `BitReader::get_vlq_int`
(so an over-long varint panics here too), sign checks by `try_into::<usize>()`, and the
block-shape checks.  `ok (block_size, mini_blocks, values_left, first_value)`. -/
def deltaHeader (buf : List Nat) : Except Err (Nat × Nat × Nat × Int) :=
  let next (bs : List Nat) : Except Err (Nat × List Nat) :=
    match bitReaderVlq bs with
    | .error e => .error e
    | .ok none => .error .eof
    | .ok (some (w, n)) => .ok (w, bs.drop n)
  match next buf with
  | .error e => .error e
  | .ok (bsz, r1) =>
    if i64OfBits bsz < 0 then .error .negative else
    match next r1 with
    | .error e => .error e
    | .ok (mb, r2) =>
      if i64OfBits mb < 0 then .error .negative else
      if mb = 0 then .error .malformed else
      match next r2 with
      | .error e => .error e
      | .ok (vl, r3) =>
        if i64OfBits vl < 0 then .error .negative else
        match next r3 with
        | .error e => .error e
        | .ok (fv, _) =>
          if bsz % SHAPE_DELTA_BLOCK_MULTIPLE ≠ 0 then .error .malformed
          else if bsz % mb ≠ 0 then .error .malformed
          else if (bsz / mb) % SHAPE_DELTA_MINIBLOCK_MULTIPLE ≠ 0 then .error .malformed
          else .ok (bsz, mb, vl, zigzagInt fv)

/-! ## Arrow IPC buffer slicing (`arrow-ipc/src/reader.rs::read_buffer`) -/

/-- `i64 as usize` -/
def asUsize (x : Int) : Nat := (x % (two64 : Nat)).toNat

/-- `read_buffer`: the `(offset, length)` pair is checked against the body (non-negative,
`offset + length <= body.len()` without wrap-around) and an out-of-range pair is an `IpcError`;
only then `a_data.slice_with_length(offset as usize, length as usize)` is taken. -/
def ipcSlice (bodyLen : Nat) (offset length : Int) : Except Err (Nat × Nat) :=
  let o := asUsize offset
  let l := asUsize length
  if min (o + l) (two64 - 1) ≤ bodyLen then .ok (o, l) else .error .oob

/-! ## Parquet `OffsetBuffer` (`parquet/src/arrow/buffer/offset_buffer.rs`) -/

structure OffBuf where
  offsets : List Nat     -- never empty; starts as `[0]`
  values : List Nat
  deriving DecidableEq, Repr

def OffBuf.empty : OffBuf := ⟨[0], []⟩

/-- `(b as i8) < -0x40`: the byte is a UTF-8 continuation byte `0b10xxxxxx` -/
def notCharStart (b : Nat) : Bool :=
  let i8 : Int := if b < 128 then b else (b : Int) - 256
  decide (i8 < -64)

/-- `OffsetBuffer::try_push` for an offset type whose maximum is `maxOff` -/
def tryPush (maxOff : Nat) (ob : OffBuf) (data : List Nat) (validate : Bool) : Except Err OffBuf :=
  match validate, data with
  | true, b :: _ =>
    if notCharStart b then .error .utf8
    else if (ob.values ++ data).length > maxOff then .error .overflow
    else .ok ⟨ob.offsets ++ [(ob.values ++ data).length], ob.values ++ data⟩
  | _, _ =>
    if (ob.values ++ data).length > maxOff then .error .overflow
    else .ok ⟨ob.offsets ++ [(ob.values ++ data).length], ob.values ++ data⟩

/-- pushes a sequence of byte strings -/
def tryPushAll (maxOff : Nat) (validate : Bool) : OffBuf → List (List Nat) → Except Err OffBuf
  | ob, [] => .ok ob
  | ob, d :: ds =>
    match tryPush maxOff ob d validate with
    | .error e => .error e
    | .ok ob' => tryPushAll maxOff validate ob' ds

end ArrowModel.C08
