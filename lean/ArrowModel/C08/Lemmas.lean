import ArrowModel.C08.Spec
import ArrowModel.C08.Model
/-
C08 helper lemmas: ULEB128 arithmetic shared by the varint readers.
-/
namespace ArrowModel.C08
open ArrowModel.Generated.C08 Spec

theorem or_shl_add (acc p s : Nat) (h : acc < 2 ^ s) : acc ||| (p <<< s) = acc + p * 2 ^ s := by
  rw [Nat.or_comm, ← Nat.shiftLeft_add_eq_or_of_lt h, Nat.shiftLeft_eq]; omega

theorem uleb_bound : ∀ (bs : List Nat) (v n : Nat), uleb bs = some (v, n) → v < 2 ^ (7 * n) ∧ 1 ≤ n ∧ n ≤ bs.length := by
  intro bs
  induction bs with
  | nil => intro v n h; simp [uleb] at h
  | cons b bs ih =>
    intro v n h
    simp only [uleb] at h
    split at h
    · simp at h; obtain ⟨rfl, rfl⟩ := h; simp; omega
    · split at h
      · simp at h
      · rename_i v' n' h'
        simp at h; obtain ⟨rfl, rfl⟩ := h
        have := ih v' n' h'
        refine ⟨?_, by omega, by simp; omega⟩
        have e : 2 ^ (7 * (n' + 1)) = 128 * 2 ^ (7 * n') := by
          rw [Nat.mul_add, Nat.pow_add]; simp [Nat.mul_comm]
        omega


theorem pow7 (s : Nat) : 2 ^ (s + 7) = 128 * 2 ^ s := by rw [Nat.pow_add]; omega

/-- one accumulation step `acc |= (p << s) mod 2^64` with `p < 128`, `acc < 2^s` -/
theorem step_lt (acc p s : Nat) (ha : acc < 2 ^ s) (ha64 : acc < 2 ^ 64) (hp : p < 128) :
    (acc ||| wshl64 p s) < 2 ^ (s + 7) ∧ (acc ||| wshl64 p s) < 2 ^ 64 := by
  have h1 : wshl64 p s < 2 ^ 64 := by unfold wshl64 two64; exact Nat.mod_lt _ (by decide)
  have h2 : wshl64 p s < 2 ^ (s + 7) := by
    unfold wshl64 two64
    apply Nat.lt_of_le_of_lt (Nat.mod_le _ _)
    rw [Nat.shiftLeft_eq]
    have : 2 ^ (s % 64) ≤ 2 ^ s := Nat.pow_le_pow_right (by decide) (Nat.mod_le _ _)
    rw [pow7]
    have := Nat.mul_lt_mul_of_lt_of_le hp this (Nat.two_pow_pos _)
    exact this
  have h3 : acc < 2 ^ (s + 7) := Nat.lt_of_lt_of_le ha (Nat.pow_le_pow_right (by decide) (by omega))
  exact ⟨Nat.or_lt_two_pow h3 h2, Nat.or_lt_two_pow ha64 h1⟩

theorem step_eq (acc p s : Nat) (ha : acc < 2 ^ s) (hs : s ≤ 63) (hfit : p * 2 ^ s < 2 ^ 64) :
    (acc ||| wshl64 p s) = acc + p * 2 ^ s := by
  unfold wshl64 two64
  rw [Nat.mod_eq_of_lt (show s < 64 by omega)]
  have e : p <<< s = p * 2 ^ s := Nat.shiftLeft_eq _ _
  have : (p <<< s) % 2 ^ 64 = p <<< s := by rw [e]; exact Nat.mod_eq_of_lt hfit
  rw [this]; exact or_shl_add _ _ _ ha

theorem thriftVlqLoop_spec : ∀ (bs : List Nat) (acc s : Nat), acc < 2 ^ s → acc < 2 ^ 64 →
    match uleb bs with
    | none => thriftVlqLoop acc s bs = .error .eof
    | some (v, n) => ∃ w, thriftVlqLoop acc s bs = .ok (w, bs.drop n) ∧ w < 2 ^ 64 ∧
        (s + 7 * n ≤ 70 → acc + v * 2 ^ s < 2 ^ 64 → w = acc + v * 2 ^ s) := by
  intro bs
  induction bs with
  | nil => intro acc s _ _; simp [uleb, thriftVlqLoop]
  | cons b bs ih =>
    intro acc s ha ha64
    have hst := step_lt acc (b % 128) s ha ha64 (Nat.mod_lt _ (by decide))
    simp only [uleb, thriftVlqLoop, THRIFT_VLQ_PAYLOAD, THRIFT_VLQ_CONT, THRIFT_VLQ_SHIFT_STEP]
    by_cases hb : b < 128
    · simp only [hb, if_true]
      refine ⟨_, rfl, hst.2, ?_⟩
      intro h1 h2
      rw [Nat.mod_eq_of_lt hb]
      apply step_eq _ _ _ ha (by omega)
      omega
    · simp only [hb, if_false]
      have ih' := ih (acc ||| wshl64 (b % 128) s) (s + 7) hst.1 hst.2
      cases hu : uleb bs with
      | none => simp only [hu] at ih' ⊢; exact ih'
      | some r =>
        obtain ⟨v', n'⟩ := r
        simp only [hu] at ih' ⊢
        obtain ⟨w, hw, hw64, hval⟩ := ih'
        refine ⟨w, by simpa using hw, hw64, ?_⟩
        intro h1 h2
        have hn' := (uleb_bound bs v' n' hu).2.1
        have hp : b % 128 < 128 := Nat.mod_lt _ (by decide)
        have e7 := pow7 s
        have hexp : (b % 128 + 128 * v') * 2 ^ s = b % 128 * 2 ^ s + v' * 2 ^ (s + 7) := by
          rw [e7, Nat.add_mul]; congr 1; rw [Nat.mul_comm 128 v', Nat.mul_assoc]
        have hse : (acc ||| wshl64 (b % 128) s) = acc + b % 128 * 2 ^ s := by
          apply step_eq _ _ _ ha (by omega)
          have : b % 128 * 2 ^ s ≤ (b % 128 + 128 * v') * 2 ^ s := by rw [hexp]; omega
          omega
        rw [hval (by omega) (by rw [hse]; omega), hse, hexp]; omega

theorem thriftReadVlq_spec (bs : List Nat) :
    match uleb bs with
    | none => thriftReadVlq bs = .error .eof
    | some (v, n) => ∃ w, thriftReadVlq bs = .ok (w, bs.drop n) ∧ w < 2 ^ 64 ∧
        (n ≤ 10 → v < 2 ^ 64 → w = v) := by
  cases bs with
  | nil => simp [uleb, thriftReadVlq]
  | cons b bs =>
    simp only [uleb, thriftReadVlq, THRIFT_VLQ_PAYLOAD, THRIFT_VLQ_CONT, THRIFT_VLQ_SHIFT0]
    by_cases hb : b < 128
    · simp only [hb, if_true]
      exact ⟨b, by simp, by omega, fun _ _ => rfl⟩
    · simp only [hb, if_false]
      have hp : b % 128 < 128 := Nat.mod_lt _ (by decide)
      have h := thriftVlqLoop_spec bs (b % 128) 7 (by omega) (by omega)
      cases hu : uleb bs with
      | none => simp only [hu] at h ⊢; exact h
      | some r =>
        obtain ⟨v', n'⟩ := r
        simp only [hu] at h ⊢
        obtain ⟨w, hw, hw64, hval⟩ := h
        refine ⟨w, by simpa using hw, hw64, ?_⟩
        intro h1 h2
        rw [hval (by omega) (by omega)]; omega

theorem shl64_eq_wshl64 (x s : Nat) (h : s < 64) : shl64 x s = wshl64 x s := by
  unfold shl64 wshl64; rw [Nat.mod_eq_of_lt h]

theorem avroSlowGo_ten (value : Nat) (bs : List Nat) : avroSlowGo 10 value bs = none := by
  cases bs <;> simp [avroSlowGo, AVRO_SLOW_MAX]

theorem pow7c (c : Nat) : 2 ^ ((c + 1) * 7) = 128 * 2 ^ (c * 7) := by
  rw [Nat.add_mul, Nat.one_mul]; exact pow7 _

theorem avroSlowGo_spec : ∀ (bs : List Nat) (count value : Nat), count ≤ 10 → value < 2 ^ (count * 7) →
    avroSlowGo count value bs =
      match uleb bs with
      | none => none
      | some (v, n) =>
        if count + n ≤ 10 ∧ value + v * 2 ^ (count * 7) < 2 ^ 64 then some (value + v * 2 ^ (count * 7), count + n)
        else none := by
  intro bs
  induction bs with
  | nil => intro c v _ _; simp [uleb, avroSlowGo]
  | cons b bs ih =>
    intro c value hc hv
    by_cases hc10 : c = 10
    · subst hc10
      rw [avroSlowGo_ten]
      cases hu : uleb (b :: bs) with
      | none => rfl
      | some r =>
        obtain ⟨v, n⟩ := r
        have := (uleb_bound _ _ _ hu).2.1
        simp; omega
    have hc9 : c ≤ 9 := by omega
    have hs : c * 7 ≤ 63 := by omega
    have hv64 : value < 2 ^ 64 := Nat.lt_of_lt_of_le hv (Nat.pow_le_pow_right (by decide) (by omega))
    have hp : b % 128 < 128 := Nat.mod_lt _ (by decide)
    simp only [uleb, avroSlowGo, AVRO_SLOW_MAX, AVRO_SLOW_LAST_IDX, AVRO_SLOW_LAST_LIMIT]
    have h10 : ¬ c ≥ 10 := by omega
    simp only [h10, if_false]
    rw [shl64_eq_wshl64 _ _ (show c * 7 < 64 by omega)]
    by_cases hb : b < 128
    · have hb' : b ≤ 127 := by omega
      simp only [hb, hb', if_true]
      rw [Nat.mod_eq_of_lt hb]
      by_cases hc9' : c = 9
      · subst hc9'
        by_cases hb2 : b < 2
        · have hb01 : b = 0 ∨ b = 1 := by omega
          have : value + b * 2 ^ (9 * 7) < 2 ^ 64 := by rcases hb01 with rfl | rfl <;> omega
          rw [step_eq _ _ _ hv hs (by omega)]
          simp [hb2, this]
        · have : ¬ (value + b * 2 ^ (9 * 7) < 2 ^ 64) := by
            have : 2 * 2 ^ (9 * 7) ≤ b * 2 ^ (9 * 7) := Nat.mul_le_mul_right _ (by omega)
            omega
          simp [hb2, this]
      · have hlt : value + b * 2 ^ (c * 7) < 2 ^ 64 := by
          have h1 : b * 2 ^ (c * 7) ≤ 127 * 2 ^ (c * 7) := Nat.mul_le_mul_right _ (by omega)
          have h2 : 2 ^ ((c + 1) * 7) ≤ 2 ^ 63 := Nat.pow_le_pow_right (by decide) (by omega)
          have := pow7c c
          omega
        rw [step_eq _ _ _ hv hs (by omega)]
        simp [hc9', hlt]; omega
    · have hb' : ¬ b ≤ 127 := by omega
      simp only [hb, hb', if_false]
      by_cases hc9' : c = 9
      · subst hc9'
        rw [avroSlowGo_ten]
        cases hu : uleb bs with
        | none => rfl
        | some r =>
          obtain ⟨v, n⟩ := r
          have := (uleb_bound _ _ _ hu).2.1
          simp; omega
      · have hc8 : c ≤ 8 := by omega
        have hfit : b % 128 * 2 ^ (c * 7) < 2 ^ 64 := by
          have h1 : b % 128 * 2 ^ (c * 7) ≤ 127 * 2 ^ (c * 7) := Nat.mul_le_mul_right _ (by omega)
          have h2 : 2 ^ ((c + 1) * 7) ≤ 2 ^ 63 := Nat.pow_le_pow_right (by decide) (by omega)
          have := pow7c c
          omega
        have hse := step_eq value (b % 128) (c * 7) hv hs hfit
        have hlt := (step_lt value (b % 128) (c * 7) hv hv64 hp).1
        rw [hse] at hlt ⊢
        have e7 : 2 ^ ((c + 1) * 7) = 2 ^ (c * 7 + 7) := by congr 1; omega
        rw [ih (c + 1) _ (by omega) (by rw [e7]; exact hlt)]
        cases hu : uleb bs with
        | none => rfl
        | some r =>
          obtain ⟨v', n'⟩ := r
          simp only []
          have hexp : (b % 128 + 128 * v') * 2 ^ (c * 7) = b % 128 * 2 ^ (c * 7) + v' * 2 ^ ((c + 1) * 7) := by
            rw [pow7c, Nat.add_mul]; congr 1; rw [Nat.mul_comm 128 v', Nat.mul_assoc]
          rw [hexp]
          have e1 : c + 1 + n' = c + (n' + 1) := by omega
          rw [e1, Nat.add_assoc]

set_option maxRecDepth 8000 in
set_option maxHeartbeats 1600000 in
theorem avroFast_spec (b0 b1 b2 b3 b4 b5 b6 b7 b8 b9 : Nat)
    (h0 : b0 < 256) (h1 : b1 < 256) (h2 : b2 < 256) (h3 : b3 < 256) (h4 : b4 < 256)
    (h5 : b5 < 256) (h6 : b6 < 256) (h7 : b7 < 256) (h8 : b8 < 256) (h9 : b9 < 256) :
    avroReadVarintArray [b0, b1, b2, b3, b4, b5, b6, b7, b8, b9] = uleb64 [b0, b1, b2, b3, b4, b5, b6, b7, b8, b9] := by
  simp only [avroReadVarintArray, avroFastGo, AVRO_FAST_LOOP, AVRO_FAST_LEN, AVRO_FAST_LAST_LIMIT, AVRO_FAST_SUB,
    uleb64, uleb, shl64, two64, Nat.shiftLeft_eq]
  by_cases c0 : b0 < 128
  · simp [c0]; omega
  by_cases c1 : b1 < 128
  · simp [c0, c1]; omega
  by_cases c2 : b2 < 128
  · simp [c0, c1, c2]; omega
  by_cases c3 : b3 < 128
  · simp [c0, c1, c2, c3]; omega
  by_cases c4 : b4 < 128
  · simp [c0, c1, c2, c3, c4]; omega
  by_cases c5 : b5 < 128
  · simp [c0, c1, c2, c3, c4, c5]; omega
  by_cases c6 : b6 < 128
  · simp [c0, c1, c2, c3, c4, c5, c6]; omega
  by_cases c7 : b7 < 128
  · simp [c0, c1, c2, c3, c4, c5, c6, c7]; omega
  by_cases c8 : b8 < 128
  · simp [c0, c1, c2, c3, c4, c5, c6, c7, c8]; omega
  by_cases c9 : b9 < 128
  · simp [c0, c1, c2, c3, c4, c5, c6, c7, c8, c9]
    by_cases d9 : b9 < 2
    · simp [d9]; omega
    · simp [d9]; omega
  · simp [c0, c1, c2, c3, c4, c5, c6, c7, c8, c9]
    omega

theorem uleb_take : ∀ (bs : List Nat) (k : Nat), uleb (bs.take k) =
    match uleb bs with
    | some (v, n) => if n ≤ k then some (v, n) else none
    | none => none := by
  intro bs
  induction bs with
  | nil => intro k; simp [uleb]
  | cons b bs ih =>
    intro k
    cases k with
    | zero =>
      simp only [List.take, uleb]
      cases hu : uleb (b :: bs) with
      | none => simp [uleb] at hu ⊢; simp [hu]
      | some r =>
        have := (uleb_bound _ _ _ hu).2.1
        simp only [uleb] at hu
        simp [hu]; omega
    | succ k =>
      simp only [List.take, uleb]
      by_cases hb : b < 128
      · simp [hb]
      · simp only [hb, if_false, ih k]
        cases hu : uleb bs with
        | none => rfl
        | some r =>
          obtain ⟨v, n⟩ := r
          simp only []
          by_cases hn : n ≤ k <;> simp [hn]

theorem uleb64_take (bs : List Nat) : uleb64 (bs.take 10) = uleb64 bs := by
  unfold uleb64
  rw [uleb_take]
  cases hu : uleb bs with
  | none => rfl
  | some r =>
    obtain ⟨v, n⟩ := r
    simp only []
    by_cases hn : n ≤ 10 <;> simp [hn]

theorem take10 (bs : List Nat) (h : 10 ≤ bs.length) :
    ∃ b0 b1 b2 b3 b4 b5 b6 b7 b8 b9, bs.take 10 = [b0, b1, b2, b3, b4, b5, b6, b7, b8, b9] := by
  match bs, h with
  | b0 :: b1 :: b2 :: b3 :: b4 :: b5 :: b6 :: b7 :: b8 :: b9 :: rest, _ =>
    exact ⟨b0, b1, b2, b3, b4, b5, b6, b7, b8, b9, by simp⟩
  | [], h | [_], h | [_, _], h | [_, _, _], h | [_, _, _, _], h | [_, _, _, _, _], h
  | [_, _, _, _, _, _], h | [_, _, _, _, _, _, _], h | [_, _, _, _, _, _, _, _], h
  | [_, _, _, _, _, _, _, _, _], h => simp at h

/-- `read_varint` (all three paths) is exactly ULEB128 restricted to u64 -/
theorem avroReadVarint_spec (bs : List Nat) (hb : ∀ b ∈ bs, b < 256) : avroReadVarint bs = uleb64 bs := by
  cases bs with
  | nil => simp [avroReadVarint, uleb64, uleb]
  | cons first rest =>
    simp only [avroReadVarint, AVRO_FAST_LEN]
    by_cases hf : first < 128
    · simp [hf, uleb64, uleb]; omega
    · simp only [hf, if_false]
      by_cases hl : 10 ≤ (first :: rest).length
      · simp only [hl, if_true]
        obtain ⟨b0, b1, b2, b3, b4, b5, b6, b7, b8, b9, ht⟩ := take10 _ hl
        rw [← uleb64_take, ht]
        have hm : ∀ b ∈ [b0, b1, b2, b3, b4, b5, b6, b7, b8, b9], b < 256 := by
          intro b hbm; rw [← ht] at hbm; exact hb b (List.mem_of_mem_take hbm)
        simp only [List.mem_cons, List.not_mem_nil, or_false, forall_eq_or_imp, forall_eq] at hm
        obtain ⟨m0, m1, m2, m3, m4, m5, m6, m7, m8, m9⟩ := hm
        exact avroFast_spec _ _ _ _ _ _ _ _ _ _ m0 m1 m2 m3 m4 m5 m6 m7 m8 m9
      · simp only [hl, if_false, avroReadVarintSlow]
        rw [avroSlowGo_spec _ 0 0 (by omega) (by simp)]
        unfold uleb64
        cases hu : uleb (first :: rest) with
        | none => rfl
        | some r => obtain ⟨v, n⟩ := r; simp

theorem pow7k (k : Nat) : 2 ^ (7 * (k + 1)) = 128 * 2 ^ (7 * k) := by
  rw [Nat.mul_add, Nat.mul_one]; exact pow7 _

theorem vlqLong_spec : ∀ (bs : List Nat) (k ip sh : Nat), sh = 7 * k → k ≤ 9 → ip < 2 ^ (7 * k) →
    match uleb bs with
    | some (v, n) =>
      vlqLong ⟨ip, sh⟩ bs =
        if k + n ≤ 10 ∧ ip + v * 2 ^ (7 * k) < 2 ^ 64 then .value (zigzagInt (ip + v * 2 ^ (7 * k))) (bs.drop n)
        else .error (bs.drop (9 - k))
    | none =>
      if 10 ≤ k + bs.length then vlqLong ⟨ip, sh⟩ bs = .error (bs.drop (9 - k))
      else ∃ st, vlqLong ⟨ip, sh⟩ bs = .pending st := by
  intro bs
  induction bs with
  | nil => intro k ip sh _ hk _; simp [uleb, vlqLong]; omega
  | cons b bs ih =>
    intro k ip sh hsh hk hip
    subst hsh
    have hp : b % 128 < 128 := Nat.mod_lt _ (by decide)
    have hs : 7 * k ≤ 63 := by omega
    have hip64 : ip < 2 ^ 64 := Nat.lt_of_lt_of_le hip (Nat.pow_le_pow_right (by decide) (by omega))
    simp only [uleb, vlqLong, AVRO_STREAM_LAST_SHIFT, AVRO_STREAM_LAST_LIMIT, AVRO_STREAM_SHIFT_STEP]
    rw [shl64_eq_wshl64 _ _ (show 7 * k < 64 by omega)]
    by_cases hk9 : k = 9
    · subst hk9
      by_cases hb2 : b ≥ 2
      · have hc : (7 * 9 = 63 ∧ b ≥ 2) := ⟨rfl, hb2⟩
        simp only [hc, if_true]
        by_cases hb : b < 128
        · simp only [hb, if_true]
          have : ¬ (ip + b * 2 ^ (7 * 9) < 2 ^ 64) := by
            have : 2 * 2 ^ (7 * 9) ≤ b * 2 ^ (7 * 9) := Nat.mul_le_mul_right _ hb2
            omega
          simp [this]
        · simp only [hb, if_false]
          cases hu : uleb bs with
          | none => simp [show 10 ≤ 9 + (bs.length + 1) by omega]
          | some r =>
            obtain ⟨v', n'⟩ := r
            have := (uleb_bound _ _ _ hu).2.1
            have : ¬ (9 + (n' + 1) ≤ 10) := by omega
            simp [this]
      · have hc : ¬ (7 * 9 = 63 ∧ b ≥ 2) := fun h => hb2 h.2
        have hb : b < 128 := by omega
        simp only [hc, hb, if_true, if_false]
        rw [Nat.mod_eq_of_lt hb]
        have hb01 : b = 0 ∨ b = 1 := by omega
        have hfit : ip + b * 2 ^ (7 * 9) < 2 ^ 64 := by rcases hb01 with rfl | rfl <;> omega
        rw [step_eq _ _ _ hip hs (by omega)]
        simp [hfit]; omega
    · have hk8 : k ≤ 8 := by omega
      have hc : ¬ (7 * k = 63 ∧ b ≥ 2) := fun h => by omega
      simp only [hc, if_false]
      have h2 : 2 ^ (7 * (k + 1)) ≤ 2 ^ 63 := Nat.pow_le_pow_right (by decide) (by omega)
      have e7 := pow7k k
      have hfit : b % 128 * 2 ^ (7 * k) < 2 ^ 64 := by
        have h1 : b % 128 * 2 ^ (7 * k) ≤ 127 * 2 ^ (7 * k) := Nat.mul_le_mul_right _ (by omega)
        omega
      have hse := step_eq ip (b % 128) (7 * k) hip hs hfit
      have hlt := (step_lt ip (b % 128) (7 * k) hip hip64 hp).1
      rw [hse] at hlt ⊢
      by_cases hb : b < 128
      · simp only [hb, if_true]
        rw [Nat.mod_eq_of_lt hb] at hlt ⊢
        have : ip + b * 2 ^ (7 * k) < 2 ^ 64 := by
          have : 2 ^ (7 * k + 7) = 2 ^ (7 * (k + 1)) := by congr 1
          omega
        simp [this]; omega
      · simp only [hb, if_false]
        have ih' := ih (k + 1) (ip + b % 128 * 2 ^ (7 * k)) (7 * k + 7) (by omega) (by omega)
          (by have : 2 ^ (7 * k + 7) = 2 ^ (7 * (k + 1)) := by congr 1
              omega)
        cases hu : uleb bs with
        | none =>
          simp only [hu] at ih' ⊢
          have e1 : (b :: bs).length = bs.length + 1 := rfl
          have e2 : (b :: bs).drop (9 - k) = bs.drop (9 - (k + 1)) := by
            have : 9 - k = (9 - (k + 1)) + 1 := by omega
            rw [this]; rfl
          rw [e1, e2]
          have e3 : (10 ≤ k + (bs.length + 1)) = (10 ≤ k + 1 + bs.length) := by
            apply propext; constructor <;> intro h <;> omega
          simp only [e3]; exact ih'
        | some r =>
          obtain ⟨v', n'⟩ := r
          simp only [hu] at ih' ⊢
          rw [ih']
          have hexp : (b % 128 + 128 * v') * 2 ^ (7 * k) = b % 128 * 2 ^ (7 * k) + v' * 2 ^ (7 * (k + 1)) := by
            rw [e7, Nat.add_mul]; congr 1; rw [Nat.mul_comm 128 v', Nat.mul_assoc]
          have e2 : (b :: bs).drop (9 - k) = bs.drop (9 - (k + 1)) := by
            have : 9 - k = (9 - (k + 1)) + 1 := by omega
            rw [this]; rfl
          have e4 : (b :: bs).drop (n' + 1) = bs.drop n' := rfl
          rw [hexp, e2, e4]
          simp only [Nat.add_assoc, Nat.add_comm 1 n']

theorem bitReaderVlqGo_spec : ∀ (bs : List Nat) (i v sh : Nat), sh = 7 * i → i ≤ 10 → v < 2 ^ (7 * i) → v < 2 ^ 64 →
    match uleb bs with
    | some (val, n) =>
      if i + n ≤ 10 then
        ∃ w, bitReaderVlqGo i sh v bs = .ok (some (w, i + n)) ∧ w < 2 ^ 64 ∧
          (v + val * 2 ^ (7 * i) < 2 ^ 64 → w = v + val * 2 ^ (7 * i))
      else bitReaderVlqGo i sh v bs = .ok none
    | none =>
      if 11 ≤ i + bs.length then bitReaderVlqGo i sh v bs = .ok none
      else bitReaderVlqGo i sh v bs = .ok none := by
  intro bs
  induction bs with
  | nil => intro i v sh _ hi _ _; simp [uleb, bitReaderVlqGo]
  | cons b bs ih =>
    intro i v sh hsh hi hv hv64
    subst hsh
    have hp : b % 128 < 128 := Nat.mod_lt _ (by decide)
    simp only [uleb, bitReaderVlqGo, BITREADER_VLQ_STEP, MAX_VLQ_BYTE_LEN]
    by_cases hi10 : i = 10
    · subst hi10
      have hc : 7 * 10 + 7 > 10 * 7 := by omega
      simp only [hc, if_true]
      by_cases hb : b < 128
      · simp [hb]
      · simp only [hb, if_false]
        cases hu : uleb bs with
        | none => simp [show 11 ≤ 10 + (bs.length + 1) by omega]
        | some r => obtain ⟨v', n'⟩ := r; simp
    · have hi9 : i ≤ 9 := by omega
      have hc : ¬ (7 * i + 7 > 10 * 7) := by omega
      simp only [hc, if_false]
      have hst := step_lt v (b % 128) (7 * i) hv hv64 hp
      by_cases hb : b < 128
      · simp only [hb, if_true]
        have : i + 1 ≤ 10 := by omega
        simp only [this, if_true]
        refine ⟨_, rfl, hst.2, ?_⟩
        intro hfit
        rw [Nat.mod_eq_of_lt hb]
        exact step_eq _ _ _ hv (by omega) (by omega)
      · simp only [hb, if_false]
        have e7 : 2 ^ (7 * i + 7) = 2 ^ (7 * (i + 1)) := by congr 1
        have ih' := ih (i + 1) (v ||| wshl64 (b % 128) (7 * i)) (7 * i + 7) (by omega) (by omega)
          (by rw [← e7]; exact hst.1) hst.2
        cases hu : uleb bs with
        | none =>
          simp only [hu] at ih' ⊢
          have e1 : (b :: bs).length = bs.length + 1 := rfl
          have e3 : (11 ≤ i + (bs.length + 1)) = (11 ≤ i + 1 + bs.length) := by
            apply propext; constructor <;> intro h <;> omega
          rw [e1]; simp only [e3]; exact ih'
        | some r =>
          obtain ⟨v', n'⟩ := r
          simp only [hu] at ih' ⊢
          have hn' := (uleb_bound _ _ _ hu).2.1
          have e3 : (i + 1 + n' ≤ 10) = (i + (n' + 1) ≤ 10) := by
            apply propext; constructor <;> intro h <;> omega
          simp only [e3] at ih'
          by_cases hle : i + (n' + 1) ≤ 10
          · simp only [hle, if_true] at ih' ⊢
            obtain ⟨w, hw, hw64, hval⟩ := ih'
            have e4 : i + 1 + n' = i + (n' + 1) := by omega
            refine ⟨w, by rw [hw, e4], hw64, ?_⟩
            intro hfit
            have hexp : (b % 128 + 128 * v') * 2 ^ (7 * i) = b % 128 * 2 ^ (7 * i) + v' * 2 ^ (7 * (i + 1)) := by
              rw [pow7k, Nat.add_mul]; congr 1; rw [Nat.mul_comm 128 v', Nat.mul_assoc]
            have hse : (v ||| wshl64 (b % 128) (7 * i)) = v + b % 128 * 2 ^ (7 * i) := by
              apply step_eq _ _ _ hv (by omega)
              have : b % 128 * 2 ^ (7 * i) ≤ (b % 128 + 128 * v') * 2 ^ (7 * i) := by rw [hexp]; omega
              omega
            rw [hval (by rw [hse]; omega), hse, hexp]; omega
          · simp only [hle, if_false] at ih' ⊢
            exact ih'

theorem zigzag64_toInt (x : BitVec 64) : (zigzag64 x).toInt = unzigzag x.toNat := by
  unfold zigzag64 unzigzag
  by_cases h : x.toNat % 2 = 0
  · have h1 : x &&& 1#64 = 0#64 := by
      apply BitVec.eq_of_toNat_eq; simp [BitVec.toNat_and]; omega
    rw [h1]; simp only [BitVec.neg_zero, BitVec.xor_zero, h, if_true]
    rw [BitVec.toInt_eq_toNat_of_lt]
    · simp [BitVec.toNat_ushiftRight, Nat.shiftRight_eq_div_pow]
    · simp [BitVec.toNat_ushiftRight, Nat.shiftRight_eq_div_pow]; omega
  · have h1 : x &&& 1#64 = 1#64 := by
      apply BitVec.eq_of_toNat_eq; simp [BitVec.toNat_and]; omega
    rw [h1]; simp only [h, if_false]
    have h2 : -(1#64) = BitVec.allOnes 64 := by decide
    rw [h2, BitVec.xor_allOnes, BitVec.toInt_not]
    simp only [BitVec.toNat_ushiftRight, Nat.shiftRight_eq_div_pow]
    have := x.isLt
    unfold Int.bmod
    simp only [Nat.pow_one]
    omega

theorem zigzagInt_spec (v : Nat) (h : v < 2 ^ 64) : zigzagInt v = unzigzag v := by
  unfold zigzagInt; rw [zigzag64_toInt]; simp [BitVec.toNat_ofNat, Nat.mod_eq_of_lt h]

theorem validUtf8_split : ∀ (n : Nat) (a b : List Nat), a.length = n → validUtf8 (a ++ b) = true →
    (∀ x ∈ b.head?, isCont x = false) → validUtf8 a = true ∧ validUtf8 b = true := by
  intro n
  induction n using Nat.strongRecOn with
  | _ n ih =>
    intro a b hn hv hb
    match a, hn with
    | [], _ => simpa [validUtf8] using hv
    | b0 :: ra, hn =>
      simp only [List.cons_append] at hv
      have e1 := validUtf8.eq_def (b0 :: (ra ++ b))
      have e2 := validUtf8.eq_def (b0 :: ra)
      simp only [] at e1 e2
      rw [e1] at hv
      rw [e2]
      clear e1 e2
      by_cases c1 : b0 < 128
      · simp only [c1, if_true] at hv ⊢
        exact ih ra.length (by simp at hn; omega) ra b rfl hv hb
      simp only [c1, if_false] at hv ⊢
      by_cases c2 : 194 ≤ b0 ∧ b0 < 224
      · simp only [c2, and_self, if_true] at hv ⊢
        match ra, hn with
        | [], _ =>
          match b, hb with
          | [], _ => simp at hv
          | x :: r, hb =>
            have := hb x (by simp)
            simp [this] at hv
        | b1 :: ra', hn =>
          simp only [List.cons_append, Bool.and_eq_true] at hv ⊢
          have := ih ra'.length (by simp at hn; omega) ra' b rfl hv.2 hb
          exact ⟨⟨hv.1, this.1⟩, this.2⟩
      simp only [c2, if_false] at hv ⊢
      by_cases c3 : 224 ≤ b0 ∧ b0 < 240
      · simp only [c3, and_self, if_true] at hv ⊢
        match ra, hn with
        | [], _ =>
          match b, hb with
          | [], _ => simp at hv
          | [x], hb => simp at hv
          | x :: y :: r, hb =>
            have := hb x (by simp)
            simp [this] at hv
        | [b1], _ =>
          match b, hb with
          | [], _ => simp at hv
          | x :: r, hb =>
            have := hb x (by simp)
            simp [this] at hv
        | b1 :: b2 :: ra', hn =>
          simp only [List.cons_append, Bool.and_eq_true] at hv ⊢
          have := ih ra'.length (by simp at hn; omega) ra' b rfl hv.2 hb
          exact ⟨⟨hv.1, this.1⟩, this.2⟩
      simp only [c3, if_false] at hv ⊢
      by_cases c4 : 240 ≤ b0 ∧ b0 < 245
      · simp only [c4, and_self, if_true] at hv ⊢
        match ra, hn with
        | [], _ =>
          match b, hb with
          | [], _ => simp at hv
          | [x], hb => simp at hv
          | [x, y], hb => simp at hv
          | x :: y :: z :: r, hb =>
            have := hb x (by simp)
            simp [this] at hv
        | [b1], _ =>
          match b, hb with
          | [], _ => simp at hv
          | [x], hb => simp at hv
          | x :: y :: r, hb =>
            have := hb x (by simp)
            simp [this] at hv
        | [b1, b2], _ =>
          match b, hb with
          | [], _ => simp at hv
          | x :: r, hb =>
            have := hb x (by simp)
            simp [this] at hv
        | b1 :: b2 :: b3 :: ra', hn =>
          simp only [List.cons_append, Bool.and_eq_true] at hv ⊢
          have := ih ra'.length (by simp at hn; omega) ra' b rfl hv.2 hb
          exact ⟨⟨hv.1, this.1⟩, this.2⟩
      · simp [c4] at hv

end ArrowModel.C08
