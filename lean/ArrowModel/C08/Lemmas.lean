import ArrowModel.C08.Spec
import ArrowModel.C08.Model
/-
C08 helper lemmas: ULEB128 arithmetic shared by the varint readers.
-/
namespace ArrowModel.C08
open ArrowModel.Generated.C08 Spec

theorem or_shl_add (acc p s : Nat) (h : acc < 2 ^ s) : acc ||| (p <<< s) = acc + p * 2 ^ s := by
  rw [Nat.or_comm, ← Nat.shiftLeft_add_eq_or_of_lt h, Nat.shiftLeft_eq]; omega

theorem uleb_bound : ∀ (bs : List Nat) (v n : Nat), uleb bs = some (v, n) → v < 2 ^ (7 * n) ∧ 1 ≤ n ∧ n ≤ bs.length := by
  intro bs
  induction bs with
  | nil => intro v n h; simp [uleb] at h
  | cons b bs ih =>
    intro v n h
    simp only [uleb] at h
    split at h
    · simp at h; obtain ⟨rfl, rfl⟩ := h; simp; omega
    · split at h
      · simp at h
      · rename_i v' n' h'
        simp at h; obtain ⟨rfl, rfl⟩ := h
        have := ih v' n' h'
        refine ⟨?_, by omega, by simp; omega⟩
        have e : 2 ^ (7 * (n' + 1)) = 128 * 2 ^ (7 * n') := by
          rw [Nat.mul_add, Nat.pow_add]; simp [Nat.mul_comm]
        omega


theorem pow7 (s : Nat) : 2 ^ (s + 7) = 128 * 2 ^ s := by rw [Nat.pow_add]; omega

/-- one accumulation step `acc |= (p << s) mod 2^64` with `p < 128`, `acc < 2^s` -/
theorem step_lt (acc p s : Nat) (ha : acc < 2 ^ s) (ha64 : acc < 2 ^ 64) (hp : p < 128) :
    (acc ||| wshl64 p s) < 2 ^ (s + 7) ∧ (acc ||| wshl64 p s) < 2 ^ 64 := by
  have h1 : wshl64 p s < 2 ^ 64 := by unfold wshl64 two64; exact Nat.mod_lt _ (by decide)
  have h2 : wshl64 p s < 2 ^ (s + 7) := by
    unfold wshl64 two64
    apply Nat.lt_of_le_of_lt (Nat.mod_le _ _)
    rw [Nat.shiftLeft_eq]
    have : 2 ^ (s % 64) ≤ 2 ^ s := Nat.pow_le_pow_right (by decide) (Nat.mod_le _ _)
    rw [pow7]
    have := Nat.mul_lt_mul_of_lt_of_le hp this (Nat.two_pow_pos _)
    exact this
  have h3 : acc < 2 ^ (s + 7) := Nat.lt_of_lt_of_le ha (Nat.pow_le_pow_right (by decide) (by omega))
  exact ⟨Nat.or_lt_two_pow h3 h2, Nat.or_lt_two_pow ha64 h1⟩

theorem step_eq (acc p s : Nat) (ha : acc < 2 ^ s) (hs : s ≤ 63) (hfit : p * 2 ^ s < 2 ^ 64) :
    (acc ||| wshl64 p s) = acc + p * 2 ^ s := by
  unfold wshl64 two64
  rw [Nat.mod_eq_of_lt (show s < 64 by omega)]
  have e : p <<< s = p * 2 ^ s := Nat.shiftLeft_eq _ _
  have : (p <<< s) % 2 ^ 64 = p <<< s := by rw [e]; exact Nat.mod_eq_of_lt hfit
  rw [this]; exact or_shl_add _ _ _ ha

theorem thriftVlqLoop_spec : ∀ (bs : List Nat) (acc s : Nat), acc < 2 ^ s → acc < 2 ^ 64 →
    match uleb bs with
    | none => thriftVlqLoop acc s bs = .error .eof
    | some (v, n) => ∃ w, thriftVlqLoop acc s bs = .ok (w, bs.drop n) ∧ w < 2 ^ 64 ∧
        (s + 7 * n ≤ 70 → acc + v * 2 ^ s < 2 ^ 64 → w = acc + v * 2 ^ s) := by
  intro bs
  induction bs with
  | nil => intro acc s _ _; simp [uleb, thriftVlqLoop]
  | cons b bs ih =>
    intro acc s ha ha64
    have hst := step_lt acc (b % 128) s ha ha64 (Nat.mod_lt _ (by decide))
    simp only [uleb, thriftVlqLoop, THRIFT_VLQ_PAYLOAD, THRIFT_VLQ_CONT, THRIFT_VLQ_SHIFT_STEP]
    by_cases hb : b < 128
    · simp only [hb, if_true]
      refine ⟨_, rfl, hst.2, ?_⟩
      intro h1 h2
      rw [Nat.mod_eq_of_lt hb]
      apply step_eq _ _ _ ha (by omega)
      omega
    · simp only [hb, if_false]
      have ih' := ih (acc ||| wshl64 (b % 128) s) (s + 7) hst.1 hst.2
      cases hu : uleb bs with
      | none => simp only [hu] at ih' ⊢; exact ih'
      | some r =>
        obtain ⟨v', n'⟩ := r
        simp only [hu] at ih' ⊢
        obtain ⟨w, hw, hw64, hval⟩ := ih'
        refine ⟨w, by simpa using hw, hw64, ?_⟩
        intro h1 h2
        have hn' := (uleb_bound bs v' n' hu).2.1
        have hp : b % 128 < 128 := Nat.mod_lt _ (by decide)
        have e7 := pow7 s
        have hexp : (b % 128 + 128 * v') * 2 ^ s = b % 128 * 2 ^ s + v' * 2 ^ (s + 7) := by
          rw [e7, Nat.add_mul]; congr 1; rw [Nat.mul_comm 128 v', Nat.mul_assoc]
        have hse : (acc ||| wshl64 (b % 128) s) = acc + b % 128 * 2 ^ s := by
          apply step_eq _ _ _ ha (by omega)
          have : b % 128 * 2 ^ s ≤ (b % 128 + 128 * v') * 2 ^ s := by rw [hexp]; omega
          omega
        rw [hval (by omega) (by rw [hse]; omega), hse, hexp]; omega

end ArrowModel.C08
