import ArrowModel.C08.Lemmas
/-
C08 theorems: what the modelled acceptance logic guarantees — and where the code as
written does *not* have the property (negative results carry a concrete witness that the
harness replays on the real code).
-/
namespace ArrowModel.C08
open ArrowModel.Generated.C08 Spec

/-! ### (2) the varint readers against ULEB128 -/

/-- **thrift `read_vlq` vs ULEB128, exact relation.**  `read_vlq` fails (with `Eof`, its only
error) exactly when the input has no terminating byte; otherwise it consumes exactly the
ULEB128 token (`n` bytes, *however long*), returns a `u64`, and that value is the ULEB128
value whenever the token has at most ten bytes and the value fits `u64`.  Nothing is said
(because nothing holds) about the value of longer or overflowing tokens: see
`thrift_vlq_overlong_accepted`. -/
theorem thrift_vlq_relation (bs : List Nat) :
    match uleb bs with
    | none => thriftReadVlq bs = .error .eof
    | some (v, n) => ∃ w, thriftReadVlq bs = .ok (w, bs.drop n) ∧ w < 2 ^ 64 ∧
        (n ≤ 10 → v < 2 ^ 64 → w = v) :=
  thriftReadVlq_spec bs

example : thriftReadVlq [0xAC, 0x02, 0x55] = .ok (300, [0x55]) := by rfl

/-- corollary: on every input that ULEB128-u64 accepts, `read_vlq` returns the same value
and length -/
theorem thrift_vlq_agrees_on_valid (bs : List Nat) (v n : Nat) (h : uleb64 bs = some (v, n)) :
    thriftReadVlq bs = .ok (v, bs.drop n) := by
  have := thrift_vlq_relation bs
  unfold uleb64 at h
  cases hu : uleb bs with
  | none => simp [hu] at h
  | some r =>
    obtain ⟨v', n'⟩ := r
    simp only [hu] at this h
    by_cases hc : n' ≤ 10 ∧ v' < 2 ^ 64
    · simp only [hc, and_self, if_true, Option.some.injEq, Prod.mk.injEq] at h
      obtain ⟨rfl, rfl⟩ := h
      obtain ⟨w, hw, _, hv⟩ := this
      rw [hw, hv hc.1 hc.2]
    · simp [hc] at h

/-- **negative result**: thrift `read_vlq` is *not* ULEB128-u64: an eleven-byte token whose
value is `2^70` is accepted and decoded as `64` (the eleventh group is OR-ed in at shift
`70 & 63 = 6`).  Not a memory-safety problem, but values are silently garbled instead of
rejected. -/
theorem thrift_vlq_overlong_accepted :
    thriftReadVlq [0x80, 0x80, 0x80, 0x80, 0x80, 0x80, 0x80, 0x80, 0x80, 0x80, 0x01] = .ok (64, []) ∧
    uleb64 [0x80, 0x80, 0x80, 0x80, 0x80, 0x80, 0x80, 0x80, 0x80, 0x80, 0x01] = none := by
  constructor <;> rfl

/-- **Avro `read_varint` (one-byte path, unrolled `read_varint_array`, `read_varint_slow`)
is exactly ULEB128-u64** on every byte string: same accept/reject, same value, same length.
In particular the add/subtract trick of `read_varint_array` never wraps. -/
theorem avro_read_varint_eq_uleb64 (bs : List Nat) (hb : ∀ b ∈ bs, b < 256) :
    avroReadVarint bs = uleb64 bs :=
  avroReadVarint_spec bs hb

example : avroReadVarint [0xFF, 0xFF, 0xFF, 0xFF, 0xFF, 0xFF, 0xFF, 0xFF, 0xFF, 0x01, 0x00] = some (2 ^ 64 - 1, 10) := by rfl

/-- `read_varint_array` alone, on any ten bytes -/
theorem avro_read_varint_array_eq_uleb64 (b0 b1 b2 b3 b4 b5 b6 b7 b8 b9 : Nat)
    (h0 : b0 < 256) (h1 : b1 < 256) (h2 : b2 < 256) (h3 : b3 < 256) (h4 : b4 < 256)
    (h5 : b5 < 256) (h6 : b6 < 256) (h7 : b7 < 256) (h8 : b8 < 256) (h9 : b9 < 256) :
    avroReadVarintArray [b0, b1, b2, b3, b4, b5, b6, b7, b8, b9] = uleb64 [b0, b1, b2, b3, b4, b5, b6, b7, b8, b9] :=
  avroFast_spec b0 b1 b2 b3 b4 b5 b6 b7 b8 b9 h0 h1 h2 h3 h4 h5 h6 h7 h8 h9

/-- `read_varint_slow` alone, on any input (it is also correct on inputs of ten or more bytes) -/
theorem avro_read_varint_slow_eq_uleb64 (bs : List Nat) : avroReadVarintSlow bs = uleb64 bs := by
  unfold avroReadVarintSlow
  rw [avroSlowGo_spec _ 0 0 (by omega) (by simp)]
  unfold uleb64
  cases hu : uleb bs with
  | none => rfl
  | some r => obtain ⟨v, n⟩ := r; simp

/-- **streaming `VLQDecoder::long` from a fresh state**: returns the zig-zag decoding of the
ULEB128-u64 value and consumes exactly the token when ULEB128-u64 accepts; returns an error
(without consuming the tenth byte) when ten bytes do not hold a `u64`; and asks for more
input (`Ok(None)`) only when fewer than ten bytes, all with the continuation bit, are present. -/
theorem avro_vlq_long_relation (bs : List Nat) :
    match uleb bs with
    | some (v, n) =>
      vlqLong ⟨0, 0⟩ bs =
        if n ≤ 10 ∧ v < 2 ^ 64 then .value (unzigzag v) (bs.drop n) else .error (bs.drop 9)
    | none =>
      if 10 ≤ bs.length then vlqLong ⟨0, 0⟩ bs = .error (bs.drop 9)
      else ∃ st, vlqLong ⟨0, 0⟩ bs = .pending st := by
  have h := vlqLong_spec bs 0 0 0 rfl (by omega) (by simp)
  cases hu : uleb bs with
  | none => simpa [hu] using h
  | some r =>
    obtain ⟨v, n⟩ := r
    simp only [hu] at h ⊢
    rw [h]
    by_cases hc : n ≤ 10 ∧ v < 2 ^ 64
    · have hc' : 0 + n ≤ 10 ∧ 0 + v * 2 ^ (7 * 0) < 2 ^ 64 := by simpa using hc
      simp only [hc, hc', and_self, if_true]
      simp [zigzagInt_spec v hc.2]
    · have hc' : ¬ (0 + n ≤ 10 ∧ 0 + v * 2 ^ (7 * 0) < 2 ^ 64) := by simpa using hc
      simp [hc, hc']

example : vlqLong ⟨0, 0⟩ [0x03, 0x07] = .value (-2) [0x07] := by decide

/-- **Parquet `BitReader::get_vlq_int`** (byte aligned): a token of at most ten bytes is
accepted with its exact length and — when it fits `u64` — its ULEB128 value (a ten-byte token
that overflows is accepted with its high bits dropped); with eleven or more bytes available
and no terminator among the first ten the function returns `None`, as it does when the
buffer ends first. -/
theorem bitreader_vlq_relation (bs : List Nat) :
    match uleb bs with
    | some (v, n) =>
      if n ≤ 10 then ∃ w, bitReaderVlq bs = .ok (some (w, n)) ∧ w < 2 ^ 64 ∧ (v < 2 ^ 64 → w = v)
      else bitReaderVlq bs = .ok none
    | none =>
      if 11 ≤ bs.length then bitReaderVlq bs = .ok none else bitReaderVlq bs = .ok none := by
  have h := bitReaderVlqGo_spec bs 0 0 0 rfl (by omega) (by simp) (by simp)
  unfold bitReaderVlq
  cases hu : uleb bs with
  | none => simpa [hu] using h
  | some r =>
    obtain ⟨v, n⟩ := r
    simpa [hu] using h

/-- eleven continuation bytes make `get_vlq_int` return `None` (an error for its callers: RLE
level data, DELTA_BINARY_PACKED headers), not a panic -/
theorem bitreader_vlq_rejects_overlong :
    bitReaderVlq [0xFF, 0xFF, 0xFF, 0xFF, 0xFF, 0xFF, 0xFF, 0xFF, 0xFF, 0xFF, 0xFF] = .ok none := by rfl

/-- all four zig-zag decoders compute the mathematical zig-zag inverse -/
theorem zigzag_exact (v : Nat) (h : v < 2 ^ 64) : zigzagInt v = unzigzag v := zigzagInt_spec v h

/-! ### (1) totality and progress -/

/-- `read_vlq` consumes at least one byte of the input it was given and returns a suffix of it
(hence every loop "read a varint, continue with the rest" terminates) -/
theorem thrift_vlq_progress (bs rest : List Nat) (w : Nat) (h : thriftReadVlq bs = .ok (w, rest)) :
    ∃ n, 1 ≤ n ∧ n ≤ bs.length ∧ rest = bs.drop n := by
  have := thrift_vlq_relation bs
  cases hu : uleb bs with
  | none => simp [hu, h] at this
  | some r =>
    obtain ⟨v, n⟩ := r
    simp only [hu] at this
    obtain ⟨w', hw, _⟩ := this
    rw [h] at hw
    simp only [Except.ok.injEq, Prod.mk.injEq] at hw
    have hb := uleb_bound _ _ _ hu
    exact ⟨n, hb.2.1, hb.2.2, hw.2⟩

/-- **negative result**: thrift `read_vlq` has no ten-byte limit — for every `m` there is an
accepted token of `m + 1` bytes. -/
theorem thrift_vlq_no_length_limit (m : Nat) :
    ∃ w, thriftReadVlq (List.replicate m 0x80 ++ [0]) = .ok (w, []) := by
  have hu : ∀ m, uleb (List.replicate m 0x80 ++ [0]) = some (0, m + 1) := by
    intro m
    induction m with
    | zero => rfl
    | succ m ih => simp only [List.replicate_succ, List.cons_append, uleb, ih]; simp
  have := thrift_vlq_relation (List.replicate m 0x80 ++ [0])
  simp only [hu m] at this
  obtain ⟨w, hw, _⟩ := this
  have hd : List.drop (m + 1) (List.replicate m 0x80 ++ [0]) = [] := by
    apply List.drop_eq_nil_of_le; simp
  exact ⟨w, by rw [hw, hd]⟩

/-- a varint accepted by Avro `read_varint` has between one and ten bytes, all inside the input -/
theorem avro_varint_len (bs : List Nat) (hb : ∀ b ∈ bs, b < 256) (v n : Nat)
    (h : avroReadVarint bs = some (v, n)) : 1 ≤ n ∧ n ≤ 10 ∧ n ≤ bs.length ∧ v < 2 ^ 64 := by
  rw [avro_read_varint_eq_uleb64 bs hb] at h
  unfold uleb64 at h
  cases hu : uleb bs with
  | none => simp [hu] at h
  | some r =>
    obtain ⟨v', n'⟩ := r
    simp only [hu] at h
    by_cases hc : n' ≤ 10 ∧ v' < 2 ^ 64
    · simp only [hc, and_self, if_true, Option.some.injEq, Prod.mk.injEq] at h
      obtain ⟨rfl, rfl⟩ := h
      have hb := uleb_bound _ _ _ hu
      exact ⟨hb.2.1, hc.1, hb.2.2, hc.2⟩
    · simp [hc] at h

/-- a varint accepted by `BitReader::get_vlq_int` has between one and ten bytes -/
theorem bitreader_vlq_len (bs : List Nat) (w n : Nat) (h : bitReaderVlq bs = .ok (some (w, n))) :
    1 ≤ n ∧ n ≤ 10 ∧ n ≤ bs.length := by
  have := bitreader_vlq_relation bs
  cases hu : uleb bs with
  | none =>
    simp only [hu] at this
    by_cases hl : 11 ≤ bs.length <;> simp [hl, h] at this
  | some r =>
    obtain ⟨v', n'⟩ := r
    simp only [hu] at this
    have hb := uleb_bound _ _ _ hu
    by_cases hl : n' ≤ 10
    · simp only [hl, if_true] at this
      obtain ⟨w', hw, _⟩ := this
      rw [h] at hw
      simp only [Except.ok.injEq, Option.some.injEq, Prod.mk.injEq] at hw
      omega
    · simp [hl, h] at this

/-- `read_list_begin` consumes at least one byte and returns a suffix; the size it returns is a
non-negative `i32` -/
theorem thrift_list_begin_progress (bs rest : List Nat) (li : ListIdent)
    (h : thriftReadListBegin bs = .ok (li, rest)) :
    (∃ n, 1 ≤ n ∧ n ≤ bs.length ∧ rest = bs.drop n) ∧ li.size ≤ i32Max := by
  cases bs with
  | nil => simp [thriftReadListBegin] at h
  | cons hd tl =>
    simp only [thriftReadListBegin] at h
    by_cases h0 : hd = 0
    · simp only [h0, if_true, Except.ok.injEq, Prod.mk.injEq] at h
      obtain ⟨rfl, rfl⟩ := h
      exact ⟨⟨1, by simp, by simp, rfl⟩, by simp [i32Max]⟩
    · simp only [h0, if_false] at h
      cases het : elementTypeOf (hd % (THRIFT_LIST_TYPE_MASK + 1)) with
      | error e => simp [het] at h
      | ok et =>
        simp only [het] at h
        split at h
        · simp only [Except.ok.injEq, Prod.mk.injEq] at h
          obtain ⟨rfl, rfl⟩ := h
          refine ⟨⟨1, by simp, by simp, rfl⟩, ?_⟩
          simp only [i32Max]
          have : hd / 2 ^ THRIFT_LIST_SIZE_SHIFT % 16 < 16 := Nat.mod_lt _ (by decide)
          omega
        · cases hv : thriftReadVlq tl with
          | error e => simp [hv] at h
          | ok r =>
            obtain ⟨v, rest'⟩ := r
            simp only [hv] at h
            by_cases hle : v ≤ i32Max
            · simp only [hle, if_true, Except.ok.injEq, Prod.mk.injEq] at h
              obtain ⟨rfl, rfl⟩ := h
              obtain ⟨n, h1, h2, h3⟩ := thrift_vlq_progress _ _ _ hv
              exact ⟨⟨n + 1, by omega, by simp only [List.length_cons]; omega, by simp [h3]⟩, hle⟩
            · simp [hle] at h

example : thriftReadListBegin [0x2C, 0x00, 0x00] = .ok (⟨12, 2⟩, [0x00, 0x00]) := by rfl

/-- `read_field_begin` consumes at least one byte and returns a suffix -/
theorem thrift_field_begin_progress (lastId : Int) (bs rest : List Nat) (ty : Nat) (id : Int)
    (h : thriftReadFieldBegin lastId bs = .ok (ty, id, rest)) :
    ∃ n, 1 ≤ n ∧ n ≤ bs.length ∧ rest = bs.drop n := by
  cases bs with
  | nil => simp [thriftReadFieldBegin] at h
  | cons hd tl =>
    simp only [thriftReadFieldBegin] at h
    split at h
    · simp only [Except.ok.injEq, Prod.mk.injEq] at h
      exact ⟨1, by simp, by simp, by simp [h.2.2]⟩
    · split at h
      · simp at h
      · split at h
        · split at h
          · simp at h
          · simp only [Except.ok.injEq, Prod.mk.injEq] at h
            exact ⟨1, by simp, by simp, by simp [h.2.2]⟩
        · unfold thriftReadI16 thriftReadZigZag at h
          cases hv : thriftReadVlq tl with
          | error e => simp [hv] at h
          | ok r =>
            obtain ⟨v, rest'⟩ := r
            simp only [hv, Except.ok.injEq, Prod.mk.injEq] at h
            obtain ⟨n, h1, h2, h3⟩ := thrift_vlq_progress _ _ _ hv
            exact ⟨n + 1, by omega, by simp; omega, by rw [← h.2.2]; simp [h3]⟩

/-- **`read_thrift_vec`, successful case**: if every element reader consumes at least one byte,
a successfully decoded list has at most as many elements as bytes consumed — an `Ok` result is
always backed by input.  (The amplification below is in the reservation made *before* failing.) -/
theorem thrift_read_elems_backed_by_input {α} (elem : List Nat → Except Err (α × List Nat))
    (hprog : ∀ bs x rest, elem bs = .ok (x, rest) → rest.length + 1 ≤ bs.length) :
    ∀ (n : Nat) (bs : List Nat) (xs : List α) (rest : List Nat),
      readElems elem n bs = .ok (xs, rest) → xs.length = n ∧ rest.length + n ≤ bs.length := by
  intro n
  induction n with
  | zero => intro bs xs rest h; simp [readElems] at h; obtain ⟨rfl, rfl⟩ := h; simp
  | succ n ih =>
    intro bs xs rest h
    simp only [readElems] at h
    cases he : elem bs with
    | error e => simp [he] at h
    | ok r =>
      obtain ⟨x, r1⟩ := r
      simp only [he] at h
      cases hr : readElems elem n r1 with
      | error e => simp [hr] at h
      | ok r2 =>
        obtain ⟨xs', r3⟩ := r2
        simp only [hr, Except.ok.injEq, Prod.mk.injEq] at h
        obtain ⟨rfl, rfl⟩ := h
        have := ih _ _ _ hr
        have := hprog _ _ _ he
        simp; omega

/-! ### (4) allocation bounds — and their failure for `read_thrift_vec` -/

/-- the element count `read_thrift_vec` accepts is at most `i32::MAX` -/
theorem thrift_vec_capacity_le_i32max (expected : Nat) (bs rest : List Nat) (n : Nat)
    (h : thriftVecCapacity expected bs = .ok (n, rest)) : n ≤ i32Max := by
  unfold thriftVecCapacity at h
  cases hl : thriftReadListBegin bs with
  | error e => simp [hl] at h
  | ok r =>
    obtain ⟨li, rest'⟩ := r
    simp only [hl] at h
    split at h
    · simp at h
    · simp only [Except.ok.injEq, Prod.mk.injEq] at h
      rw [← h.1]; exact (thrift_list_begin_progress _ _ _ hl).2

/-- **allocation bound of `read_thrift_vec`**: the up-front reservation is bounded by a
constant number of elements and never exceeds the declared size; everything beyond it is
allocated only as elements actually arrive (`thrift_read_elems_backed_by_input`). -/
theorem thrift_vec_reserve_bounded (size : Nat) :
    thriftVecReserve size ≤ THRIFT_LIST_PREALLOC_MAX ∧ thriftVecReserve size ≤ size := by
  unfold thriftVecReserve
  omega

example : thriftVecReserve 2147483647 = 1024 := by decide

/-- **`skip` of a list of `bool` is backed by input**: when it succeeds, the declared number of
elements is at most the number of bytes that followed the list header, and exactly that many
bytes are consumed — the work is bounded by the input length (one byte per element). -/
theorem thrift_skip_bool_list_backed_by_input (bs rest : List Nat)
    (h : thriftSkipBoolList bs = some (.ok rest)) :
    ∃ li r0, thriftReadListBegin bs = .ok (li, r0) ∧ li.size ≤ r0.length ∧ rest = r0.drop li.size ∧
      li.size + rest.length + 1 ≤ bs.length := by
  unfold thriftSkipBoolList at h
  cases hl : thriftReadListBegin bs with
  | error e => simp [hl] at h
  | ok r =>
    obtain ⟨li, r0⟩ := r
    simp only [hl] at h
    split at h
    · simp only [Option.some.injEq] at h
      unfold thriftSkipBytes at h
      split at h
      · simp at h
      · rename_i hlen
        simp only [Except.ok.injEq] at h
        obtain ⟨⟨n, h1, h2, h3⟩, _⟩ := thrift_list_begin_progress _ _ _ hl
        refine ⟨li, r0, rfl, by omega, h.symm, ?_⟩
        subst h
        subst h3
        simp only [List.length_drop] at hlen ⊢
        omega
    · simp at h

/-- the six bytes `F1 FF FF FF FF 07` (list of `2^31 - 1` booleans) that used to cost `2^31 - 1`
loop iterations are now rejected at once: the elements are not there -/
example : thriftSkipBoolList [0xF1, 0xFF, 0xFF, 0xFF, 0xFF, 0x07] = some (.error .eof) := by rfl

example : thriftSkipBoolList [0x31, 0x01, 0x00, 0x02, 0x55] = some (.ok [0x55]) := by rfl

/-- Avro `BlockDecoder`: count and size are non-negative and the reservation made when the
size is known is bounded by the bytes actually present (`c = 1`) -/
theorem avro_block_reserve_le_input (bs rest : List Nat) (count size reserved : Nat)
    (h : blockHeader bs = .ok (count, size, reserved, rest)) :
    reserved ≤ rest.length ∧ reserved ≤ size := by
  unfold blockHeader at h
  split at h <;> try simp at h
  split at h
  · simp at h
  · split at h <;> try simp at h
    split at h
    · simp at h
    · simp only [Except.ok.injEq, Prod.mk.injEq] at h
      obtain ⟨_, _, rfl, rfl⟩ := h
      omega

example : blockHeader [0x02, 0xFE, 0xFF, 0xFF, 0xFF, 0xFF, 0xFF, 0xFF, 0xFF, 0xFF, 0x01, 0x00, 0x00] =
    .ok (1, 2 ^ 63 - 1, 2, [0x00, 0x00]) := by rfl

/-! ### (3) accept ⇒ in-bounds -/

/-- **IPC `read_buffer`**: whenever the slice is taken (no error) the `(offset, length)` pair
lies inside the message body, with no wrap-around, for every `i64` pair including negative
ones.  (`body.len() < 2^64 - 1` always holds for a real buffer.) -/
theorem ipc_slice_in_bounds (bodyLen : Nat) (offset length : Int) (o l : Nat)
    (hbody : bodyLen < 2 ^ 64 - 1) (h : ipcSlice bodyLen offset length = .ok (o, l)) :
    inBounds bodyLen o l ∧ o = asUsize offset ∧ l = asUsize length := by
  unfold ipcSlice at h
  by_cases hc : min (asUsize offset + asUsize length) (two64 - 1) ≤ bodyLen
  · simp only [hc, if_true, Except.ok.injEq, Prod.mk.injEq] at h
    obtain ⟨rfl, rfl⟩ := h
    refine ⟨?_, rfl, rfl⟩
    unfold inBounds
    unfold two64 at hc
    omega
  · simp [hc] at h

/-- … and conversely every in-range non-negative pair is accepted -/
theorem ipc_slice_accepts_in_range (bodyLen o l : Nat) (h : o + l ≤ bodyLen) (hb : bodyLen < 2 ^ 63) :
    ipcSlice bodyLen o l = .ok (o, l) := by
  unfold ipcSlice asUsize two64
  have ho : ((o : Int) % ((2 ^ 64 : Nat) : Int)).toNat = o := by omega
  have hl : ((l : Int) % ((2 ^ 64 : Nat) : Int)).toNat = l := by omega
  simp only [ho, hl]
  have : min (o + l) (2 ^ 64 - 1) ≤ bodyLen := by omega
  simp [this]

/-- an out-of-range pair is rejected with an error: `offset = 0, length = 9` on an 8-byte body,
and `offset = -1`. -/
theorem ipc_slice_rejects_out_of_range :
    ipcSlice 8 0 9 = .error .oob ∧ ipcSlice 8 (-1) 0 = .error .oob := by
  constructor <;> rfl

/-- Avro `get_bytes`: the returned slice is backed by the input (length from input, checked
against what remains; negative lengths rejected) -/
theorem avro_get_bytes_in_bounds (bs out rest : List Nat) (h : avroGetBytes bs = .ok (out, rest)) :
    out.length + rest.length ≤ bs.length := by
  unfold avroGetBytes at h
  cases hg : avroGetLong bs with
  | error e => simp [hg] at h
  | ok r =>
    obtain ⟨len, r1⟩ := r
    simp only [hg] at h
    unfold avroGetLong at hg
    cases hv : avroReadVarint bs with
    | none => simp [hv] at hg
    | some q =>
      obtain ⟨v, n⟩ := q
      simp only [hv, Except.ok.injEq, Prod.mk.injEq] at hg
      obtain ⟨_, rfl⟩ := hg
      split at h
      · simp at h
      · split at h
        · simp at h
        · simp only [Except.ok.injEq, Prod.mk.injEq] at h
          obtain ⟨rfl, rfl⟩ := h
          simp only [List.length_take, List.length_drop]
          omega

/-- offsets produced by `OffsetBuffer::try_push` -/
def OffBuf.wf (ob : OffBuf) : Prop :=
  monotoneWithin ob.values.length ob.offsets ∧ ob.offsets.getLast? = some ob.values.length

theorem monotoneWithin_append (n m : Nat) (h : n ≤ m) :
    ∀ offs : List Nat, monotoneWithin n offs → offs.getLast? = some n → monotoneWithin m (offs ++ [m]) := by
  intro offs
  induction offs with
  | nil => intro _ h2; simp at h2
  | cons a tl ih =>
    intro h1 h2
    cases tl with
    | nil =>
      simp at h2; subst h2
      simp [monotoneWithin]; exact h
    | cons b tl' =>
      simp only [monotoneWithin] at h1
      have h2' : (b :: tl').getLast? = some n := by simpa [List.getLast?_cons_cons] using h2
      have := ih h1.2 h2'
      simp only [List.cons_append, monotoneWithin]
      exact ⟨h1.1, this⟩

/-- **`OffsetBuffer::try_push` keeps the offsets array valid**: monotone, ending at
`values.len()`, never beyond the offset type's maximum — the premises `ArrayData` validation
puts on a byte array.  Holds for every sequence of pushes (`try_push_all_wf`). -/
theorem try_push_wf (maxOff : Nat) (ob ob' : OffBuf) (data : List Nat) (validate : Bool)
    (hwf : ob.wf) (h : tryPush maxOff ob data validate = .ok ob') :
    ob'.wf ∧ ob'.values = ob.values ++ data ∧ ob'.values.length ≤ maxOff ∧
      (validate = true → ∀ b ∈ data.head?, ¬ isCont b) := by
  have key : ∀ (hlen : ¬ (ob.values ++ data).length > maxOff),
      (⟨ob.offsets ++ [(ob.values ++ data).length], ob.values ++ data⟩ : OffBuf).wf := by
    intro _
    refine ⟨monotoneWithin_append _ _ (by simp) _ hwf.1 hwf.2, by simp⟩
  unfold tryPush at h
  split at h
  · rename_i b tl
    split at h
    · simp at h
    · rename_i hns
      split at h
      · simp at h
      · rename_i hlen
        simp only [Except.ok.injEq] at h
        subst h
        refine ⟨key hlen, rfl, by simpa using hlen, ?_⟩
        intro _ b' hb'
        simp at hb'; subst hb'
        simp only [notCharStart, Bool.not_eq_true, decide_eq_false_iff_not] at hns
        simp only [isCont]
        intro hc
        simp only [Bool.and_eq_true, decide_eq_true_eq] at hc
        apply hns
        split <;> omega
  · rename_i hnot
    split at h
    · simp at h
    · rename_i hlen
      simp only [Except.ok.injEq] at h
      subst h
      refine ⟨key hlen, rfl, by simpa using hlen, ?_⟩
      intro hv b' hb'
      subst hv
      cases data with
      | nil => simp at hb'
      | cons d ds => exact absurd rfl (hnot d ds rfl)

theorem try_push_all_wf (maxOff : Nat) (validate : Bool) :
    ∀ (ds : List (List Nat)) (ob ob' : OffBuf), ob.wf → tryPushAll maxOff validate ob ds = .ok ob' → ob'.wf := by
  intro ds
  induction ds with
  | nil => intro ob ob' hwf h; simp [tryPushAll] at h; subst h; exact hwf
  | cons d ds ih =>
    intro ob ob' hwf h
    simp only [tryPushAll] at h
    cases hp : tryPush maxOff ob d validate with
    | error e => simp [hp] at h
    | ok ob1 =>
      simp only [hp] at h
      exact ih ob1 ob' (try_push_wf _ _ _ _ _ hwf hp).1 h

example : tryPushAll 100 true OffBuf.empty [[0x61], [], [0xC3, 0xA9]] = .ok ⟨[0, 1, 1, 3], [0x61, 0xC3, 0xA9]⟩ := by rfl


/-- **the char-boundary rule behind `try_push` + `check_valid_utf8`**: if a concatenation is
well-formed UTF-8 and the second part does not start with a continuation byte, both parts
are well-formed UTF-8. -/
theorem utf8_split_at_char_boundary (a b : List Nat) (h : validUtf8 (a ++ b) = true)
    (hb : ∀ x ∈ b.head?, isCont x = false) : validUtf8 a = true ∧ validUtf8 b = true :=
  validUtf8_split a.length a b rfl h hb

theorem try_push_values (maxOff : Nat) (ob ob' : OffBuf) (data : List Nat)
    (h : tryPush maxOff ob data true = .ok ob') :
    ob'.values = ob.values ++ data ∧ ∀ x ∈ data.head?, isCont x = false := by
  cases data with
  | nil =>
    simp only [tryPush] at h
    split at h
    · simp at h
    · simp only [Except.ok.injEq] at h
      subst h
      exact ⟨rfl, by simp⟩
  | cons d ds =>
    simp only [tryPush] at h
    split at h
    · simp at h
    · rename_i hns
      split at h
      · simp at h
      · simp only [Except.ok.injEq] at h
        subst h
        refine ⟨rfl, ?_⟩
        intro x hx
        simp only [List.head?_cons, Option.mem_def, Option.some.injEq] at hx
        subst hx
        simp only [notCharStart, Bool.not_eq_true, decide_eq_false_iff_not] at hns
        simp only [isCont]
        by_cases c1 : 128 ≤ d
        · by_cases c2 : d < 192
          · exfalso; apply hns
            simp only [show ¬ d < 128 by omega, if_false]
            omega
          · simp [c2]
        · simp [c1]

/-- **`OffsetBuffer`: per-value UTF-8 validity from one whole-buffer check.**  If every value
was pushed with `try_push(.., validate_utf8 = true)` and `check_valid_utf8(0)` accepts the
concatenated values buffer, then every individual value (the bytes between two consecutive
offsets) is well-formed UTF-8 — the premise `StringArray` validity needs. -/
theorem try_push_all_values_utf8 (maxOff : Nat) :
    ∀ (ds : List (List Nat)) (ob ob' : OffBuf), tryPushAll maxOff true ob ds = .ok ob' →
      validUtf8 ob'.values = true → validUtf8 ob.values = true ∧ ∀ d ∈ ds, validUtf8 d = true := by
  intro ds
  induction ds with
  | nil => intro ob ob' h hv; simp [tryPushAll] at h; subst h; exact ⟨hv, by simp⟩
  | cons d ds ih =>
    intro ob ob' h hv
    simp only [tryPushAll] at h
    cases hp : tryPush maxOff ob d true with
    | error e => simp [hp] at h
    | ok ob1 =>
      simp only [hp] at h
      have h1 := ih ob1 ob' h hv
      have h2 := try_push_values _ _ _ _ hp
      rw [h2.1] at h1
      have h3 := utf8_split_at_char_boundary _ _ h1.1 h2.2
      refine ⟨h3.1, ?_⟩
      intro d' hd'
      simp only [List.mem_cons] at hd'
      rcases hd' with rfl | hd'
      · exact h3.2
      · exact h1.2 d' hd'

example : validUtf8 [0x61, 0xC3, 0xA9] = true ∧ validUtf8 [0xA9] = false ∧ validUtf8 [0xED, 0xA0, 0x80] = false := by decide

/-! ### (T) constants the statements above depend on, as extracted from /repo -/

/-- the model is written against these regenerated values; a change in the source changes
the generated definitions and the theorems above are re-checked against it -/
theorem constants_tie :
    THRIFT_VLQ_CONT = 0x80 ∧ THRIFT_VLQ_PAYLOAD = 0x7F ∧ THRIFT_VLQ_SHIFT0 = 7 ∧ THRIFT_VLQ_SHIFT_STEP = 7 ∧
    THRIFT_LIST_TYPE_MASK = 0x0F ∧ THRIFT_LIST_SIZE_SHIFT = 4 ∧ THRIFT_LIST_SIZE_MASK = 0xF0 ∧ THRIFT_LIST_LONG_FORM = 15 ∧
    THRIFT_ELEM_BOOL = 2 ∧ THRIFT_ELEM_BOOL_ALT = 1 ∧ THRIFT_ELEM_BYTE = 3 ∧ THRIFT_ELEM_STRUCT = 12 ∧ THRIFT_ELEM_UUID = 13 ∧
    THRIFT_FIELD_UUID = 13 ∧ THRIFT_FIELD_STOP = 0 ∧
    AVRO_FAST_LEN = 10 ∧ AVRO_FAST_LOOP = 9 ∧ AVRO_FAST_LAST_LIMIT = 2 ∧ AVRO_FAST_SUB = 0x80 ∧
    AVRO_SLOW_MAX = 10 ∧ AVRO_SLOW_LAST_IDX = 9 ∧ AVRO_SLOW_LAST_LIMIT = 2 ∧
    AVRO_STREAM_LAST_SHIFT = 63 ∧ AVRO_STREAM_LAST_LIMIT = 2 ∧ AVRO_STREAM_SHIFT_STEP = 7 ∧
    MAX_VLQ_BYTE_LEN = 10 ∧ BITREADER_VLQ_STEP = 7 ∧
    THRIFT_LIST_PREALLOC_MAX = 1024 ∧ SHAPE_THRIFT_VEC_PREALLOC_lost = false ∧ SHAPE_THRIFT_LIST_PREALLOC_lost = false ∧
    -- shapes of the guards the model mirrors (LOST when the expression is edited)
    SHAPE_BUFFER_SLICE_ASSERT_lost = false ∧ SHAPE_IPC_READ_BUFFER_lost = false ∧
    SHAPE_AVRO_BLOCK_RESERVE_lost = false ∧ SHAPE_AVRO_BLOCK_COUNT_SIGN_lost = false ∧ SHAPE_AVRO_BLOCK_SIZE_SIGN_lost = false ∧
    SHAPE_AVRO_GET_BYTES_BOUND_lost = false ∧ SHAPE_AVRO_FAST_DISPATCH = 0x80 ∧ SHAPE_AVRO_STREAM_ERR_BEFORE_CONSUME = 1 ∧
    SHAPE_TRY_PUSH_CHAR_BOUNDARY = 0x40 ∧ SHAPE_THRIFT_SKIP_BOOL_NO_DATA_lost = false ∧
    SHAPE_THRIFT_SKIP_BOOL_LIST_BYTES_lost = false ∧
    SHAPE_THRIFT_DELTA_CHECKED_ADD_lost = false ∧ SHAPE_THRIFT_LIST_SIZE_I32_lost = false ∧
    SHAPE_THRIFT_LIST_EMPTY_HEADER = 0 ∧ SHAPE_THRIFT_STOP_IGNORES_DELTA = 0 ∧
    SHAPE_ZIGZAG_THRIFT = 1 ∧ SHAPE_ZIGZAG_AVRO_CURSOR = 1 ∧ SHAPE_ZIGZAG_AVRO_STREAM = 1 ∧ SHAPE_ZIGZAG_BITREADER = 1 ∧
    SHAPE_DELTA_BLOCK_MULTIPLE = 128 ∧ SHAPE_DELTA_MINIBLOCK_MULTIPLE = 32 ∧
    IPC_MAX_PREALLOC_BYTES = 64 * 1024 * 1024 := by decide

end ArrowModel.C08
