/-
C08 specification: what the byte-level decoders are *supposed* to compute.

Bytes are `Nat`s (every statement that needs it carries `∀ b ∈ bs, b < 256`); a decoder
result is the decoded value together with the number of bytes it consumed.
Import-free.
-/
namespace ArrowModel.C08.Spec

/-- ULEB128 (unsigned little-endian base 128): seven payload bits per byte, bit 7 set on
every byte but the last.  `some (value, bytes consumed)`, `none` when the input ends before
a terminating byte.  No width limit: the value is an unbounded `Nat`. -/
def uleb : List Nat → Option (Nat × Nat)
  | [] => none
  | b :: bs =>
    if b < 128 then some (b, 1)
    else match uleb bs with
      | none => none
      | some (v, n) => some (b % 128 + 128 * v, n + 1)

/-- ULEB128 restricted to `u64`: at most ten bytes and a value below `2^64`
(so the tenth byte, if any, is `0` or `1`).  Over-long encodings that pad with `0x80 … 0x00`
inside ten bytes are accepted, as in protobuf. -/
def uleb64 (bs : List Nat) : Option (Nat × Nat) :=
  match uleb bs with
  | some (v, n) => if n ≤ 10 ∧ v < 2 ^ 64 then some (v, n) else none
  | none => none

/-- zig-zag: `0,1,2,3,… ↦ 0,-1,1,-2,…` -/
def unzigzag (u : Nat) : Int :=
  if u % 2 = 0 then (u / 2 : Nat) else -((u / 2 : Nat) : Int) - 1

/-- two's complement reading of a 64-bit pattern -/
def toI64 (u : Nat) : Int :=
  if u % 2 ^ 64 < 2 ^ 63 then (u % 2 ^ 64 : Nat) else ((u % 2 ^ 64 : Nat) : Int) - 2 ^ 64

/-- an `(offset, length)` pair addresses bytes inside a body of `n` bytes -/
def inBounds (n offset length : Nat) : Prop := offset + length ≤ n

/-- offsets are monotone and end inside `n` -/
def monotoneWithin (n : Nat) : List Nat → Prop
  | [] => True
  | [a] => a ≤ n
  | a :: b :: rest => a ≤ b ∧ monotoneWithin n (b :: rest)

/-- UTF-8 continuation byte `0b10xxxxxx` -/
def isCont (b : Nat) : Bool := 128 ≤ b && b < 192

/-- Well-formed UTF-8 (RFC 3629 table 3-7: no over-long forms, no surrogates, ≤ U+10FFFF),
as a greedy scanner over bytes. -/
def validUtf8 : List Nat → Bool
  | [] => true
  | b0 :: rest =>
    if b0 < 128 then validUtf8 rest
    else if 194 ≤ b0 ∧ b0 < 224 then
      match rest with
      | b1 :: r => isCont b1 && validUtf8 r
      | _ => false
    else if 224 ≤ b0 ∧ b0 < 240 then
      match rest with
      | b1 :: b2 :: r =>
        isCont b1 && isCont b2 && (b0 != 224 || 160 ≤ b1) && (b0 != 237 || b1 < 160) && validUtf8 r
      | _ => false
    else if 240 ≤ b0 ∧ b0 < 245 then
      match rest with
      | b1 :: b2 :: b3 :: r =>
        isCont b1 && isCont b2 && isCont b3 && (b0 != 240 || 144 ≤ b1) && (b0 != 244 || b1 < 144)
          && validUtf8 r
      | _ => false
    else false

end ArrowModel.C08.Spec
