import ArrowModel.C10.Model
import Std.Tactic.BVDecide
/-
C10 — helper lemmas: ordering algebra, total (pre)orders and their closure under reversal,
pull-back, null extension (`compareSlot`), lexicographic combination; float key facts
(`bv_decide`); byte-prefix keys.
-/
namespace ArrowModel.C10
open ArrowModel.Generated.C10

theorem swap_ne_gt {o : Ordering} : o.swap ≠ .gt ↔ o ≠ .lt := by cases o <;> simp [Ordering.swap]
theorem swap_eq_eq {o : Ordering} : o.swap = .eq ↔ o = .eq := by cases o <;> simp [Ordering.swap]

namespace TotalPreCmp
variable {α : Type} {cmp : α → α → Ordering}

theorem ge_of_swap (h : TotalPreCmp cmp) {a b : α} : cmp a b ≠ .lt ↔ cmp b a ≠ .gt := by
  rw [h.swap a b]; exact swap_ne_gt.symm

theorem lt_of_lt_of_le (h : TotalPreCmp cmp) {a b c : α} (h1 : cmp a b = .lt) (h2 : cmp b c ≠ .gt) :
    cmp a c = .lt := by
  have h3 := h.trans a b c (by simp [h1]) h2
  cases hac : cmp a c with
  | lt => rfl
  | gt => exact absurd hac h3
  | eq =>
    have hca : cmp c a ≠ .gt := by rw [h.swap a c, hac]; simp [Ordering.swap]
    have := h.trans b c a h2 hca
    rw [h.swap a b, h1] at this; simp [Ordering.swap] at this

theorem lt_of_le_of_lt (h : TotalPreCmp cmp) {a b c : α} (h1 : cmp a b ≠ .gt) (h2 : cmp b c = .lt) :
    cmp a c = .lt := by
  have h3 := h.trans a b c h1 (by simp [h2])
  cases hac : cmp a c with
  | lt => rfl
  | gt => exact absurd hac h3
  | eq =>
    have hca : cmp c a ≠ .gt := by rw [h.swap a c, hac]; simp [Ordering.swap]
    have := h.trans c a b hca h1
    rw [h.swap b c, h2] at this; simp [Ordering.swap] at this

theorem eq_trans (h : TotalPreCmp cmp) {a b c : α} (h1 : cmp a b = .eq) (h2 : cmp b c = .eq) :
    cmp a c = .eq := by
  have h3 := h.trans a b c (by simp [h1]) (by simp [h2])
  have h4 := h.trans c b a (by rw [h.swap b c, h2]; simp [Ordering.swap]) (by rw [h.swap a b, h1]; simp [Ordering.swap])
  rw [h.swap a c] at h4
  cases hac : cmp a c <;> simp_all [Ordering.swap]

/-- the reversed comparison is again a total preorder -/
theorem rev (h : TotalPreCmp cmp) : TotalPreCmp (fun a b => (cmp a b).swap) where
  refl a := by simp [h.refl]
  swap a b := by show (cmp b a).swap = ((cmp a b).swap).swap; rw [h.swap a b]
  trans a b c h1 h2 := by
    rw [swap_ne_gt, h.ge_of_swap] at *
    exact h.trans c b a h2 h1

/-- pull back along a function -/
theorem comap {β : Type} (h : TotalPreCmp cmp) (f : β → α) : TotalPreCmp (fun x y => cmp (f x) (f y)) where
  refl _ := h.refl _
  swap _ _ := h.swap _ _
  trans _ _ _ := h.trans _ _ _

end TotalPreCmp

theorem TotalCmp.eq_iff {α : Type} {cmp : α → α → Ordering} (h : TotalCmp cmp) (a b : α) :
    cmp a b = .eq ↔ a = b := ⟨h.eq_imp a b, fun e => e ▸ h.refl a⟩

theorem TotalCmp.rev {α : Type} {cmp : α → α → Ordering} (h : TotalCmp cmp) :
    TotalCmp (fun a b => (cmp a b).swap) where
  toTotalPreCmp := h.toTotalPreCmp.rev
  eq_imp a b e := h.eq_imp a b (swap_eq_eq.mp e)

theorem applyDesc_totalCmp {α : Type} {cmp : α → α → Ordering} (h : TotalCmp cmp) (d : Bool) :
    TotalCmp (fun a b => applyDesc d (cmp a b)) := by
  cases d
  · simpa [applyDesc] using h
  · simpa [applyDesc] using h.rev

/-- Theorem 1 core -/
theorem compareSlot_totalCmp {α : Type} {cmp : α → α → Ordering} (h : TotalCmp cmp) (o : SortOptions) :
    TotalCmp (compareSlot cmp o) := by
  have hd := applyDesc_totalCmp h o.descending
  refine ⟨⟨?_, ?_, ?_⟩, ?_⟩
  · intro a; cases a <;> simp [compareSlot]; exact hd.refl _
  · intro a b
    cases a <;> cases b <;> cases hn : o.nullsFirst <;> simp [compareSlot, hn, Ordering.swap]
    all_goals exact hd.swap _ _
  · intro a b c
    cases a <;> cases b <;> cases c <;> cases hn : o.nullsFirst <;> simp [compareSlot, hn]
    all_goals exact hd.trans _ _ _
  · intro a b
    cases a <;> cases b <;> cases hn : o.nullsFirst <;> simp [compareSlot, hn]
    all_goals exact hd.eq_imp _ _

/-! ### float total-order key -/

/-- sign/magnitude totalOrder on bit vectors -/
def totalLeBV {w : Nat} (a b : BitVec w) : Bool :=
  match a.msb, b.msb with
  | true, false => true
  | false, true => false
  | false, false => (a &&& BitVec.allOnes w >>> 1).ule (b &&& BitVec.allOnes w >>> 1)
  | true, true => (b &&& BitVec.allOnes w >>> 1).ule (a &&& BitVec.allOnes w >>> 1)

theorem floatKey64_sle (a b : BitVec 64) : (floatKey a).sle (floatKey b) = totalLeBV a b := by
  unfold floatKey totalLeBV
  cases ha : a.msb <;> cases hb : b.msb <;> simp only [] <;> bv_decide

theorem floatKey32_sle (a b : BitVec 32) : (floatKey a).sle (floatKey b) = totalLeBV a b := by
  unfold floatKey totalLeBV
  cases ha : a.msb <;> cases hb : b.msb <;> simp only [] <;> bv_decide

theorem floatKey16_sle (a b : BitVec 16) : (floatKey a).sle (floatKey b) = totalLeBV a b := by
  unfold floatKey totalLeBV
  cases ha : a.msb <;> cases hb : b.msb <;> simp only [] <;> bv_decide

theorem floatKey64_inj (a b : BitVec 64) (h : floatKey a = floatKey b) : a = b := by
  unfold floatKey at h; bv_decide
theorem floatKey32_inj (a b : BitVec 32) (h : floatKey a = floatKey b) : a = b := by
  unfold floatKey at h; bv_decide
theorem floatKey16_inj (a b : BitVec 16) (h : floatKey a = floatKey b) : a = b := by
  unfold floatKey at h; bv_decide

/-- bridge to the Nat-level specification -/
theorem totalLeBV_eq_spec {w : Nat} (hw : 0 < w) (a b : BitVec w) :
    totalLeBV a b = floatTotalLe w a.toNat b.toNat := by
  have hm : ∀ x : BitVec w, x.msb = x.toNat.testBit (w - 1) := by
    intro x; rw [BitVec.msb_eq_getLsbD_last]; rfl
  have hmag : ∀ x : BitVec w, (x &&& BitVec.allOnes w >>> 1).toNat = x.toNat % 2 ^ (w - 1) := by
    intro x
    rw [BitVec.toNat_and, BitVec.toNat_ushiftRight, BitVec.toNat_allOnes]
    have : (2 ^ w - 1) >>> 1 = 2 ^ (w - 1) - 1 := by
      rw [Nat.shiftRight_eq_div_pow]
      obtain ⟨k, rfl⟩ : ∃ k, w = k + 1 := ⟨w - 1, by omega⟩
      simp [Nat.pow_succ]; omega
    rw [this, Nat.and_two_pow_sub_one_eq_mod]
  unfold totalLeBV floatTotalLe
  simp only [hm, BitVec.ule, hmag]
  cases a.toNat.testBit (w - 1) <;> cases b.toNat.testBit (w - 1) <;> simp

/-! ### lexicographic orders -/
/-- generic transitivity of a lexicographic step -/
theorem lexStep_trans {α : Type} {cmp : α → α → Ordering} (h : TotalPreCmp cmp)
    {a b c : α} {x y z : Ordering}
    (hxyz : x ≠ .gt → y ≠ .gt → z ≠ .gt)
    (h1 : (match cmp a b with | .eq => x | r => r) ≠ .gt)
    (h2 : (match cmp b c with | .eq => y | r => r) ≠ .gt) :
    (match cmp a c with | .eq => z | r => r) ≠ .gt := by
  cases hab : cmp a b <;> cases hbc : cmp b c <;> simp [hab, hbc] at h1 h2
  · rw [h.lt_of_lt_of_le hab (by simp [hbc])]; simp
  · rw [h.lt_of_lt_of_le hab (by simp [hbc])]; simp
  · rw [h.lt_of_le_of_lt (by simp [hab]) hbc]; simp
  · rw [h.eq_trans hab hbc]; exact hxyz h1 h2

theorem lexList_totalCmp {α : Type} {cmp : α → α → Ordering} (h : TotalCmp cmp) :
    TotalCmp (lexList cmp) := by
  refine ⟨⟨?_, ?_, ?_⟩, ?_⟩
  · intro a; induction a with
    | nil => rfl
    | cons x xs ih => simp [lexList, h.refl, ih]
  · intro a; induction a with
    | nil => intro b; cases b <;> rfl
    | cons x xs ih =>
      intro b; cases b with
      | nil => rfl
      | cons y ys =>
        simp only [lexList]; rw [h.swap x y]
        cases cmp x y <;> simp [Ordering.swap, ih]
  · intro a; induction a with
    | nil => intro b c _ _; cases c <;> simp [lexList]
    | cons x xs ih =>
      intro b c h1 h2
      cases b with
      | nil => simp [lexList] at h1
      | cons y ys =>
        cases c with
        | nil => simp [lexList] at h2
        | cons z zs =>
          simp only [lexList] at h1 h2 ⊢
          exact lexStep_trans h.toTotalPreCmp (ih ys zs) h1 h2
  · intro a; induction a with
    | nil => intro b hb; cases b <;> simp [lexList] at hb ⊢
    | cons x xs ih =>
      intro b hb; cases b with
      | nil => simp [lexList] at hb
      | cons y ys =>
        simp only [lexList] at hb
        cases hxy : cmp x y <;> simp [hxy] at hb
        rw [h.eq_imp x y hxy, ih ys hb]

theorem natCmp_totalCmp : TotalCmp (fun x y : Nat => compare x y) := by
  refine ⟨⟨?_, ?_, ?_⟩, ?_⟩
  · intro a; simp
  · intro a b; simp only [Nat.compare_swap]  
  · intro a b c; simp only [ne_eq, Nat.compare_eq_gt, Nat.not_lt]; omega
  · intro a b; simp

theorem intCmp_totalCmp : TotalCmp (fun x y : Int => compare x y) := by
  refine ⟨⟨?_, ?_, ?_⟩, ?_⟩
  · intro a; simp
  · intro a b; exact (Int.compare_swap a b).symm
  · intro a b c; simp only [ne_eq, Int.compare_eq_gt]; omega
  · intro a b; simp

theorem bytesCmp_totalCmp : TotalCmp bytesCmp := lexList_totalCmp natCmp_totalCmp


/-! ### byte-prefix keys -/

def isBytes (a : List Nat) : Prop := ∀ x ∈ a, x < 256

theorem padBE_lt (n : Nat) (a : List Nat) (ha : isBytes a) : padBE n a < 256 ^ n := by
  induction n generalizing a with
  | zero => simp [padBE]
  | succ n ih =>
    cases a with
    | nil => simp only [padBE]; exact Nat.pow_pos (by decide)
    | cons x xs =>
      have hx : x < 256 := ha x (by simp)
      have := ih xs (fun y hy => ha y (by simp [hy]))
      have h2 : (x + 1) * 256 ^ n ≤ 256 * 256 ^ n := Nat.mul_le_mul_right _ (by omega)
      rw [Nat.succ_mul] at h2
      simp only [padBE, Nat.pow_succ]
      rw [Nat.mul_comm (256 ^ n) 256]
      omega

theorem bytesCmp_cons (x y : Nat) (xs ys : List Nat) :
    bytesCmp (x :: xs) (y :: ys) = (match compare x y with | .eq => bytesCmp xs ys | r => r) := rfl

theorem padBE_key (n : Nat) : ∀ a b : List Nat, isBytes a → isBytes b →
    (padBE n a < padBE n b → bytesCmp a b = .lt) ∧
    (padBE n a = padBE n b → a.length ≤ n → a.length < b.length → bytesCmp a b = .lt) := by
  induction n with
  | zero =>
    intro a b _ _
    refine ⟨by simp [padBE], ?_⟩
    intro _ hl hlt
    cases a with
    | nil => cases b with
      | nil => simp at hlt
      | cons y ys => rfl
    | cons x xs => simp at hl
  | succ n ih =>
    intro a b ha hb
    cases a with
    | nil =>
      cases b with
      | nil => simp [padBE]
      | cons y ys => exact ⟨fun _ => rfl, fun _ _ _ => rfl⟩
    | cons x xs =>
      cases b with
      | nil => simp [padBE]
      | cons y ys =>
        have hxs : isBytes xs := fun z hz => ha z (by simp [hz])
        have hys : isBytes ys := fun z hz => hb z (by simp [hz])
        have pa := padBE_lt n xs hxs
        have pb := padBE_lt n ys hys
        have hlt : y < x → y * 256 ^ n + 256 ^ n ≤ x * 256 ^ n := by
          intro h
          have := Nat.mul_le_mul_right (256 ^ n) (show y + 1 ≤ x by omega)
          rwa [Nat.succ_mul] at this
        have hgt : x < y → x * 256 ^ n + 256 ^ n ≤ y * 256 ^ n := by
          intro h
          have := Nat.mul_le_mul_right (256 ^ n) (show x + 1 ≤ y by omega)
          rwa [Nat.succ_mul] at this
        obtain ⟨i1, i2⟩ := ih xs ys hxs hys
        simp only [padBE, bytesCmp_cons, List.length_cons]
        refine ⟨?_, ?_⟩
        · intro h
          rcases Nat.lt_trichotomy x y with hxy | hxy | hxy
          · simp [Nat.compare_eq_lt.mpr hxy]
          · subst hxy; simp; exact i1 (by omega)
          · have := hlt hxy; omega
        · intro h hl hll
          rcases Nat.lt_trichotomy x y with hxy | hxy | hxy
          · have := hgt hxy; omega
          · subst hxy; simp; exact i2 (by omega) (by omega) (by omega)
          · have := hlt hxy; omega

theorem padBE_inj (n : Nat) : ∀ a b : List Nat, isBytes a → isBytes b →
    padBE n a = padBE n b → a.length = b.length → a.length ≤ n → a = b := by
  induction n with
  | zero =>
    intro a b _ _ _ hl h0
    cases a with
    | nil => cases b with
      | nil => rfl
      | cons y ys => simp at hl
    | cons x xs => simp at h0
  | succ n ih =>
    intro a b ha hb h hl hn
    cases a with
    | nil => cases b with
      | nil => rfl
      | cons y ys => simp at hl
    | cons x xs =>
      cases b with
      | nil => simp at hl
      | cons y ys =>
        have hxs : isBytes xs := fun z hz => ha z (by simp [hz])
        have hys : isBytes ys := fun z hz => hb z (by simp [hz])
        have pa := padBE_lt n xs hxs
        have pb := padBE_lt n ys hys
        have hlt : y < x → y * 256 ^ n + 256 ^ n ≤ x * 256 ^ n := by
          intro h
          have := Nat.mul_le_mul_right (256 ^ n) (show y + 1 ≤ x by omega)
          rwa [Nat.succ_mul] at this
        have hgt : x < y → x * 256 ^ n + 256 ^ n ≤ y * 256 ^ n := by
          intro h
          have := Nat.mul_le_mul_right (256 ^ n) (show x + 1 ≤ y by omega)
          rwa [Nat.succ_mul] at this
        simp only [padBE, List.length_cons] at h hl hn
        rcases Nat.lt_trichotomy x y with hxy | hxy | hxy
        · have := hgt hxy; omega
        · subst hxy
          rw [ih xs ys hxs hys (by omega) (by omega) (by omega)]
        · have := hlt hxy; omega

/-- Theorem 3 (general thresholds) -/
theorem cmpBytesPrefixG_eq (P S S' : Nat) (hS : S ≤ P + 1) (hS' : S' ≤ P + 1) (a b : List Nat)
    (ha : isBytes a) (hb : isBytes b) : cmpBytesPrefixG P S S' a b = bytesCmp a b := by
  have hsw : bytesCmp a b = (bytesCmp b a).swap := bytesCmp_totalCmp.swap b a
  obtain ⟨k1, k2⟩ := padBE_key P a b ha hb
  obtain ⟨r1, r2⟩ := padBE_key P b a hb ha
  unfold cmpBytesPrefixG
  cases hc : compare (padBE P a) (padBE P b) with
  | lt => simp only []; exact (k1 (Nat.compare_eq_lt.mp hc)).symm
  | gt => simp only []; rw [hsw, r1 (Nat.compare_eq_gt.mp hc)]; rfl
  | eq =>
    have he := Nat.compare_eq_eq.mp hc
    simp only []
    split
    · rename_i hor
      cases hl : compare a.length b.length with
      | eq => rfl
      | lt =>
        have := Nat.compare_eq_lt.mp hl
        simp only []; exact (k2 he (by omega) this).symm
      | gt =>
        have := Nat.compare_eq_gt.mp hl
        simp only []; rw [hsw, r2 he.symm (by omega) this]; rfl
    · rfl

theorem cmpBytesPrefix_eq (a b : List Nat) (ha : isBytes a) (hb : isBytes b) :
    cmpBytesPrefix a b = bytesCmp a b :=
  cmpBytesPrefixG_eq _ _ _ (by decide) (by decide) a b ha hb

/-- inline view key -/
theorem inlineKey_cmp (a b : List Nat) (ha : isBytes a) (hb : isBytes b)
    (la : a.length ≤ MAX_INLINE_VIEW_LEN) (lb : b.length ≤ MAX_INLINE_VIEW_LEN) :
    compare (inlineKey a) (inlineKey b) = bytesCmp a b := by
  have hsw : bytesCmp a b = (bytesCmp b a).swap := bytesCmp_totalCmp.swap b a
  obtain ⟨k1, k2⟩ := padBE_key MAX_INLINE_VIEW_LEN a b ha hb
  obtain ⟨r1, r2⟩ := padBE_key MAX_INLINE_VIEW_LEN b a hb ha
  have hM : MAX_INLINE_VIEW_LEN = 12 := rfl
  have hSh : (2:Nat) ^ INLINE_KEY_SHIFT = 4294967296 := by decide
  unfold inlineKey
  rw [hSh]
  rw [hM] at la lb
  generalize hpa : padBE MAX_INLINE_VIEW_LEN a = pa at *
  generalize hpb : padBE MAX_INLINE_VIEW_LEN b = pb at *
  rcases Nat.lt_trichotomy pa pb with h | h | h
  · rw [k1 h, Nat.compare_eq_lt]; omega
  · rcases Nat.lt_trichotomy a.length b.length with hl | hl | hl
    · rw [k2 h (by omega) hl, Nat.compare_eq_lt]; omega
    · have hab : a = b := padBE_inj _ a b ha hb (by rw [hpa, hpb]; exact h) hl (by rw [hM]; omega)
      subst hab; subst h
      rw [bytesCmp_totalCmp.refl]; simp
    · rw [hsw, r2 h.symm (by omega) hl]; simp [Ordering.swap, Nat.compare_eq_gt]; omega
  · rw [hsw, r1 h]; simp [Ordering.swap, Nat.compare_eq_gt]; omega


/-! ### comparator plumbing: model = specification -/

theorem cmpView_eq (a b : List Nat) (ha : isBytes a) (hb : isBytes b) :
    cmpView a b = bytesCmp a b := by
  unfold cmpView
  split
  · rename_i h
    exact inlineKey_cmp a b ha hb (by have : VIEW_CMP_INLINE_L = MAX_INLINE_VIEW_LEN := rfl; omega)
      (by have : VIEW_CMP_INLINE_R = MAX_INLINE_VIEW_LEN := rfl; omega)
  · have := cmpBytesPrefixG_eq 4 0 0 (by omega) (by omega) a b ha hb
    simpa [cmpBytesPrefixG] using this

/-! model = spec for the comparator plumbing -/

theorem nullsOf_none {α : Type} (col : List (Option α)) (h : nullsOf col = none) (i : Nat)
    (hi : i < col.length) : (col.getD i none).isSome = true := by
  unfold nullsOf at h
  split at h
  · simp at h
  · rename_i hn
    simp only [List.any_eq_true, not_exists, not_and] at hn
    have := hn (col.getD i none) (by
      rw [List.getD_eq_getElem?_getD, List.getElem?_eq_getElem hi]; simp)
    cases hc : col.getD i none <;> simp_all

theorem nullsOf_some {α : Type} (col : List (Option α)) (f : Nat → Bool) (h : nullsOf col = some f)
    (i : Nat) : f i = (col.getD i none).isSome := by
  unfold nullsOf at h
  split at h
  · simp at h; subst h; rfl
  · simp at h

theorem compareImpl_eq_spec {α : Type} (vcmp : α → α → Ordering) (dflt : α) (o : SortOptions)
    (nl nr : Option (Nat → Bool)) (a b : Option α) (i j : Nat)
    (fl : nl = none → a.isSome = true) (gl : ∀ f, nl = some f → f i = a.isSome)
    (fr : nr = none → b.isSome = true) (gr : ∀ f, nr = some f → f j = b.isSome) :
    compareImpl o.nullsFirst o.descending nl nr (fun _ _ => vcmp (a.getD dflt) (b.getD dflt)) i j
      = compareSlot vcmp o a b := by
  unfold compareImpl
  cases nl <;> cases nr <;> cases a <;> cases b <;> cases hd : o.descending <;> cases hn : o.nullsFirst <;>
    simp_all [compareSlot, applyDesc]

theorem compareArr_eq_spec {α : Type} (vcmp : α → α → Ordering) (dflt : α) (o : SortOptions)
    (l r : List (Option α)) (i j : Nat) (hi : i < l.length) (hj : j < r.length) :
    compareArr vcmp dflt o l r i j = compareSlot vcmp o (l.getD i none) (r.getD j none) := by
  unfold compareArr
  exact compareImpl_eq_spec vcmp dflt o (nullsOf l) (nullsOf r) (l.getD i none) (r.getD j none) i j
    (fun h => nullsOf_none l h i hi) (fun f h => nullsOf_some l f h i)
    (fun h => nullsOf_none r h j hj) (fun f h => nullsOf_some r f h j)

theorem lt_bne_eq : (Ordering.lt != Ordering.eq) = true := by decide
theorem gt_bne_eq : (Ordering.gt != Ordering.eq) = true := by decide
theorem eq_bne_eq : (Ordering.eq != Ordering.eq) = false := by decide

theorem lexCompareModel_eq {ι : Type} (cs : List (ι → ι → Ordering)) (i j : ι) :
    lexCompareModel cs i j = lexCmp cs i j := by
  induction cs with
  | nil => rfl
  | cons c cs ih =>
    unfold lexCompareModel at ih ⊢
    simp only [List.map_cons, List.find?_cons, lexCmp]
    cases hc : c i j <;> simp only [lt_bne_eq, gt_bne_eq, eq_bne_eq]
    exact ih

theorem listLoop_eq {α : Type} (cmp : α → α → Ordering) (l r : List α) :
    listLoop cmp l r = lexList cmp l r := by
  induction l generalizing r with
  | nil => cases r <;> simp [listLoop, lexList, Nat.compare_eq_lt]
  | cons x xs ih =>
    cases r with
    | nil => simp [listLoop, lexList, Nat.compare_eq_gt]
    | cons y ys =>
      have := ih ys
      unfold listLoop at this ⊢
      simp only [List.zipWith_cons_cons, List.find?_cons, lexList, List.length_cons]
      cases hc : cmp x y <;> simp only [lt_bne_eq, gt_bne_eq, eq_bne_eq]
      rw [← this]
      have e : compare (xs.length + 1) (ys.length + 1) = compare xs.length ys.length := by
        simp only [compare, compareOfLessAndEq]; simp
      rw [e]


/-! ### sort assembly -/

theorem pairwise_of_forall_mem {α : Type} {R : α → α → Prop} {l : List α}
    (h : ∀ a ∈ l, ∀ b ∈ l, R a b) : l.Pairwise R := by
  induction l with
  | nil => exact List.Pairwise.nil
  | cons x xs ih =>
    refine List.Pairwise.cons (fun b hb => h x (by simp) b (by simp [hb])) (ih ?_)
    intro a ha b hb; exact h a (by simp [ha]) b (by simp [hb])

theorem perm_take_drop2 {α : Type} (A B : List α) (m r : Nat) :
    ((A.take m ++ B.take r) ++ (A.drop m ++ B.drop r)).Perm (A ++ B) := by
  have h1 : (A.take m ++ A.drop m) = A := List.take_append_drop m A
  have h2 : (B.take r ++ B.drop r) = B := List.take_append_drop r B
  calc ((A.take m ++ B.take r) ++ (A.drop m ++ B.drop r)).Perm
        (A.take m ++ (B.take r ++ (A.drop m ++ B.drop r))) := by rw [List.append_assoc]
    _ |>.Perm (A.take m ++ (A.drop m ++ (B.take r ++ B.drop r))) := by
        apply List.Perm.append_left
        rw [← List.append_assoc, ← List.append_assoc]
        exact List.Perm.append_right _ List.perm_append_comm
    _ |>.Perm (A ++ B) := by rw [← List.append_assoc, h1, h2]

/-- assembly with the nulls in front -/
theorem assemble_nullsFirst {R : Nat → Nat → Prop} (N I : List Nat) (k lim : Nat)
    (hNN : ∀ a ∈ N, ∀ b ∈ N, R a b) (hNI : ∀ a ∈ N, ∀ b ∈ I, R a b)
    (hI : (I.take k).Pairwise R) (hIr : ∀ a ∈ I.take k, ∀ b ∈ I.drop k, R a b)
    (hlim : lim ≤ N.length + I.length)
    (hr : lim - min N.length lim = 0 ∨ lim - min N.length lim = k) :
    let out := N.take (min N.length lim) ++ I.take (lim - (N.take (min N.length lim)).length)
    let rest := N.drop (min N.length lim) ++ I.drop (lim - (N.take (min N.length lim)).length)
    out.length = lim ∧ out.Pairwise R ∧ (out ++ rest).Perm (N ++ I) ∧ ∀ a ∈ out, ∀ b ∈ rest, R a b := by
  have hlen : (N.take (min N.length lim)).length = min N.length lim := by
    rw [List.length_take]; omega
  simp only [hlen]
  generalize hm : min N.length lim = m at *
  generalize hrr : lim - m = r at *
  have hNt : ∀ a ∈ N.take m, a ∈ N := fun a h => List.mem_of_mem_take h
  have hNd : ∀ a ∈ N.drop m, a ∈ N := fun a h => List.mem_of_mem_drop h
  have hIt : ∀ a ∈ I.take r, a ∈ I := fun a h => List.mem_of_mem_take h
  have hId : ∀ a ∈ I.drop r, a ∈ I := fun a h => List.mem_of_mem_drop h
  refine ⟨?_, ?_, perm_take_drop2 N I m r, ?_⟩
  · rw [List.length_append, List.length_take, List.length_take]; omega
  · rw [List.pairwise_append]
    refine ⟨pairwise_of_forall_mem (fun a ha b hb => hNN a (hNt a ha) b (hNt b hb)), ?_,
      fun a ha b hb => hNI a (hNt a ha) b (hIt b hb)⟩
    rcases hr with h0 | hk
    · rw [h0]; simp
    · rw [hk]; exact hI
  · intro a ha b hb
    rw [List.mem_append] at ha hb
    rcases ha with ha | ha
    · rcases hb with hb | hb
      · exact hNN a (hNt a ha) b (hNd b hb)
      · exact hNI a (hNt a ha) b (hId b hb)
    · rcases hr with h0 | hk
      · rw [h0] at ha; simp at ha
      · rcases hb with hb | hb
        · -- a valid row is in the output only when all nulls are
          have hpos : 0 < r := by
            rcases Nat.eq_zero_or_pos r with h | h
            · rw [h] at ha; simp at ha
            · exact h
          have : N.drop m = [] := by
            apply List.drop_eq_nil_of_le; omega
          rw [this] at hb; simp at hb
        · rw [hk] at ha hb; exact hIr a ha b hb

/-- assembly with the nulls at the end -/
theorem assemble_nullsLast {R : Nat → Nat → Prop} (N I : List Nat) (lim : Nat)
    (hNN : ∀ a ∈ N, ∀ b ∈ N, R a b) (hIN : ∀ a ∈ I, ∀ b ∈ N, R a b)
    (hI : I.Pairwise R) (hlim : lim ≤ N.length + I.length) :
    let out := I.take lim ++ N.take (lim - (I.take lim).length)
    let rest := I.drop lim ++ N.drop (lim - (I.take lim).length)
    out.length = lim ∧ out.Pairwise R ∧ (out ++ rest).Perm (I ++ N) ∧ ∀ a ∈ out, ∀ b ∈ rest, R a b := by
  have hlen : (I.take lim).length = min lim I.length := List.length_take
  simp only [hlen]
  generalize hrr : lim - min lim I.length = r at *
  have hNt : ∀ a ∈ N.take r, a ∈ N := fun a h => List.mem_of_mem_take h
  have hNd : ∀ a ∈ N.drop r, a ∈ N := fun a h => List.mem_of_mem_drop h
  have hIt : ∀ a ∈ I.take lim, a ∈ I := fun a h => List.mem_of_mem_take h
  have hId : ∀ a ∈ I.drop lim, a ∈ I := fun a h => List.mem_of_mem_drop h
  have hsplit : (I.take lim ++ I.drop lim).Pairwise R := by rw [List.take_append_drop]; exact hI
  rw [List.pairwise_append] at hsplit
  refine ⟨?_, ?_, perm_take_drop2 I N lim r, ?_⟩
  · rw [List.length_append, List.length_take, List.length_take]; omega
  · rw [List.pairwise_append]
    exact ⟨hsplit.1, pairwise_of_forall_mem (fun a ha b hb => hNN a (hNt a ha) b (hNt b hb)),
      fun a ha b hb => hIN a (hIt a ha) b (hNt b hb)⟩
  · intro a ha b hb
    rw [List.mem_append] at ha hb
    rcases ha with ha | ha
    · rcases hb with hb | hb
      · exact hsplit.2.2 a ha b hb
      · exact hIN a (hIt a ha) b (hNd b hb)
    · rcases hb with hb | hb
      · have hpos : 0 < r := by
          rcases Nat.eq_zero_or_pos r with h | h
          · rw [h] at ha; simp at ha
          · exact h
        have : I.drop lim = [] := by apply List.drop_eq_nil_of_le; omega
        rw [this] at hb; simp at hb
      · exact hNN a (hNt a ha) b (hNd b hb)


theorem applyDesc_totalPreCmp {α : Type} {cmp : α → α → Ordering} (h : TotalPreCmp cmp) (d : Bool) :
    TotalPreCmp (fun a b => applyDesc d (cmp a b)) := by
  cases d
  · simpa [applyDesc] using h
  · simpa [applyDesc] using h.rev

theorem partitionValidity_perm {α : Type} (slot : Nat → Option α) (l : List Nat) :
    ((l.filterMap (fun i => (slot i).map (fun v => (i, v)))).map (·.1) ++
      l.filter (fun i => (slot i).isNone)).Perm l := by
  induction l with
  | nil => simp
  | cons x xs ih =>
    cases hx : slot x with
    | none =>
      simp only [List.filterMap_cons, hx, Option.map_none, List.filter_cons, Option.isNone_none, if_true]
      exact List.perm_middle.trans (List.Perm.cons x ih)
    | some v =>
      simp only [List.filterMap_cons, hx, Option.map_some, List.map_cons, List.filter_cons,
        Option.isNone_some, List.cons_append]
      exact List.Perm.cons x ih

def vLimitOf (limit : Option Nat) (nf : Bool) (nn nv : Nat) : Nat :=
  match limit, nf with
  | some l, true => min (l - nn) nv
  | _, _ => nv

def assembleOut (nf : Bool) (nulls I : List Nat) (lim : Nat) : List Nat :=
  match nf with
  | true => nulls.take (min nulls.length lim) ++ I.take (lim - (nulls.take (min nulls.length lim)).length)
  | false => I.take lim ++ nulls.take (lim - (I.take lim).length)

theorem sortImpl_eq {α : Type} (sortBy : PartialSorter) (o : SortOptions)
    (valids : List (Nat × α)) (nulls : List Nat) (limit : Option Nat) (cmp : α → α → Ordering) :
    sortImpl sortBy o valids nulls limit cmp =
      assembleOut o.nullsFirst nulls
        ((sortBy (fun (a b : Nat × α) => applyDesc o.descending (cmp a.2 b.2))
          (vLimitOf limit o.nullsFirst nulls.length valids.length) valids).map (·.1))
        (min (limit.getD (valids.length + nulls.length)) (valids.length + nulls.length)) := by
  cases o with
  | mk d nf => cases d <;> cases nf <;> rfl

theorem sortImpl_ok {α : Type} (sortBy : PartialSorter) (hs : SortContract sortBy)
    (cmp : α → α → Ordering) (hc : TotalPreCmp cmp) (o : SortOptions)
    (valids : List (Nat × α)) (nulls : List Nat) (limit : Option Nat) (slot : Nat → Option α)
    (hv : ∀ p ∈ valids, slot p.1 = some p.2) (hn : ∀ i ∈ nulls, slot i = none) :
    let R := fun i j => compareSlot cmp o (slot i) (slot j) ≠ .gt
    let len := valids.length + nulls.length
    let out := sortImpl sortBy o valids nulls limit cmp
    out.length = min (limit.getD len) len ∧ out.Pairwise R ∧
      ∃ rest, (out ++ rest).Perm (valids.map (·.1) ++ nulls) ∧ ∀ a ∈ out, ∀ b ∈ rest, R a b := by
  intro R len out
  let c : (Nat × α) → (Nat × α) → Ordering := fun a b => applyDesc o.descending (cmp a.2 b.2)
  have hcT : TotalPreCmp c := (applyDesc_totalPreCmp hc o.descending).comap (fun p : Nat × α => p.2)
  let vLimit := vLimitOf limit o.nullsFirst nulls.length valids.length
  have hvl : vLimit ≤ valids.length := by
    show vLimitOf limit o.nullsFirst nulls.length valids.length ≤ valids.length
    unfold vLimitOf; split <;> omega
  let S := sortBy c vLimit valids
  have hSperm : S.Perm valids := hs.perm c vLimit valids hcT hvl
  have hSsorted := hs.sorted c vLimit valids hcT hvl
  have hSrest := hs.le_rest c vLimit valids hcT hvl
  have hSmem : ∀ p ∈ S, slot p.1 = some p.2 := fun p hp => hv p (hSperm.mem_iff.mp hp)
  have hRc : ∀ p ∈ S, ∀ q ∈ S, c p q ≠ .gt → R p.1 q.1 := by
    intro p hp q hq h
    show compareSlot cmp o (slot p.1) (slot q.1) ≠ .gt
    rw [hSmem p hp, hSmem q hq]; exact h
  let I := S.map (·.1)
  have hIlen : I.length = valids.length := by simp [I, hSperm.length_eq]
  have hout : out = assembleOut o.nullsFirst nulls I (min (limit.getD len) len) :=
    sortImpl_eq sortBy o valids nulls limit cmp
  have hNN : ∀ a ∈ nulls, ∀ b ∈ nulls, R a b := by
    intro a ha b hb
    show compareSlot cmp o (slot a) (slot b) ≠ .gt
    rw [hn a ha, hn b hb]; simp [compareSlot]
  have hImem : ∀ b ∈ I, ∃ q ∈ S, q.1 = b := by
    intro b hb; simpa [I] using hb
  have hperm2 : (I).Perm (valids.map (·.1)) := hSperm.map _
  have hlim : min (limit.getD len) len ≤ nulls.length + I.length := by rw [hIlen]; omega
  cases hnf : o.nullsFirst with
  | true =>
    rw [hnf] at hout; simp only [assembleOut] at hout
    have hNI : ∀ a ∈ nulls, ∀ b ∈ I, R a b := by
      intro a ha b hb
      obtain ⟨q, hq, rfl⟩ := hImem b hb
      show compareSlot cmp o (slot a) (slot q.1) ≠ .gt
      rw [hn a ha, hSmem q hq]; simp [compareSlot, hnf]
    have hI : (I.take vLimit).Pairwise R := by
      show ((S.map (·.1)).take vLimit).Pairwise R
      rw [← List.map_take, List.pairwise_map]
      exact hSsorted.imp_of_mem (fun {p q} hp hq h =>
        hRc p (List.mem_of_mem_take hp) q (List.mem_of_mem_take hq) h)
    have hIr : ∀ a ∈ I.take vLimit, ∀ b ∈ I.drop vLimit, R a b := by
      intro a ha b hb
      have ha' : a ∈ (S.take vLimit).map (·.1) := by rw [List.map_take]; exact ha
      have hb' : b ∈ (S.drop vLimit).map (·.1) := by rw [List.map_drop]; exact hb
      obtain ⟨p, hp, rfl⟩ := List.mem_map.mp ha'
      obtain ⟨q, hq, rfl⟩ := List.mem_map.mp hb'
      exact hRc p (List.mem_of_mem_take hp) q (List.mem_of_mem_drop hq) (hSrest p hp q hq)
    have hr : min (limit.getD len) len - min nulls.length (min (limit.getD len) len) = 0 ∨
        min (limit.getD len) len - min nulls.length (min (limit.getD len) len) = vLimit := by
      show _ ∨ _ = vLimitOf limit o.nullsFirst nulls.length valids.length
      rw [hnf]
      cases limit with
      | none => simp only [Option.getD_none, vLimitOf]; omega
      | some l => simp only [Option.getD_some, vLimitOf]; omega
    obtain ⟨h1, h2, h3, h4⟩ := assemble_nullsFirst (R := R) nulls I vLimit _ hNN hNI hI hIr hlim hr
    rw [hout]
    refine ⟨h1, h2, _, h3.trans ?_, h4⟩
    exact (List.perm_append_comm).trans (List.Perm.append_right _ hperm2)
  | false =>
    rw [hnf] at hout; simp only [assembleOut] at hout
    have hvL : vLimit = valids.length := by
      show vLimitOf limit o.nullsFirst nulls.length valids.length = valids.length
      rw [hnf]; unfold vLimitOf; split <;> simp_all
    have hIN : ∀ a ∈ I, ∀ b ∈ nulls, R a b := by
      intro a ha b hb
      obtain ⟨q, hq, rfl⟩ := hImem a ha
      show compareSlot cmp o (slot q.1) (slot b) ≠ .gt
      rw [hn b hb, hSmem q hq]; simp [compareSlot, hnf]
    have hI : I.Pairwise R := by
      show (S.map (·.1)).Pairwise R
      rw [List.pairwise_map]
      have : S.take vLimit = S := by rw [hvL, ← hSperm.length_eq]; exact List.take_length
      rw [this] at hSsorted
      exact hSsorted.imp_of_mem (fun {p q} hp hq h => hRc p hp q hq h)
    obtain ⟨h1, h2, h3, h4⟩ := assemble_nullsLast (R := R) nulls I _ hNN hIN hI hlim
    rw [hout]
    exact ⟨h1, h2, _, h3.trans (List.Perm.append_right _ hperm2), h4⟩


theorem rowCmp_totalPreCmp {α : Type} {cmp : α → α → Ordering} (h : TotalCmp cmp) (o : SortOptions)
    (col : List (Option α)) : TotalPreCmp (rowCmp cmp o col) :=
  (compareSlot_totalCmp h o).toTotalPreCmp.comap (fun i => col.getD i none)

theorem lexCmp_totalPreCmp {ι : Type} (cs : List (ι → ι → Ordering))
    (h : ∀ c ∈ cs, TotalPreCmp c) : TotalPreCmp (lexCmp cs) := by
  induction cs with
  | nil => exact ⟨fun _ => rfl, fun _ _ => rfl, fun _ _ _ _ _ => by simp [lexCmp]⟩
  | cons c cs ih =>
    have hc := h c (by simp)
    have ih := ih (fun c' hc' => h c' (by simp [hc']))
    refine ⟨?_, ?_, ?_⟩
    · intro a; simp [lexCmp, hc.refl, ih.refl]
    · intro a b; simp only [lexCmp]; rw [hc.swap a b]
      cases c a b <;> simp [Ordering.swap, ih.swap a b]
    · intro x y z h1 h2
      simp only [lexCmp] at h1 h2 ⊢
      exact lexStep_trans hc (ih.trans x y z) h1 h2

theorem sortToIndices_ok {α : Type} (sortBy : PartialSorter) (hs : SortContract sortBy)
    (cmp : α → α → Ordering) (hc : TotalPreCmp cmp) (o : SortOptions)
    (col : List (Option α)) (limit : Option Nat) :
    isSortedPrefix (rowCmp cmp o col) (List.range col.length)
      (sortToIndices sortBy cmp o col limit) (min (limit.getD col.length) col.length) := by
  unfold sortToIndices
  split
  · rename_i h
    have hk : min (limit.getD col.length) col.length = 0 := by
      rcases h with h | h
      · have : col = [] := by simpa using h
        simp [this]
      · simp [h]
    rw [hk]
    exact ⟨rfl, List.Pairwise.nil, List.range col.length, by simp [isPerm], by simp⟩
  · have hp := partitionValidity_perm (fun i => col.getD i none) (List.range col.length)
    have hlen := hp.length_eq
    simp only [List.length_append, List.length_map, List.length_range] at hlen
    have := sortImpl_ok sortBy hs cmp hc o (partitionValidity col).1 (partitionValidity col).2 limit
      (fun i => col.getD i none)
      (by
        intro p hp
        obtain ⟨i, _, hi⟩ := List.mem_filterMap.mp hp
        cases hsl : col.getD i none with
        | none => rw [hsl] at hi; cases hi
        | some v =>
          rw [hsl] at hi
          have : (i, v) = p := Option.some.inj hi
          subst this; exact hsl)
      (by
        intro i hi
        have := (List.mem_filter.mp hi).2
        cases hsl : col.getD i none with
        | none => rfl
        | some v => rw [hsl] at this; cases this)
    simp only [] at this
    obtain ⟨h1, h2, rest, h3, h4⟩ := this
    have hl : (partitionValidity col).1.length + (partitionValidity col).2.length = col.length := hlen
    rw [hl] at h1
    exact ⟨h1, h2, rest, h3.trans hp, h4⟩

theorem lexsortToIndices_ok (sortBy : PartialSorter) (hs : SortContract sortBy)
    (cs : List (Nat → Nat → Ordering)) (hcs : ∀ c ∈ cs, TotalPreCmp c)
    (rowCount : Nat) (limit : Option Nat) :
    isSortedPrefix (lexCmp cs) (List.range rowCount)
      (lexsortToIndices sortBy cs rowCount limit) (min (limit.getD rowCount) rowCount) := by
  have hfun : lexCompareModel cs = lexCmp cs := by funext i j; exact lexCompareModel_eq cs i j
  have hT := lexCmp_totalPreCmp cs hcs
  unfold lexsortToIndices
  simp only [hfun]
  generalize hk : min (limit.getD rowCount) rowCount = k
  have hkl : k ≤ (List.range rowCount).length := by simp; omega
  split
  · rename_i h0; rw [h0]
    exact ⟨rfl, List.Pairwise.nil, List.range rowCount, by simp [isPerm], by simp⟩
  · have hp := hs.perm (lexCmp cs) k (List.range rowCount) hT hkl
    refine ⟨?_, hs.sorted _ k _ hT hkl, (sortBy (lexCmp cs) k (List.range rowCount)).drop k, ?_,
      hs.le_rest _ k _ hT hkl⟩
    · rw [List.length_take, hp.length_eq]; simp at hkl ⊢; omega
    · unfold isPerm
      rw [List.take_append_drop]; exact hp


theorem compareOp_eq_spec {α : Type} (cmp : α → α → Ordering) (h : TotalPreCmp cmp) (dflt : α)
    (op : CmpOp) (a b : Option α) :
    compareOp (fun x y => cmp x y == .eq) (fun x y => cmp x y == .lt) dflt op a b
      = kernelSpec cmp op a b := by
  cases a with
  | none => cases b <;> cases op <;> simp [compareOp, compareOpRow, kernelSpec, compareSlot, applyOp]
  | some x =>
    cases b with
    | none => cases op <;> simp [compareOp, compareOpRow, kernelSpec, compareSlot, applyOp]
    | some y =>
      have hs := h.swap x y
      cases op <;> simp [compareOp, compareOpRow, kernelSpec, compareSlot, applyOp, applyDesc, CmpOp.onOrd, hs] <;>
        cases cmp x y <;> simp [Ordering.swap]



def scmp {w : Nat} (x y : BitVec w) : Ordering := if x.slt y then .lt else if x = y then .eq else .gt

theorem scmp_eq_compare {w : Nat} (x y : BitVec w) : scmp x y = compare x.toInt y.toInt := by
  unfold scmp
  have hs : x.slt y = decide (x.toInt < y.toInt) := rfl
  rw [hs]
  by_cases h : x.toInt < y.toInt
  · simp [h, Int.compare_eq_lt.mpr h]
  · by_cases e : x = y
    · subst e; simp
    · have hne : x.toInt ≠ y.toInt := fun h' => e (BitVec.toInt_inj.mp h')
      have : y.toInt < x.toInt := by omega
      simp [h, e, Int.compare_eq_gt.mpr this]

theorem TotalCmp.comap_inj {α β : Type} {cmp : α → α → Ordering} (h : TotalCmp cmp) (f : β → α)
    (hf : ∀ x y, f x = f y → x = y) : TotalCmp (fun x y => cmp (f x) (f y)) where
  toTotalPreCmp := h.toTotalPreCmp.comap f
  eq_imp x y e := hf x y (h.eq_imp _ _ e)

theorem scmp_totalCmp {w : Nat} : TotalCmp (scmp (w := w)) := by
  have : (scmp (w := w)) = fun x y => compare x.toInt y.toInt := by
    funext x y; exact scmp_eq_compare x y
  rw [this]
  exact intCmp_totalCmp.comap_inj (fun x : BitVec w => x.toInt) (fun x y h => BitVec.toInt_inj.mp h)

theorem floatCmpBV_totalCmp {w : Nat} (hinj : ∀ a b : BitVec w, floatKey a = floatKey b → a = b) :
    TotalCmp (floatCmpBV (w := w)) :=
  scmp_totalCmp.comap_inj floatKey hinj

/-- three-way form -/
theorem floatCmpBV_eq_spec {w : Nat} (hw : 0 < w)
    (hsle : ∀ a b : BitVec w, (floatKey a).sle (floatKey b) = totalLeBV a b)
    (a b : BitVec w) : floatCmpBV a b = floatTotalCmp w a.toNat b.toNat := by
  unfold floatTotalCmp
  rw [← totalLeBV_eq_spec hw, ← totalLeBV_eq_spec hw, ← hsle, ← hsle]
  show scmp (floatKey a) (floatKey b) = _
  rw [scmp_eq_compare]
  have h1 : (floatKey a).sle (floatKey b) = decide ((floatKey a).toInt ≤ (floatKey b).toInt) := rfl
  have h2 : (floatKey b).sle (floatKey a) = decide ((floatKey b).toInt ≤ (floatKey a).toInt) := rfl
  rw [h1, h2]
  rcases Int.lt_trichotomy (floatKey a).toInt (floatKey b).toInt with h | h | h
  · have h3 : (floatKey a).toInt ≤ (floatKey b).toInt := by omega
    have h4 : ¬ (floatKey b).toInt ≤ (floatKey a).toInt := by omega
    rw [Int.compare_eq_lt.mpr h]; simp [h3, h4]
  · rw [h]; simp
  · have h4 : ¬ (floatKey a).toInt ≤ (floatKey b).toInt := by omega
    rw [Int.compare_eq_gt.mpr h]; simp [h4]


/-! ### contract instance, partition -/

/-- a sorter meeting the contract exists (core merge sort): the contract is satisfiable -/
def mergeSorter : PartialSorter := fun c _ xs => xs.mergeSort (fun a b => c a b != .gt)

theorem mergeSorter_contract : SortContract mergeSorter := by
  have hp : ∀ {β : Type} (c : β → β → Ordering) (xs : List β), TotalPreCmp c →
      (xs.mergeSort (fun a b => c a b != .gt)).Pairwise (fun a b => c a b ≠ .gt) := by
    intro β c xs hc
    have := List.pairwise_mergeSort (le := fun a b => c a b != .gt)
      (by intro a b d h1 h2; simp at h1 h2 ⊢; exact hc.trans a b d h1 h2)
      (by intro a b; rw [hc.swap a b]; cases c a b <;> simp [Ordering.swap]) xs
    exact this.imp (by intro a b h; simpa using h)
  refine ⟨?_, ?_, ?_⟩
  · intro β c k xs _ _; exact List.mergeSort_perm xs _
  · intro β c k xs hc _
    exact (hp c xs hc).sublist (List.take_sublist k _)
  · intro β c k xs hc _ a ha b hb
    have := hp c xs hc
    rw [← List.take_append_drop k (xs.mergeSort _), List.pairwise_append] at this
    exact this.2.2 a ha b hb

/-! ### partition -/

theorem lexCmp_ne_eq {ι : Type} (cs : List (ι → ι → Ordering)) (i j : ι) :
    (lexCmp cs i j != .eq) = cs.any (fun c => c i j != .eq) := by
  induction cs with
  | nil => rfl
  | cons c cs ih =>
    simp only [lexCmp, List.any_cons]
    cases hc : c i j <;> simp [ih, lt_bne_eq, gt_bne_eq]

theorem foldl_bounds (cs : List (Nat → Nat → Ordering)) (g : Nat → Bool) (r : List Nat) :
    cs.foldl (fun acc c => List.zipWith (· || ·) acc (r.map (fun i => c i (i + 1) != .eq))) (r.map g)
      = r.map (fun i => g i || cs.any (fun c => c i (i + 1) != .eq)) := by
  induction cs generalizing g with
  | nil => simp
  | cons c cs ih =>
    simp only [List.foldl_cons, List.any_cons]
    have : List.zipWith (· || ·) (r.map g) (r.map (fun i => c i (i + 1) != .eq))
        = r.map (fun i => g i || (c i (i + 1) != .eq)) := by
      rw [List.zipWith_map_left, List.zipWith_map_right]
      induction r with
      | nil => rfl
      | cons x xs _ => simp
    rw [this, ih]
    apply List.map_congr_left
    intro i _; simp [Bool.or_assoc]

/-- boundary mask of `partition` = mask of the tuple comparator -/
theorem partitionBounds_eq (cs : List (Nat → Nat → Ordering)) (hcs : cs ≠ []) (len : Nat) :
    partitionBounds cs len = boundarySpec (lexCmp cs) len := by
  cases cs with
  | nil => exact absurd rfl hcs
  | cons c cs =>
    unfold partitionBounds findBoundaries boundarySpec
    simp only []
    rw [foldl_bounds cs (fun i => c i (i + 1) != .eq) (List.range (len - 1))]
    apply List.map_congr_left
    intro i _
    rw [lexCmp_ne_eq]; simp

theorem rangesLoop_spec (bs : List Bool) : ∀ (p start : Nat) (out : List (Nat × Nat)),
    ∃ body cur, rangesLoop (setIndicesFrom p bs) start out = (cur, out ++ body) ∧
      rangesSpecGo bs start p = body ++ [(cur, p + bs.length + 1)] := by
  induction bs with
  | nil => intro p start out; exact ⟨[], start, by simp [setIndicesFrom, rangesLoop], by simp [rangesSpecGo]⟩
  | cons b bs ih =>
    intro p start out
    cases b with
    | true =>
      obtain ⟨body, cur, h1, h2⟩ := ih (p + 1) (p + 1) (out ++ [(start, p + 1)])
      refine ⟨(start, p + 1) :: body, cur, ?_, ?_⟩
      · simp only [setIndicesFrom, rangesLoop]; rw [h1]; simp
      · simp only [rangesSpecGo, h2, List.length_cons]; simp; omega
    | false =>
      obtain ⟨body, cur, h1, h2⟩ := ih (p + 1) start out
      refine ⟨body, cur, ?_, ?_⟩
      · simp only [setIndicesFrom]; exact h1
      · simp only [rangesSpecGo, h2, List.length_cons]; simp; omega

theorem rangesLoop_cur_le (bs : List Bool) : ∀ (p start : Nat) (out : List (Nat × Nat)),
    start ≤ p → (rangesLoop (setIndicesFrom p bs) start out).1 ≤ p + bs.length := by
  induction bs with
  | nil => intro p start out h; simpa [setIndicesFrom, rangesLoop] using h
  | cons b bs ih =>
    intro p start out h
    cases b with
    | true =>
      simp only [setIndicesFrom, rangesLoop, List.length_cons]
      have := ih (p + 1) (p + 1) (out ++ [(start, p + 1)]) (Nat.le_refl _); omega
    | false =>
      simp only [setIndicesFrom, List.length_cons]
      have := ih (p + 1) start out (by omega); omega

theorem partitionRanges_eq (bounds : List Bool) (len : Nat) :
    partitionRanges bounds len = rangesSpec bounds len := by
  unfold partitionRanges rangesSpec
  split
  · rfl
  · obtain ⟨body, cur, h1, h2⟩ := rangesLoop_spec bounds 0 0 []
    have hle := rangesLoop_cur_le bounds 0 0 [] (Nat.le_refl _)
    unfold setIndices
    rw [h1] at hle
    simp only [h1, h2]
    have : (cur != bounds.length + 1) = true := by simp at hle ⊢; omega
    simp [this]


/-! ### rank -/

namespace TotalPreCmp
variable {α : Type} {cmp : α → α → Ordering}
/-- equivalent right operands give the same verdict -/
theorem congr_right (h : TotalPreCmp cmp) {a b c : α} (hbc : cmp b c = .eq) : cmp a b = cmp a c := by
  have hcb : cmp c b = .eq := by rw [h.swap b c, hbc]; rfl
  cases hab : cmp a b with
  | lt => exact (h.lt_of_lt_of_le hab (by simp [hbc])).symm
  | eq => exact (h.eq_trans hab hbc).symm
  | gt =>
    have hba : cmp b a = .lt := by rw [h.swap a b, hab]; rfl
    have hca : cmp c a = .lt := h.lt_of_le_of_lt (by simp [hcb]) hba
    rw [h.swap c a, hca]; rfl
end TotalPreCmp

/-- number of entries `≤ v` -/
def cntLe {β : Type} (c : β → β → Ordering) (L : List β) (v : β) : Nat :=
  (L.filter (fun u => c u v != .gt)).length

theorem rankLoop_ok {α : Type} (cmp : α → α → Ordering) (d : Bool)
    (hc : TotalPreCmp (fun u v : α × Nat => applyDesc d (cmp u.1 v.1))) (base : Nat) :
    ∀ (rest suf' : List (α × Nat)) (w1p : α × Nat) (validRank count : Nat) (out : List Nat),
    let c := fun u v : α × Nat => applyDesc d (cmp u.1 v.1)
    let L := rest.reverse ++ (w1p :: suf')
    L.Pairwise (fun u v => c u v ≠ .gt) →
    validRank = base + cntLe c L w1p →
    count = ((w1p :: suf').filter (fun u => c u w1p == .eq)).length →
    (L.map (·.2)).Nodup →
    (∀ u ∈ L, u.2 < out.length) →
    (∀ u ∈ w1p :: suf', out[u.2]? = some (base + cntLe c L u)) →
    let out' := rankLoop (fun a b => cmp a b == .eq) rest w1p.1 validRank count out
    out'.length = out.length ∧ (∀ u ∈ L, out'[u.2]? = some (base + cntLe c L u)) ∧
      (∀ i, (∀ u ∈ L, u.2 ≠ i) → out'[i]? = out[i]?) := by
  intro rest
  induction rest with
  | nil =>
    intro suf' w1p validRank count out c L _ _ _ _ _ hOut
    refine ⟨rfl, ?_, fun _ _ => rfl⟩
    intro u hu
    have : u ∈ w1p :: suf' := by simpa [L] using hu
    exact hOut u this
  | cons w0 rest ih =>
    intro suf' w1p validRank count out c L hS hVR hC hND hlen hOut
    have hrefl : ∀ u, c u u = .eq := hc.refl
    have hswap : ∀ u v, c v u = (c u v).swap := hc.swap
    have hL : L = rest.reverse ++ (w0 :: w1p :: suf') := by simp [L]
    have hL2 : L = (rest.reverse ++ [w0]) ++ (w1p :: suf') := by simp [L]
    -- order facts
    have hS' := hS; rw [hL, List.pairwise_append] at hS'
    obtain ⟨_, hS2, hS3⟩ := hS'
    rw [List.pairwise_cons] at hS2
    obtain ⟨h2a, h2b⟩ := hS2
    rw [List.pairwise_cons] at h2b
    have F1 : ∀ u ∈ rest.reverse ++ [w0], c u w0 ≠ .gt := by
      intro u hu
      rcases List.mem_append.mp hu with h | h
      · exact hS3 u h w0 (by simp)
      · have : u = w0 := by simpa using h
        subst this; rw [hrefl]; simp
    have F2 : ∀ v ∈ w1p :: suf', c w1p v ≠ .gt := by
      intro v hv
      rcases List.mem_cons.mp hv with h | h
      · subst h; rw [hrefl]; simp
      · exact h2b.1 v h
    have F3 : c w0 w1p ≠ .gt := h2a w1p (by simp)
    have F4 : ∀ u ∈ rest.reverse ++ [w0], ∀ v ∈ w1p :: suf', c u v ≠ .gt := by
      intro u hu v hv
      rcases List.mem_append.mp hu with h | h
      · exact hS3 u h v (by simp [List.mem_cons.mp hv])
      · have : u = w0 := by simpa using h
        subst this; exact h2a v hv
    -- index facts
    have hND' := hND; rw [hL, List.map_append, List.nodup_append] at hND'
    have hnd2 := (List.nodup_cons.mp hND'.2.1).1
    have hne : ∀ u ∈ w1p :: suf', u.2 ≠ w0.2 := by
      intro u hu e
      exact hnd2 (List.mem_map.mpr ⟨u, hu, e⟩)
    have hw0L : w0 ∈ L := by rw [hL]; simp
    have hw0len : w0.2 < out.length := hlen w0 hw0L
    have hc0 : (c w0 w1p = .eq) ↔ ((cmp w0.1 w1p.1 == .eq) = true) := by
      show applyDesc d (cmp w0.1 w1p.1) = .eq ↔ _
      cases d <;> cases cmp w0.1 w1p.1 <;> simp [applyDesc, Ordering.swap]
    by_cases heq : (cmp w0.1 w1p.1 == .eq) = true
    · -- same group
      have hce : c w0 w1p = .eq := hc0.mpr heq
      have hcongr : ∀ u, c u w0 = c u w1p := fun u => hc.congr_right hce
      have hcnt : cntLe c L w0 = cntLe c L w1p := by
        unfold cntLe; congr 1; apply List.filter_congr; intro u _; rw [hcongr u]
      have hfc : ((w0 :: w1p :: suf').filter (fun u => c u w0 == .eq)).length = count + 1 := by
        rw [List.filter_cons]
        have h00 : (c w0 w0 == .eq) = true := by rw [hrefl]; rfl
        rw [if_pos h00, List.length_cons, hC]
        congr 2; apply List.filter_congr; intro u _; rw [hcongr u]
      have step : rankLoop (fun a b => cmp a b == .eq) (w0 :: rest) w1p.1 validRank count out
          = rankLoop (fun a b => cmp a b == .eq) rest w0.1 validRank (count + 1) (out.set w0.2 validRank) := by
        simp only [rankLoop, heq]
      have := ih (w1p :: suf') w0 validRank (count + 1) (out.set w0.2 validRank)
        (by rw [← hL]; exact hS) (by rw [← hL, hcnt]; exact hVR)
        hfc.symm
        (by rw [← hL]; exact hND)
        (by intro u hu; rw [List.length_set]; exact hlen u (by rw [hL]; exact hu))
        (by
          intro u hu
          rw [← hL]
          rcases List.mem_cons.mp hu with h | h
          · subst h; rw [List.getElem?_set_self hw0len, hVR, hcnt]
          · rw [List.getElem?_set_ne (Ne.symm (hne u h))]; exact hOut u h)
      simp only [] at this
      rw [← hL] at this
      obtain ⟨r1, r2, r3⟩ := this
      show (rankLoop _ (w0 :: rest) w1p.1 validRank count out).length = _ ∧ _
      rw [step]
      refine ⟨by rw [r1, List.length_set], r2, ?_⟩
      intro i hi
      rw [r3 i hi, List.getElem?_set_ne (hi w0 hw0L)]
    · -- new group: w0 < w1p
      have hlt : c w0 w1p = .lt := by
        cases hcc : c w0 w1p with
        | lt => rfl
        | eq => exact absurd (hc0.mp hcc) heq
        | gt => exact absurd hcc F3
      have hgt : ∀ v ∈ w1p :: suf', c v w0 = .gt := by
        intro v hv
        have this : c w0 v = .lt := hc.lt_of_lt_of_le hlt (F2 v hv)
        rw [hswap w0 v, this]; rfl
      have hcntw0 : cntLe c L w0 = (rest.reverse ++ [w0]).length := by
        unfold cntLe
        rw [hL2, List.filter_append, List.length_append]
        have e1 : (rest.reverse ++ [w0]).filter (fun u => c u w0 != .gt) = rest.reverse ++ [w0] := by
          apply List.filter_eq_self.mpr; intro u hu; simpa using F1 u hu
        have e2 : (w1p :: suf').filter (fun u => c u w0 != .gt) = [] := by
          apply List.filter_eq_nil_iff.mpr; intro u hu; simp [hgt u hu]
        rw [e1, e2]; simp
      have hcntw1 : cntLe c L w1p = (rest.reverse ++ [w0]).length + count := by
        unfold cntLe
        rw [hL2, List.filter_append, List.length_append]
        have e1 : (rest.reverse ++ [w0]).filter (fun u => c u w1p != .gt) = rest.reverse ++ [w0] := by
          apply List.filter_eq_self.mpr; intro u hu; simpa using F4 u hu w1p (by simp)
        have e2 : (w1p :: suf').filter (fun u => c u w1p != .gt) = (w1p :: suf').filter (fun u => c u w1p == .eq) := by
          apply List.filter_congr; intro u hu
          have h1 := F2 u hu
          rw [hswap u w1p] at h1
          cases hcu : c u w1p <;> simp [hcu, Ordering.swap] at h1 ⊢
        rw [e1, e2, hC]
      have hfc1 : ((w0 :: w1p :: suf').filter (fun u => c u w0 == .eq)).length = 1 := by
        rw [List.filter_cons]
        have h00 : (c w0 w0 == .eq) = true := by rw [hrefl]; rfl
        have e2 : (w1p :: suf').filter (fun u => c u w0 == .eq) = [] := by
          apply List.filter_eq_nil_iff.mpr; intro u hu; simp [hgt u hu]
        rw [if_pos h00, e2]; rfl
      have hvr : validRank - count = base + cntLe c L w0 := by rw [hVR, hcntw1, hcntw0]; omega
      have step : rankLoop (fun a b => cmp a b == .eq) (w0 :: rest) w1p.1 validRank count out
          = rankLoop (fun a b => cmp a b == .eq) rest w0.1 (validRank - count) 1 (out.set w0.2 (validRank - count)) := by
        simp only [rankLoop, heq]
      have := ih (w1p :: suf') w0 (validRank - count) 1 (out.set w0.2 (validRank - count))
        (by rw [← hL]; exact hS) (by rw [← hL]; exact hvr)
        hfc1.symm
        (by rw [← hL]; exact hND)
        (by intro u hu; rw [List.length_set]; exact hlen u (by rw [hL]; exact hu))
        (by
          intro u hu
          rw [← hL]
          rcases List.mem_cons.mp hu with h | h
          · subst h; rw [List.getElem?_set_self hw0len, hvr]
          · rw [List.getElem?_set_ne (Ne.symm (hne u h))]; exact hOut u h)
      simp only [] at this
      rw [← hL] at this
      obtain ⟨r1, r2, r3⟩ := this
      show (rankLoop _ (w0 :: rest) w1p.1 validRank count out).length = _ ∧ _
      rw [step]
      refine ⟨by rw [r1, List.length_set], r2, ?_⟩
      intro i hi
      rw [r3 i hi, List.getElem?_set_ne (hi w0 hw0L)]

theorem validPairs_perm {α : Type} (slot : Nat → Option α) (l : List Nat) :
    ((l.filterMap (fun i => (slot i).map (fun v => (v, i)))).map (·.2) ++
      l.filter (fun i => (slot i).isNone)).Perm l := by
  induction l with
  | nil => simp
  | cons x xs ih =>
    cases hx : slot x with
    | none =>
      simp only [List.filterMap_cons, hx, Option.map_none, List.filter_cons, Option.isNone_none, if_true]
      exact List.perm_middle.trans (List.Perm.cons x ih)
    | some v =>
      simp only [List.filterMap_cons, hx, Option.map_some, List.map_cons, List.filter_cons,
        Option.isNone_some, List.cons_append]
      exact List.Perm.cons x ih

/-- counting rows `≤ row i` splits into valid rows and null rows -/
theorem count_split {α : Type} (slot : Nat → Option α) (n : Nat) (P : Nat → Bool) :
    ((List.range n).filter P).length =
      (((List.range n).filterMap (fun i => (slot i).map (fun v => (v, i)))).filter (fun u => P u.2)).length +
      (((List.range n).filter (fun i => (slot i).isNone)).filter P).length := by
  have hp := (validPairs_perm slot (List.range n)).symm
  rw [(hp.filter P).length_eq, List.filter_append, List.length_append, List.filter_map, List.length_map]
  rfl

theorem rankImpl_ok {α : Type} (cmp : α → α → Ordering) (hc : TotalPreCmp cmp) (o : SortOptions)
    (slot : Nat → Option α) (n : Nat) (L : List (α × Nat))
    (hLsorted : L.Pairwise (fun u v => applyDesc o.descending (cmp u.1 v.1) ≠ .gt))
    (hLperm : L.Perm ((List.range n).filterMap (fun i => (slot i).map (fun v => (v, i))))) :
    let validRank := match o.nullsFirst with | true => n | false => L.length
    let nullRank := match o.nullsFirst with | true => n - L.length | false => n
    let out := List.replicate n nullRank
    (match L.reverse with
      | [] => out
      | last :: rest => rankLoop (fun a b => cmp a b == .eq) rest last.1 validRank 1 (out.set last.2 validRank))
    = (List.range n).map (fun i => ((List.range n).filter
        (fun j => compareSlot cmp o (slot j) (slot i) != .gt)).length) := by
  intro validRank nullRank out
  let c := fun u v : α × Nat => applyDesc o.descending (cmp u.1 v.1)
  have hcT : TotalPreCmp c := (applyDesc_totalPreCmp hc o.descending).comap (fun p : α × Nat => p.1)
  let valid := (List.range n).filterMap (fun i => (slot i).map (fun v => (v, i)))
  let nulls := (List.range n).filter (fun i => (slot i).isNone)
  have hV1 : ∀ u ∈ valid, slot u.2 = some u.1 ∧ u.2 < n := by
    intro u hu
    obtain ⟨i, hi, he⟩ := List.mem_filterMap.mp hu
    cases hs : slot i with
    | none => rw [hs] at he; cases he
    | some v =>
      rw [hs] at he
      have : (v, i) = u := Option.some.inj he
      subst this; exact ⟨hs, List.mem_range.mp hi⟩
  have hperm := validPairs_perm slot (List.range n)
  have hlenV : valid.length + nulls.length = n := by
    have := hperm.length_eq
    simpa [valid, nulls] using this
  have hND : (valid.map (·.2)).Nodup := by
    have : (valid.map (·.2) ++ nulls).Nodup := (hperm.nodup_iff).mpr List.nodup_range
    exact (List.nodup_append.mp this).1
  have hLlen : L.length = valid.length := hLperm.length_eq
  have hLmem : ∀ u, u ∈ L ↔ u ∈ valid := fun u => hLperm.mem_iff
  have hLND : (L.map (·.2)).Nodup := ((hLperm.map (·.2)).nodup_iff).mpr hND
  have hcnt : ∀ v, cntLe c L v = cntLe c valid v := fun v => (hLperm.filter _).length_eq
  let base := match o.nullsFirst with | true => n - L.length | false => 0
  -- the loop result, pointwise
  have hres : ∀ res, res = (match L.reverse with
      | [] => out
      | last :: rest => rankLoop (fun a b => cmp a b == Ordering.eq) rest last.1 validRank 1 (out.set last.2 validRank)) →
      res.length = n ∧ (∀ u ∈ L, res[u.2]? = some (base + cntLe c L u)) ∧
        (∀ i, i < n → (∀ u ∈ L, u.2 ≠ i) → res[i]? = some nullRank) := by
    intro res hres
    cases hrev : L.reverse with
    | nil =>
      have hLnil : L = [] := by simpa using hrev
      rw [hrev] at hres; subst hres
      refine ⟨by simp [out], by simp [hLnil], ?_⟩
      intro i hi _; simp [out, hi]
    | cons last rest =>
      rw [hrev] at hres; subst hres
      have hL : L = rest.reverse ++ [last] := by
        have := congrArg List.reverse hrev; simpa using this
      have hlastL : last ∈ L := by rw [hL]; simp
      have hidx : ∀ u ∈ L, u.2 < n := fun u hu => (hV1 u ((hLmem u).mp hu)).2
      have hall : cntLe c L last = L.length := by
        unfold cntLe
        have : L.filter (fun u => c u last != .gt) = L := by
          apply List.filter_eq_self.mpr
          intro u hu
          have hp := hLsorted; rw [hL, List.pairwise_append] at hp
          rw [hL] at hu
          rcases List.mem_append.mp hu with h | h
          · simpa using hp.2.2 u h last (by simp)
          · have : u = last := by simpa using h
            subst this
            have : c u u = .eq := hcT.refl u
            simp [this]
        rw [this]
      have hvr : validRank = base + cntLe c L last := by
        rw [hall]
        show (match o.nullsFirst with | true => n | false => L.length)
          = (match o.nullsFirst with | true => n - L.length | false => 0) + L.length
        cases o.nullsFirst <;> simp <;> omega
      have := rankLoop_ok cmp o.descending hcT base rest [] last validRank 1 (out.set last.2 validRank)
        (by rw [← hL]; exact hLsorted) (by rw [← hL]; exact hvr)
        (by
          have h00 : c last last = .eq := hcT.refl last
          show 1 = ([last].filter (fun u => c u last == .eq)).length
          rw [List.filter_cons, h00]; rfl)
        (by rw [← hL]; exact hLND)
        (by intro u hu; rw [List.length_set]; simp [out]; exact hidx u (by rw [hL]; exact hu))
        (by
          intro u hu
          have : u = last := by simpa using hu
          subst this
          rw [← hL, List.getElem?_set_self (by simp [out]; exact hidx u hlastL), hvr])
      simp only [] at this
      rw [← hL] at this
      obtain ⟨r1, r2, r3⟩ := this
      refine ⟨by rw [r1, List.length_set]; simp [out], r2, ?_⟩
      intro i hi hne
      rw [r3 i hne, List.getElem?_set_ne (hne last hlastL)]
      simp [out, hi]
  obtain ⟨h1, h2, h3⟩ := hres _ rfl
  apply List.ext_getElem?
  intro i
  by_cases hi : i < n
  · rw [List.getElem?_map, List.getElem?_range hi, Option.map_some]
    rw [count_split slot n]
    cases hsi : slot i with
    | some v =>
      have hmem : (v, i) ∈ valid := by
        apply List.mem_filterMap.mpr
        exact ⟨i, List.mem_range.mpr hi, by rw [hsi]; rfl⟩
      rw [h2 (v, i) ((hLmem _).mpr hmem), hcnt]
      congr 1
      have e1 : (valid.filter (fun u => compareSlot cmp o (slot u.2) (some v) != .gt)).length
          = cntLe c valid (v, i) := by
        unfold cntLe; congr 1; apply List.filter_congr
        intro u hu; rw [(hV1 u hu).1]; rfl
      have e2 : (nulls.filter (fun j => compareSlot cmp o (slot j) (some v) != .gt)).length
          = (match o.nullsFirst with | true => n - L.length | false => 0) := by
        have hn : ∀ j ∈ nulls, slot j = none := by
          intro j hj
          have := (List.mem_filter.mp hj).2
          cases hs : slot j with
          | none => rfl
          | some w => rw [hs] at this; cases this
        cases hnf : o.nullsFirst with
        | true =>
          have : nulls.filter (fun j => compareSlot cmp o (slot j) (some v) != .gt) = nulls := by
            apply List.filter_eq_self.mpr; intro j hj; rw [hn j hj]; simp [compareSlot, hnf]
          rw [this]; simp only []; omega
        | false =>
          have : nulls.filter (fun j => compareSlot cmp o (slot j) (some v) != .gt) = [] := by
            apply List.filter_eq_nil_iff.mpr; intro j hj; rw [hn j hj]; simp [compareSlot, hnf]
          rw [this]; rfl
      show base + cntLe c valid (v, i) = _
      rw [e1, e2]; omega
    | none =>
      have hne : ∀ u ∈ L, u.2 ≠ i := by
        intro u hu e
        have := (hV1 u ((hLmem u).mp hu)).1
        rw [e, hsi] at this; cases this
      rw [h3 i hi hne]
      congr 1
      have hn : ∀ j ∈ nulls, slot j = none := by
        intro j hj
        have := (List.mem_filter.mp hj).2
        cases hs : slot j with
        | none => rfl
        | some w => rw [hs] at this; cases this
      have e2 : nulls.filter (fun j => compareSlot cmp o (slot j) none != .gt) = nulls := by
        apply List.filter_eq_self.mpr; intro j hj; rw [hn j hj]; simp [compareSlot]
      cases hnf : o.nullsFirst with
      | true =>
        have e1 : valid.filter (fun u => compareSlot cmp o (slot u.2) none != .gt) = [] := by
          apply List.filter_eq_nil_iff.mpr; intro u hu; rw [(hV1 u hu).1]; simp [compareSlot, hnf]
        show (match o.nullsFirst with | true => n - L.length | false => n) = _
        rw [hnf, e1, e2]; simp only [List.length_nil]; omega
      | false =>
        have e1 : valid.filter (fun u => compareSlot cmp o (slot u.2) none != .gt) = valid := by
          apply List.filter_eq_self.mpr; intro u hu; rw [(hV1 u hu).1]; simp [compareSlot, hnf]
        show (match o.nullsFirst with | true => n - L.length | false => n) = _
        rw [hnf, e1, e2]; simp only []; omega
  · have hge : n ≤ i := Nat.le_of_not_lt hi
    rw [List.getElem?_eq_none (by rw [h1]; exact hge), List.getElem?_eq_none (by simp; exact hge)]

theorem rankCol_eq_spec {α : Type} (sortBy : PartialSorter) (hs : SortContract sortBy)
    (cmp : α → α → Ordering) (hc : TotalPreCmp cmp) (o : SortOptions) (col : List (Option α)) :
    rankCol (fun c xs => sortBy c xs.length xs) cmp o col = rankSpec (rowCmp cmp o col) col.length := by
  let valid := (List.range col.length).filterMap (fun i => (col.getD i none).map (fun v => (v, i)))
  let c0 : (α × Nat) → (α × Nat) → Ordering := fun a b => cmp a.1 b.1
  have hc0 : TotalPreCmp c0 := hc.comap (fun p : α × Nat => p.1)
  let S := sortBy c0 valid.length valid
  have hSperm : S.Perm valid := hs.perm c0 _ valid hc0 (Nat.le_refl _)
  have hSsorted : S.Pairwise (fun a b => c0 a b ≠ .gt) := by
    have := hs.sorted c0 _ valid hc0 (Nat.le_refl _)
    have e : S.take valid.length = S := by rw [← hSperm.length_eq]; exact List.take_length
    rw [e] at this; exact this
  let L := if o.descending then S.reverse else S
  have hLperm : L.Perm valid := by
    show (if o.descending then S.reverse else S).Perm valid
    split
    · exact (List.reverse_perm S).trans hSperm
    · exact hSperm
  have hLsorted : L.Pairwise (fun u v => applyDesc o.descending (cmp u.1 v.1) ≠ .gt) := by
    show (if o.descending then S.reverse else S).Pairwise _
    cases hd : o.descending with
    | false => simpa [applyDesc] using hSsorted
    | true =>
      simp only [if_true]
      rw [List.pairwise_reverse]
      refine hSsorted.imp ?_
      intro a b h
      show applyDesc true (cmp b.1 a.1) ≠ .gt
      have : cmp b.1 a.1 = (cmp a.1 b.1).swap := hc.swap a.1 b.1
      simp only [applyDesc, if_true, this]
      cases hab : cmp a.1 b.1 <;> simp_all [c0, Ordering.swap]
  have := rankImpl_ok cmp hc o (fun i => col.getD i none) col.length L hLsorted hLperm
  exact this


end ArrowModel.C10
