import ArrowModel.Common.Proto
import ArrowModel.C10.Spec
import ArrowModel.C10.Model
/-
C10 driver: one case per line → one canonical answer per line.

Value tokens (self-describing, canonical): `n` null · `i<int>` integer-backed value ·
`t<int>:<int>…` interval tuple · `g<hex4>` / `f<hex8>` / `d<hex16>` f16/f32/f64 bits ·
`x<hex>` bytes (`x` = empty) · `[v;v;…]` list · `{v;v;…}` struct.  A column is a
comma-separated list of tokens (`-` = empty).  The type / physical-variant fields of a case
line steer only the Rust side (how the array is built); the model sees logical values.
-/
namespace ArrowModel.C10
open ArrowModel.Proto

/-- split on `sep` at bracket depth 0 -/
def splitTop (sep : Char) (s : List Char) : List (List Char) :=
  let rec go : List Char → Nat → List Char → List (List Char) → List (List Char)
    | [], _, cur, acc => (cur.reverse :: acc).reverse
    | c :: cs, depth, cur, acc =>
      if c == sep && depth == 0 then go cs depth [] (cur.reverse :: acc)
      else if c == '[' || c == '{' then go cs (depth + 1) (c :: cur) acc
      else if c == ']' || c == '}' then go cs (depth - 1) (c :: cur) acc
      else go cs depth (c :: cur) acc
  go s 0 [] []

def hexNat (s : List Char) : Option Nat :=
  s.foldlM (fun acc c => (hexVal c).map (fun d => acc * 16 + d)) 0

def parseValFuel : Nat → List Char → Option Val
  | 0, _ => none
  | fuel + 1, s =>
    match s with
    | ['n'] => some .null
    | 'i' :: rest => (parseInt (String.ofList rest)).map .int
    | 't' :: rest => ((splitTop ':' rest).mapM (fun t => parseInt (String.ofList t))).map .tup
    | 'g' :: rest => (hexNat rest).map (.flt 16)
    | 'f' :: rest => (hexNat rest).map (.flt 32)
    | 'd' :: rest => (hexNat rest).map (.flt 64)
    | 'x' :: rest => (if rest.isEmpty then some [] else parseHex (String.ofList rest)).map .bytes
    | 'u' :: rest =>
      match splitTop ':' rest with
      | tid :: more =>
        match parseInt (String.ofList tid), parseValFuel fuel (":".intercalate (more.map String.ofList)).toList with
        | some _, some .null => some .null
        | some t, some v => some (.union t v)
        | _, _ => none
      | _ => none
    | '[' :: rest =>
      if rest.getLast? != some ']' then none else
      let inner := rest.dropLast
      if inner.isEmpty then some (.list []) else
      ((splitTop ';' inner).mapM (parseValFuel fuel)).map .list
    | '{' :: rest =>
      if rest.getLast? != some '}' then none else
      let inner := rest.dropLast
      if inner.isEmpty then some (.struct []) else
      ((splitTop ';' inner).mapM (parseValFuel fuel)).map .struct
    | _ => none

def parseVal (s : String) : Option Val := parseValFuel (s.length + 1) s.toList

/-- a column: tokens with their parsed values -/
def parseCol (s : String) : Option (List (String × Val)) :=
  if s = "-" then some [] else
  (splitTop ',' s.toList).mapM (fun t => (parseVal (String.ofList t)).map (fun v =>
    (if v == Val.null then "n" else String.ofList t, v)))

def parseOpts (s : String) : Option SortOptions :=
  match s.toList with
  | [d, n] =>
    if (d == 'a' || d == 'd') && (n == 'f' || n == 'l') then
      some { descending := d == 'd', nullsFirst := n == 'f' }
    else none
  | _ => none

def parseLimit (s : String) : Option (Option Nat) :=
  if s = "-" then some none else s.toNat?.map some

def showOrd : Ordering → Char
  | .lt => '<'
  | .eq => '='
  | .gt => '>'

def check (model spec : String) : String :=
  if model = spec then model else s!"MODEL-SPEC-MISMATCH model={model} spec={spec}"

def opts (c : List (String × Val)) : List (Option Val) := c.map (fun p => p.2.toOpt)

/-- model comparator of one column against another (`make_comparator(l, r, o)`) -/
def colCmpModel (o : SortOptions) (l r : List (String × Val)) : Nat → Nat → Ordering :=
  compareArr (valueCmp o) Val.null o (opts l) (opts r)

/-- specification comparator -/
def colCmpSpec (o : SortOptions) (l r : List (String × Val)) (i j : Nat) : Ordering :=
  compareSlot (valueCmp o) o ((opts l).getD i none) ((opts r).getD j none)

/-- every byte-string comparison path must agree with the lexicographic order -/
def bytesPathsAgree : Val → Val → Bool
  | .bytes a, .bytes b =>
    cmpBytesPrefix a b == bytesCmp a b && cmpView a b == bytesCmp a b
  | _, _ => true

/-- decidable form of `isSortedPrefix` on indices -/
def sortedPrefixB (rc : Nat → Nat → Ordering) (len : Nat) (out : List Nat) (k : Nat) : Bool :=
  out.length == k && out.all (· < len) && out.eraseDups.length == out.length &&
  (List.range out.length).all (fun p => (List.range out.length).all (fun q =>
    p ≥ q || rc (out.getD p 0) (out.getD q 0) != .gt)) &&
  (List.range len).all (fun b => out.contains b || out.all (fun a => rc a b != .gt))

def showRanges (rs : List (Nat × Nat)) : String := showList (fun p => s!"{p.1}:{p.2}") rs

def parseOp : String → Option CmpOp
  | "eq" => some .eq
  | "neq" => some .neq
  | "lt" => some .lt
  | "lt_eq" => some .le
  | "gt" => some .gt
  | "gt_eq" => some .ge
  | "distinct" => some .distinct
  | "not_distinct" => some .notDistinct
  | _ => none

def showOB : Option Bool → Char
  | none => 'n'
  | some true => '1'
  | some false => '0'

/-- parse `(<type> <variant> <opts> <col>)*` -/
def parseSortCols : List String → Option (List (SortOptions × List (String × Val)))
  | [] => some []
  | _ty :: _var :: o :: c :: rest => do
    let o ← parseOpts o
    let c ← parseCol c
    let r ← parseSortCols rest
    pure ((o, c) :: r)
  | _ => none

def parsePartCols : List String → Option (List (List (String × Val)))
  | [] => some []
  | _ty :: _var :: c :: rest => do
    let c ← parseCol c
    let r ← parsePartCols rest
    pure (c :: r)
  | _ => none

def ascNF : SortOptions := { descending := false, nullsFirst := true }

def handle (toks : List String) : String :=
  match toks with
  | ["cmp", _ty, _vl, _vr, o, l, r] =>
    match parseOpts o, parseCol l, parseCol r with
    | some o, some l, some r =>
      let m := colCmpModel o l r
      let s := colCmpSpec o l r
      let paths := l.all (fun a => r.all (fun b => bytesPathsAgree a.2 b.2))
      if !paths then "MODEL-SPEC-MISMATCH byte-comparator-paths" else
      let render (f : Nat → Nat → Ordering) : String :=
        if l.isEmpty then "-" else
        "/".intercalate ((List.range l.length).map (fun i =>
          if r.isEmpty then "-" else String.ofList ((List.range r.length).map (fun j => showOrd (f i j)))))
      check (render m) (render s)
    | _, _, _ => "bad-op"
  | ["sort", _ty, _var, o, lim, c] =>
    match parseOpts o, parseLimit lim, parseCol c with
    | some o, some lim, some c =>
      let out := sortToIndices insSorter (valueCmp o) o (opts c) lim
      let k := min (lim.getD c.length) c.length
      if !sortedPrefixB (colCmpSpec o c c) c.length out k then
        s!"MODEL-SPEC-MISMATCH sort-prefix {out}"
      else showList (fun i => (c.getD i ("?", Val.null)).1) out
    | _, _, _ => "bad-op"
  | "lexsort" :: lim :: _n :: rest =>
    match parseLimit lim, parseSortCols rest with
    | some lim, some cols =>
      match cols with
      | [] => "ERR:invalid-arg"
      | (_, c0) :: _ =>
        let n := c0.length
        if cols.any (fun p => p.2.length != n) then "ERR:compute" else
        let cs := cols.map (fun p => colCmpModel p.1 p.2 p.2)
        let ss := cols.map (fun p => colCmpSpec p.1 p.2 p.2)
        let out := lexsortToIndices insSorter cs n lim
        let k := min (lim.getD n) n
        if !sortedPrefixB (lexCmp ss) n out k then s!"MODEL-SPEC-MISMATCH lexsort-prefix {out}"
        else showList (fun i => "|".intercalate (cols.map (fun p => (p.2.getD i ("?", Val.null)).1))) out
    | _, _ => "bad-op"
  | ["rank", ty, _var, o, c] =>
    match parseOpts o, parseCol c with
    | some o, some c =>
      let m := rankCol (fun cmp xs => insSort cmp xs) (valueCmp o) o (opts c)
      let s := rankSpec (colCmpSpec o c c) c.length
      let mb : Option (List Nat) :=
        if ty = "bool" then
          some (booleanRank o (c.map (fun p => match p.2 with
            | .int i => some (i != 0)
            | _ => none)))
        else none
      match mb with
      | some mb => if mb != s then s!"MODEL-SPEC-MISMATCH boolean_rank {mb} spec={s}" else
          check (showList toString m) (showList toString s)
      | none => check (showList toString m) (showList toString s)
    | _, _ => "bad-op"
  | "partition" :: _n :: rest =>
    match parsePartCols rest with
    | some cols =>
      match cols with
      | [] => "ERR:invalid-arg"
      | c0 :: _ =>
        let n := c0.length
        if cols.any (fun c => c.length != n) then "ERR:invalid-arg" else
        let cs := cols.map (fun c => colCmpModel ascNF c c)
        let ss := cols.map (fun c => colCmpSpec ascNF c c)
        let m := partitionRanges (partitionBounds cs n) n
        let sp := rangesSpec (boundarySpec (lexCmp ss) n) n
        -- `Partitions::len` = set bits + 1 (0 for no rows), `is_empty` = no rows
        let lenM := if n = 0 then 0 else ((partitionBounds cs n).filter id).length + 1
        check s!"{showRanges m} {lenM} {showBool (n == 0)}" s!"{showRanges sp} {sp.length} {showBool (n == 0)}"
    | none => "bad-op"
  | ["kernel", op, _tl, _tr, _vl, _vr, sc, l, r] =>
    match parseOp op, parseCol l, parseCol r with
    | some op, some l, some r =>
      let (ls, rs) := (sc.toList.getD 0 'a' == 's', sc.toList.getD 1 'a' == 's')
      if (ls && l.length != 1) || (rs && r.length != 1) then "bad-op" else
      if !ls && !rs && l.length != r.length then "ERR:invalid-arg" else
      let len := if ls then r.length else l.length
      let lv (i : Nat) : Option Val := (opts l).getD (if ls then 0 else i) none
      let rv (i : Nat) : Option Val := (opts r).getD (if rs then 0 else i) none
      let isEq (a b : Val) : Bool := cmpVal ascNF a b == .eq
      let isLt (a b : Val) : Bool := cmpVal ascNF a b == .lt
      let m := (List.range len).map (fun i => showOB (compareOp isEq isLt Val.null op (lv i) (rv i)))
      let s := (List.range len).map (fun i => showOB (kernelSpec (cmpVal ascNF) op (lv i) (rv i)))
      check (if m.isEmpty then "-" else String.ofList m) (if s.isEmpty then "-" else String.ofList s)
    | _, _, _ => "bad-op"
  | ["native", _ty, a, b] =>
    match parseVal a, parseVal b with
    | some a, some b =>
      let o := cmpVal ascNF a b
      String.ofList (showOrd o :: (nativeOps o).map (fun x => if x then '1' else '0'))
    | _, _ => "bad-op"
  | ["pvalid", _ty, _var, c] =>
    match parseCol c with
    | some c =>
      let (v, n) := partitionValidity (opts c)
      -- specification: the valid / null positions in ascending order
      let sv := (List.range c.length).filter (fun i => ((opts c).getD i none).isSome)
      let sn := (List.range c.length).filter (fun i => ((opts c).getD i none).isNone)
      check s!"{showList toString (v.map (·.1))};{showList toString n}"
            s!"{showList toString sv};{showList toString sn}"
    | none => "bad-op"
  | "lexcmp" :: _n :: rest =>
    match parseSortCols rest with
    | some cols =>
      match cols with
      | [] => "ERR:invalid-arg"
      | (_, c0) :: _ =>
        let n := c0.length
        let cs := cols.map (fun p => colCmpModel p.1 p.2 p.2)
        let ss := cols.map (fun p => colCmpSpec p.1 p.2 p.2)
        let render (f : Nat → Nat → Ordering) : String :=
          if n = 0 then "-" else
          "/".intercalate ((List.range n).map (fun i => String.ofList ((List.range n).map (fun j => showOrd (f i j)))))
        check (render (lexCompareModel cs)) (render (lexCmp ss))
    | none => "bad-op"
  | ["viewcmp", _ty, _vl, _vr, l, r] =>
    match parseCol l, parseCol r with
    | some l, some r =>
      let bytesOf (v : Val) : List Nat := match v with | .bytes b => b | _ => []
      let render (f : List Nat → List Nat → Ordering) : String :=
        if l.isEmpty then "-" else
        "/".intercalate (l.map (fun a => if r.isEmpty then "-" else
          String.ofList (r.map (fun b => showOrd (f (bytesOf a.2) (bytesOf b.2))))))
      check (render cmpView) (render bytesCmp)
    | _, _ => "bad-op"
  | ["inlist", _ty, _kind, _var, c, l] =>
    match parseCol c, parseCol l with
    | some c, some l =>
      if c.length != l.length then "ERR:compute" else
      if c.isEmpty then "-" else
      String.ofList ((List.zip c l).map (fun p => if inListRow p.1.2 p.2.2 then '1' else '0'))
    | _, _ => "bad-op"
  | ["unsup", which, _ty, _c] =>
    -- documented errors: unsupported sort / rank types are ComputeError, nested kernels InvalidArgumentError
    if which = "kernel" then "ERR:invalid-arg" else "ERR:compute"
  | ["cmpty", tl, tr, _l, _r] =>
    -- `make_comparator` on arrays of different data types is an error, never a comparator
    if tl = tr then "bad-op" else "ERR:invalid-arg"
  | ["psort", lim, xs] =>
    match lim.toNat?, parseList parseInt xs with
    | some lim, some xs =>
      let out := partialSort insSorter (fun a b : Int => compare a b) lim xs
      showList toString (out.take lim)
    | _, _ => "bad-op"
  | _ => "bad-op"

end ArrowModel.C10
