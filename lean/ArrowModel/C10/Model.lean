import ArrowModel.C10.Spec
import ArrowModel.Generated.C10
/-
C10 — algorithm model: the Rust code of `arrow-cmp`, `arrow-ord::{sort,rank,partition,cmp}`
as written, as total computable functions.  `&mut` becomes a returned value, loops become
structural recursion.  `slice::sort_unstable_by` / `select_nth_unstable_by` are *parameters*
(`sortBy`), constrained in the theorems only by the std contract.
-/
namespace ArrowModel.C10
open ArrowModel.Generated.C10

/-! ### arrow-cmp: `child_opts`, `compare`, `compare_impl` -/

/-- `child_opts` (arrow-cmp/src/lib.rs) and the options built in `child_rank`
(arrow-ord/src/sort.rs): children are always compared ascending, with
`nulls_first != descending`. -/
def childOpts (o : SortOptions) : SortOptions :=
  { descending := false, nullsFirst := o.nullsFirst != o.descending }

/-- `compare_impl::<NULLS_FIRST, DESCENDING>` — `l`/`r` are the validity bitmaps
(`none` = the array has no nulls, `some v` with `v i = true` ⇔ slot `i` valid);
`cmp` compares two *value* slots by index. The four `match (l, r)` arms are kept. -/
def compareImpl (nullsFirst descending : Bool) (l r : Option (Nat → Bool))
    (cmp : Nat → Nat → Ordering) (i j : Nat) : Ordering :=
  let cmp' := fun i j => match descending with
    | true => (cmp i j).swap
    | false => cmp i j
  let leftNull := match nullsFirst with | true => Ordering.lt | false => Ordering.gt
  let rightNull := match nullsFirst with | true => Ordering.gt | false => Ordering.lt
  match l, r with
  | none, none => cmp' i j
  | some l, none => match !(l i) with
    | true => leftNull
    | false => cmp' i j
  | none, some r => match !(r j) with
    | true => rightNull
    | false => cmp' i j
  | some l, some r => match !(l i), !(r j) with
    | true, true => .eq
    | true, false => leftNull
    | false, true => rightNull
    | false, false => cmp' i j

/-- validity bitmap of a column as `compare` sees it:
`logical_nulls().filter(|x| x.null_count() > 0)` -/
def nullsOf {α : Type} (col : List (Option α)) : Option (Nat → Bool) :=
  if col.any Option.isNone then some (fun i => (col.getD i none).isSome) else none

/-- `compare(l, r, opts, cmp)`: the comparator `make_comparator` returns for two arrays whose
value slots are compared by `vcmp` (slots of null rows hold an arbitrary value `dflt`). -/
def compareArr {α : Type} (vcmp : α → α → Ordering) (dflt : α) (o : SortOptions)
    (l r : List (Option α)) (i j : Nat) : Ordering :=
  compareImpl o.nullsFirst o.descending (nullsOf l) (nullsOf r)
    (fun i j => vcmp ((l.getD i none).getD dflt) ((r.getD j none).getD dflt)) i j

/-- the loop shared by `compare_list`, `compare_fixed_list`, `compare_list_view`,
`compare_map`: compare the zipped children, first non-`Equal` wins, then the lengths -/
def listLoop {α : Type} (cmp : α → α → Ordering) (l r : List α) : Ordering :=
  match (List.zipWith cmp l r).find? (· != .eq) with
  | some o => o
  | none => compare l.length r.length

/-- `LexicographicalComparator::compare` / `FixedLexicographicalComparator::compare` /
the loop of `compare_struct`: the first comparator that is not `Equal` decides -/
def lexCompareModel {ι : Type} (cs : List (ι → ι → Ordering)) (i j : ι) : Ordering :=
  match (cs.map (fun c => c i j)).find? (· != .eq) with
  | some o => o
  | none => .eq

/-! ### float total order: `f64::total_cmp`, `f32::total_cmp`, `half::f16::total_cmp`
(`ArrowNativeTypeOp::compare` for floats, arrow-array/src/arithmetic.rs) -/

/-- `left ^= (((left >> (w-1)) as uN) >> 1) as iN` : arithmetic shift, then logical shift -/
def floatKey {w : Nat} (x : BitVec w) : BitVec w :=
  x ^^^ ((x.sshiftRight (w - 1)) >>> 1)

/-- `total_cmp`: signed comparison of the keys -/
def floatCmpBV {w : Nat} (a b : BitVec w) : Ordering :=
  if (floatKey a).slt (floatKey b) then .lt
  else if floatKey a = floatKey b then .eq else .gt

/-- `total_cmp` on bit patterns given as naturals (driver form) -/
def floatCmp (w a b : Nat) : Ordering := floatCmpBV (BitVec.ofNat w a) (BitVec.ofNat w b)

/-! ### byte strings: `sort_bytes` prefix comparator, view inline keys -/

/-- big-endian value of the first `n` bytes, zero padded on the right when shorter:
the `prefix` of `sort_bytes` (`u32::from_be(read_unaligned)` or the shift loop followed by
`v << (8 * (4 - len))`) for `n = 4`; the 96 data bits of `inline_key_fast` for `n = 12`. -/
def padBE : Nat → List Nat → Nat
  | 0, _ => 0
  | _ + 1, [] => 0
  | n + 1, b :: bs => b * 256 ^ n + padBE n bs

/-- `cmp_bytes` closure of `sort_bytes`: prefix, then (when one side is short) the lengths,
then the full slices.  `P` = prefix bytes, `S`/`S'` = the `la < 4 || lb < 4` thresholds. -/
def cmpBytesPrefixG (P S S' : Nat) (a b : List Nat) : Ordering :=
  match compare (padBE P a) (padBE P b) with
  | .eq =>
    if a.length < S ∨ b.length < S' then
      match compare a.length b.length with
      | .eq => bytesCmp a b
      | r => r
    else bytesCmp a b
  | r => r

/-- `cmp_bytes` with the constants found in the source -/
def cmpBytesPrefix (a b : List Nat) : Ordering :=
  cmpBytesPrefixG SORT_BYTES_PREFIX_LEN SORT_BYTES_SHORT_A SORT_BYTES_SHORT_B a b

/-- `GenericByteViewArray::inline_key_fast` of an inline value: 96 bits of data big-endian,
then the length in the low 32 bits -/
def inlineKey (bs : List Nat) : Nat :=
  padBE MAX_INLINE_VIEW_LEN bs * 2 ^ INLINE_KEY_SHIFT + bs.length

/-- `GenericByteViewArray::compare_unchecked` / `cmp_mixed` of `sort_byte_view` /
`ArrayOrd::is_lt` for views: both inline → inline keys; otherwise the 4-byte prefix
(`prefix.swap_bytes()`), then the full data -/
def cmpView (a b : List Nat) : Ordering :=
  if a.length ≤ VIEW_CMP_INLINE_L ∧ b.length ≤ VIEW_CMP_INLINE_R then
    compare (inlineKey a) (inlineKey b)
  else
    match compare (padBE 4 a) (padBE 4 b) with
    | .eq => bytesCmp a b
    | r => r

/-! ### sort: `partition_validity`, `sort_impl`, `sort_to_indices`, `lexsort_to_indices` -/

/-- `partition_validity`: (indices of valid slots with their values, indices of null slots),
both ascending -/
def partitionValidity {α : Type} (col : List (Option α)) : List (Nat × α) × List Nat :=
  ((List.range col.length).filterMap (fun i => (col.getD i none).map (fun v => (i, v))),
   (List.range col.length).filter (fun i => (col.getD i none).isNone))

/- the private `sort_unstable_by(array, limit, cmp)` + `partial_sort` of sort.rs is the
parameter `sortBy : PartialSorter` (`sortBy cmp limit xs`, see Spec: `SortContract`). -/

/-- `sort_impl(options, valids, nulls, limit, cmp)` -/
def sortImpl {α : Type} (sortBy : PartialSorter) (o : SortOptions) (valids : List (Nat × α))
    (nulls : List Nat) (limit : Option Nat) (cmp : α → α → Ordering) : List Nat :=
  let vLimit := match limit, o.nullsFirst with
    | some l, true => min (l - nulls.length) valids.length
    | _, _ => valids.length
  let sorted := match o.descending with
    | false => sortBy (fun (a b : Nat × α) => cmp a.2 b.2) vLimit valids
    | true => sortBy (fun (a b : Nat × α) => (cmp a.2 b.2).swap) vLimit valids
  let len := valids.length + nulls.length
  let limit := min (limit.getD len) len
  match o.nullsFirst with
  | true =>
    let out := nulls.take (min nulls.length limit)
    let remaining := limit - out.length
    out ++ (sorted.map (·.1)).take remaining
  | false =>
    let out := (sorted.map (·.1)).take limit
    let remaining := limit - out.length
    out ++ nulls.take remaining

/-- `sort_to_indices` for the types that go through `sort_impl` (primitive, boolean,
fixed-size binary; dictionary / list via ranks): early return on empty / `limit == 0` -/
def sortToIndices {α : Type} (sortBy : PartialSorter) (cmp : α → α → Ordering) (o : SortOptions)
    (col : List (Option α)) (limit : Option Nat) : List Nat :=
  if col.isEmpty ∨ limit = some 0 then [] else
  let (v, n) := partitionValidity col
  sortImpl sortBy o v n limit cmp

/-- `lexsort_to_indices`, multi-column path: `sort_unstable_by(&mut (0..row_count), len, lex)`
then `truncate(len)` (the top-k heap path returns the same prefix and is tied by the
correspondence run only) -/
def lexsortToIndices (sortBy : PartialSorter) (cs : List (Nat → Nat → Ordering))
    (rowCount : Nat) (limit : Option Nat) : List Nat :=
  let len := min (limit.getD rowCount) rowCount
  if len = 0 then [] else
  (sortBy (lexCompareModel cs) len (List.range rowCount)).take len

/-- `partial_sort(v, limit, cmp)` (public) with the std pieces as parameters -/
def partialSort {β : Type} (sortBy : PartialSorter) (cmp : β → β → Ordering) (limit : Nat)
    (v : List β) : List β :=
  match limit with
  | 0 => v
  | _ + 1 => sortBy cmp limit v

/-! ### rank: `rank_impl`, `boolean_rank` -/

/-- the `for w in valid.windows(2).rev()` loop of `rank_impl`, walking the sorted valid
entries from the back: `w1` is the value after the current one. State: `(valid_rank, count, out)`. -/
def rankLoop {α : Type} (eq : α → α → Bool) :
    List (α × Nat) → α → Nat → Nat → List Nat → List Nat
  | [], _, _, _, out => out
  | w0 :: rest, w1, validRank, count, out =>
    match eq w0.1 w1 with
    | true => rankLoop eq rest w0.1 validRank (count + 1) (out.set w0.2 validRank)
    | false => rankLoop eq rest w0.1 (validRank - count) 1 (out.set w0.2 (validRank - count))

/-- `rank_impl(len, valid, options, compare, eq)`; `sortFull` is `sort_unstable_by` -/
def rankImpl {α : Type} (sortFull : ((α × Nat) → (α × Nat) → Ordering) → List (α × Nat) → List (α × Nat))
    (len : Nat) (valid : List (α × Nat)) (o : SortOptions)
    (compare : α → α → Ordering) (eq : α → α → Bool) : List Nat :=
  let sorted := sortFull (fun a b => compare a.1 b.1) valid
  let sorted := if o.descending then sorted.reverse else sorted
  let validRank := match o.nullsFirst with | true => len | false => sorted.length
  let nullRank := match o.nullsFirst with | true => len - sorted.length | false => len
  let out := List.replicate len nullRank
  match sorted.reverse with
  | [] => out
  | last :: rest => rankLoop eq rest last.1 validRank 1 (out.set last.2 validRank)

/-- `rank(array, options)` for a column: valid entries `(value, index)` in index order -/
def rankCol {α : Type} (sortFull : ((α × Nat) → (α × Nat) → Ordering) → List (α × Nat) → List (α × Nat))
    (cmp : α → α → Ordering) (o : SortOptions) (col : List (Option α)) : List Nat :=
  let valid := (List.range col.length).filterMap (fun i => (col.getD i none).map (fun v => (v, i)))
  rankImpl sortFull col.length valid o cmp (fun a b => cmp a b == .eq)

/-- `boolean_rank`: the `ranks_index` table and `get_boolean_rank_index` -/
def booleanRank (o : SortOptions) (col : List (Option Bool)) : List Nat :=
  let nullCount := (col.filter Option.isNone).length
  let trueCount := (col.filter (· == some true)).length
  let falseCount := col.length - nullCount - trueCount
  let ranksIndex : List Nat := match o.descending, o.nullsFirst with
    | true, true => [nullCount + trueCount + falseCount, nullCount + trueCount, nullCount]
    | true, false => [trueCount + falseCount, trueCount, trueCount + falseCount + nullCount]
    | false, true => [nullCount + falseCount, nullCount + falseCount + trueCount, nullCount]
    | false, false => [falseCount, falseCount + trueCount, falseCount + trueCount + nullCount]
  col.map (fun s => match s with
    | none => ranksIndex.getD 2 0
    | some true => ranksIndex.getD 1 0
    | some false => ranksIndex.getD 0 0)

/-! ### partition: `find_boundaries`, `partition`, `Partitions::ranges` -/

/-- `find_boundaries` for one column: `distinct(v[0..n-1], v[1..n])`, or for nested types
`!cmp(i, i).is_eq()` on the two slices — bit `i` compares rows `i` and `i + 1` -/
def findBoundaries (rc : Nat → Nat → Ordering) (len : Nat) : List Bool :=
  (List.range (len - 1)).map (fun i => rc i (i + 1) != .eq)

/-- `partition`: OR of the per-column boundary masks (`None` for zero rows) -/
def partitionBounds (cols : List (Nat → Nat → Ordering)) (len : Nat) : List Bool :=
  match cols with
  | [] => []
  | c :: cs => cs.foldl (fun acc c => List.zipWith (· || ·) acc (findBoundaries c len))
      (findBoundaries c len)

/-- `Partitions::ranges`: walk the set bits; `current` is the start of the open range -/
def rangesLoop : List Nat → Nat → List (Nat × Nat) → Nat × List (Nat × Nat)
  | [], current, out => (current, out)
  | idx :: rest, current, out => rangesLoop rest (idx + 1) (out ++ [(current, idx + 1)])

/-- `BooleanBuffer::set_indices`: positions of the set bits, ascending (the iterator itself is
C19's subject) -/
def setIndicesFrom : Nat → List Bool → List Nat
  | _, [] => []
  | p, true :: bs => p :: setIndicesFrom (p + 1) bs
  | p, false :: bs => setIndicesFrom (p + 1) bs

def setIndices (bs : List Bool) : List Nat := setIndicesFrom 0 bs

def partitionRanges (bounds : List Bool) (len : Nat) : List (Nat × Nat) :=
  if len = 0 then [] else
  let (current, out) := rangesLoop (setIndices bounds) 0 []
  let last := bounds.length + 1
  if current != last then out ++ [(current, last)] else out

/-! ### comparison kernels: `compare_op`, `apply` -/

/-- `apply` + `ArrayOrd::{is_eq,is_lt}`: every operator is built from `is_eq` / `is_lt`
and a negation flag, `<=`/`>` with the operands swapped -/
def applyOp (isEq isLt : α → α → Bool) (op : CmpOp) (l r : α) : Bool :=
  match op with
  | .eq | .notDistinct => isEq l r
  | .neq | .distinct => !(isEq l r)
  | .lt => isLt l r
  | .le => !(isLt r l)
  | .gt => isLt r l
  | .ge => !(isLt l r)

/-- one row of `compare_op`: `lv`/`rv` validity bits, `v` the bit computed by `apply`
(arbitrary on null rows).  `distinct`: `(l ^ r) | (l & r & ne)`; `not_distinct`:
`!(l | r) | (l & r & e)`; the others: value bit under `NullBuffer::union` -/
def compareOpRow (op : CmpOp) (lv rv v : Bool) : Option Bool :=
  match op with
  | .distinct => some ((lv ^^ rv) || (lv && rv && v))
  | .notDistinct => some (!(lv || rv) || (lv && rv && v))
  | _ => if lv && rv then some v else none

/-- `compare_op` per row, on optional values -/
def compareOp {α : Type} (isEq isLt : α → α → Bool) (dflt : α) (op : CmpOp)
    (a b : Option α) : Option Bool :=
  compareOpRow op a.isSome b.isSome (applyOp isEq isLt op (a.getD dflt) (b.getD dflt))

/-! ### typed values for the driver: the comparator `make_comparator` builds, per type -/

/-- a logical value of any supported type -/
inductive Val
  | null
  | int (i : Int)                 -- all integer-backed primitives, booleans, decimals
  | tup (is : List Int)           -- IntervalDayTime / IntervalMonthDayNano (derived `Ord`)
  | flt (w : Nat) (bits : Nat)    -- f16/f32/f64 bit pattern
  | bytes (bs : List Nat)         -- utf8 / binary / views / fixed size binary
  | list (vs : List Val)          -- list / large list / fixed size list / list view
  | struct (vs : List Val)
  | union (tid : Int) (v : Val)   -- union slot with a valid child (a null child makes the slot null)
deriving Repr, BEq, Inhabited

mutual
/-- the comparator built by `make_comparator(l, r, o)` applied to two slots, null rule of
`compare_impl` at every level, children compared with `child_opts` -/
def cmpVal (o : SortOptions) : Val → Val → Ordering
  | .null, .null => .eq
  | .null, _ => if o.nullsFirst then .lt else .gt
  | _, .null => if o.nullsFirst then .gt else .lt
  | .int a, .int b => applyDesc o.descending (compare a b)
  | .tup a, .tup b => applyDesc o.descending (lexList (fun x y : Int => compare x y) a b)
  | .flt w a, .flt _ b => applyDesc o.descending (floatCmp w a b)
  | .bytes a, .bytes b => applyDesc o.descending (bytesCmp a b)
  | .list a, .list b => applyDesc o.descending (cmpVals (childOpts o) a b)
  | .struct a, .struct b => applyDesc o.descending (cmpVals (childOpts o) a b)
  | .union t a, .union s b =>   -- `compare_union`: type ids first, then the child comparator
    applyDesc o.descending (match compare t s with
      | .eq => cmpVal (childOpts o) a b
      | r => r)
  | _, _ => .eq
/-- element loop of `compare_list` / `compare_struct` (zip, then lengths) -/
def cmpVals (o : SortOptions) : List Val → List Val → Ordering
  | [], [] => .eq
  | [], _ :: _ => .lt
  | _ :: _, [] => .gt
  | a :: as, b :: bs =>
    match cmpVal o a b with
    | .eq => cmpVals o as bs
    | r => r
end

/-- comparison of two *valid* values under parent options `o` before the parent's
`descending` reversal -/
def valueCmp (o : SortOptions) (a b : Val) : Ordering := cmpVal (childOpts o) a b

def Val.toOpt : Val → Option Val
  | .null => none
  | v => some v

/-! ### `in_list` / `in_list_utf8` (arrow-ord/src/comparison.rs) and native comparisons -/

/-- IEEE `==` on bit patterns of a `w`-bit float (what `f32/f64/f16: PartialEq` is):
NaN is unequal to everything, `+0 == -0`. -/
def ieeeEq (w a b : Nat) : Bool :=
  let m := if w = 16 then 10 else if w = 32 then 23 else 52
  let e := w - 1 - m
  let isNaN := fun x : Nat => (x / 2 ^ m) % 2 ^ e == 2 ^ e - 1 && x % 2 ^ m != 0
  let isZero := fun x : Nat => x % 2 ^ (w - 1) == 0
  !isNaN a && !isNaN b && (a == b || (isZero a && isZero b))

/-- the `==` of the native type used by `in_list` (`left.value(i) == list.value(j)`) -/
def nativeEq : Val → Val → Bool
  | .flt w a, .flt _ b => ieeeEq w a b
  | a, b => a == b

/-- one row of `in_list`: both slots valid and some valid list element `==` the value;
never null, false when either side is null -/
def inListRow (x l : Val) : Bool :=
  match x, l with
  | .null, _ => false
  | _, .list es => es.any (fun e => match e with
    | .null => false
    | e => nativeEq x e)
  | _, _ => false

/-- `ArrowNativeTypeOp::{compare,is_eq,is_ne,is_lt,is_le,is_gt,is_ge}` from the verdict:
the default methods are `compare(rhs).is_xx()`, `is_ne = !is_eq` -/
def nativeOps (o : Ordering) : List Bool :=
  [o == .eq, !(o == .eq), o == .lt, o != .gt, o == .gt, o != .lt]

/-! ### a concrete sort for the driver (any function meeting the contract would do) -/

def insertBy {β : Type} (cmp : β → β → Ordering) (x : β) : List β → List β
  | [] => [x]
  | y :: ys => if cmp x y != .gt then x :: y :: ys else y :: insertBy cmp x ys

def insSort {β : Type} (cmp : β → β → Ordering) : List β → List β
  | [] => []
  | x :: xs => insertBy cmp x (insSort cmp xs)

/-- the sorter the driver plugs in: full insertion sort (ignores the limit) -/
def insSorter : PartialSorter := fun cmp _ xs => insSort cmp xs

end ArrowModel.C10
