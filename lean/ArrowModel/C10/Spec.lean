/-
C10 — specification: one total order for comparator, sort, rank, partition and the
comparison kernels.

A column is a `List (Option α)` (`none` = null slot); `α` carries a three-way comparison
`cmp : α → α → Ordering` that is a total order (`TotalCmp`).  Everything below is the naive
definition the property statement appeals to; nothing here mirrors Rust code.
-/
namespace ArrowModel.C10

/-- `arrow_schema::SortOptions` -/
structure SortOptions where
  descending : Bool
  nullsFirst : Bool
deriving Repr, DecidableEq

/-- `a ≤ b` under a three-way comparison -/
abbrev leC {α : Type} (cmp : α → α → Ordering) (a b : α) : Prop := cmp a b ≠ .gt

/-- A three-way comparison that is a **total preorder**: reflexive, the two argument orders
agree (`swap`, which gives totality: `a ≤ b ∨ b ≤ a`), transitive. -/
structure TotalPreCmp {α : Type} (cmp : α → α → Ordering) : Prop where
  refl : ∀ a, cmp a a = .eq
  swap : ∀ a b, cmp b a = (cmp a b).swap
  trans : ∀ a b c, cmp a b ≠ .gt → cmp b c ≠ .gt → cmp a c ≠ .gt

/-- A **total order**: a total preorder whose `.eq` verdict means equality of the values
(consistency with logical equality). -/
structure TotalCmp {α : Type} (cmp : α → α → Ordering) : Prop extends TotalPreCmp cmp where
  eq_imp : ∀ a b, cmp a b = .eq → a = b

/-- reverse the verdict when sorting descending -/
def applyDesc (d : Bool) (o : Ordering) : Ordering := if d then o.swap else o

/-- **The slot order.**  Nulls are all equal to each other; a null is before every value
when `nullsFirst`, after every value otherwise — *independently of `descending`*; two values
compare by `cmp`, reversed when `descending`. -/
def compareSlot {α : Type} (cmp : α → α → Ordering) (o : SortOptions) :
    Option α → Option α → Ordering
  | none, none => .eq
  | none, some _ => if o.nullsFirst then .lt else .gt
  | some _, none => if o.nullsFirst then .gt else .lt
  | some a, some b => applyDesc o.descending (cmp a b)

/-- lexicographic order on lists: first differing element decides, a proper prefix is less -/
def lexList {α : Type} (cmp : α → α → Ordering) : List α → List α → Ordering
  | [], [] => .eq
  | [], _ :: _ => .lt
  | _ :: _, [] => .gt
  | a :: as, b :: bs =>
    match cmp a b with
    | .eq => lexList cmp as bs
    | r => r

/-- lexicographic combination of per-column row comparators (tuple order) -/
def lexCmp {ι : Type} : List (ι → ι → Ordering) → ι → ι → Ordering
  | [], _, _ => .eq
  | c :: cs, i, j =>
    match c i j with
    | .eq => lexCmp cs i j
    | r => r

/-- `xs` is non-decreasing under `cmp` -/
def sortedBy {α : Type} (cmp : α → α → Ordering) (xs : List α) : Prop :=
  xs.Pairwise (fun a b => cmp a b ≠ .gt)

/-- `ys` is a rearrangement of `xs` -/
def isPerm {α : Type} (xs ys : List α) : Prop := xs.Perm ys

/-- `out` is **the first `k` elements of a sorted permutation** of `univ`, stated without
naming the permutation: `out` has length `k`, is sorted, together with some `rest` it is a
rearrangement of `univ`, and nothing in `rest` is strictly before anything in `out`. -/
def isSortedPrefix {α : Type} (cmp : α → α → Ordering) (univ out : List α) (k : Nat) : Prop :=
  out.length = k ∧ sortedBy cmp out ∧
    ∃ rest, isPerm (out ++ rest) univ ∧ ∀ a ∈ out, ∀ b ∈ rest, cmp a b ≠ .gt

/-- comparator on row indices induced by a column and its options -/
def rowCmp {α : Type} (cmp : α → α → Ordering) (o : SortOptions) (col : List (Option α))
    (i j : Nat) : Ordering :=
  compareSlot cmp o (col.getD i none) (col.getD j none)

/-- **rank** as documented: the 1-based position of the last element equal to row `i` in the
sorted order = the number of rows that are `≤` row `i` (ties share the highest rank). -/
def rankSpec (rc : Nat → Nat → Ordering) (len : Nat) : List Nat :=
  (List.range len).map (fun i => ((List.range len).filter (fun j => rc j i != .gt)).length)

/-- **partition boundaries**: bit `i` (for `i + 1 < len`) is set iff rows `i` and `i+1`
differ under the tuple comparator. -/
def boundarySpec (rc : Nat → Nat → Ordering) (len : Nat) : List Bool :=
  (List.range (len - 1)).map (fun i => rc i (i + 1) != .eq)

/-- ranges `[start, end)` of maximal runs of equal consecutive rows -/
def rangesSpecGo : List Bool → Nat → Nat → List (Nat × Nat)
  | [], start, pos => [(start, pos + 1)]
  | true :: bs, start, pos => (start, pos + 1) :: rangesSpecGo bs (pos + 1) (pos + 1)
  | false :: bs, start, pos => rangesSpecGo bs start (pos + 1)

def rangesSpec (bounds : List Bool) (len : Nat) : List (Nat × Nat) :=
  if len = 0 then [] else rangesSpecGo bounds 0 0

/-! ### the std sorting contract (assumption) -/

/-- shape of the private `sort_unstable_by(array, limit, cmp)` of arrow-ord/src/sort.rs:
`sortBy cmp limit xs` -/
abbrev PartialSorter := {β : Type} → (β → β → Ordering) → Nat → List β → List β

/-- **Assumed contract of `slice::sort_unstable_by` / `select_nth_unstable_by`** (std), as used
by `sort_unstable_by(array, limit, cmp)` = full sort when `limit == len`, otherwise
`select_nth_unstable_by(limit - 1)` followed by a sort of the part before: for every total
preorder `c` and `k ≤ len` the result is a rearrangement whose first `k` elements are sorted
and are `≤` every later element. -/
structure SortContract (sortBy : PartialSorter) : Prop where
  perm : ∀ {β : Type} (c : β → β → Ordering) (k : Nat) (xs : List β),
    TotalPreCmp c → k ≤ xs.length → (sortBy c k xs).Perm xs
  sorted : ∀ {β : Type} (c : β → β → Ordering) (k : Nat) (xs : List β),
    TotalPreCmp c → k ≤ xs.length → ((sortBy c k xs).take k).Pairwise (fun a b => c a b ≠ .gt)
  le_rest : ∀ {β : Type} (c : β → β → Ordering) (k : Nat) (xs : List β),
    TotalPreCmp c → k ≤ xs.length →
    ∀ a ∈ (sortBy c k xs).take k, ∀ b ∈ (sortBy c k xs).drop k, c a b ≠ .gt

/-- comparison kernels -/
inductive CmpOp | eq | neq | lt | le | gt | ge | distinct | notDistinct
deriving DecidableEq, Repr

/-- verdict of a kernel on an `Ordering` (ascending, on two valid values) -/
def CmpOp.onOrd : CmpOp → Ordering → Bool
  | .eq, o => o == .eq
  | .neq, o => o != .eq
  | .lt, o => o == .lt
  | .le, o => o != .gt
  | .gt, o => o == .gt
  | .ge, o => o != .lt
  | .distinct, o => o != .eq
  | .notDistinct, o => o == .eq

/-- **Kernel semantics as documented**: `eq … gt_eq` yield null when either side is null and
otherwise the comparator's verdict; `distinct`/`not_distinct` never yield null and treat
null as equal to null and different from every value — i.e. they are exactly
`compareSlot … ≠ .eq` / `= .eq`. -/
def kernelSpec {α : Type} (cmp : α → α → Ordering) (op : CmpOp) (a b : Option α) : Option Bool :=
  match op with
  | .distinct => some (compareSlot cmp ⟨false, true⟩ a b != .eq)
  | .notDistinct => some (compareSlot cmp ⟨false, true⟩ a b == .eq)
  | op =>
    match a, b with
    | some x, some y => some (op.onOrd (cmp x y))
    | _, _ => none

/-! ### IEEE-754 totalOrder on bit patterns -/

/-- `totalOrder(a, b)` (IEEE 754-2008 §5.10) on the bit patterns of a `w`-bit binary float:
negative (sign bit set) before positive; among positives larger magnitude bits are larger;
among negatives larger magnitude bits are smaller.  Hence
`-NaN < -inf < … < -0 < +0 < … < +inf < +NaN`, NaNs ordered by payload. -/
def floatTotalLe (w : Nat) (a b : Nat) : Bool :=
  let sa := a.testBit (w - 1)
  let sb := b.testBit (w - 1)
  let ma := a % 2 ^ (w - 1)
  let mb := b % 2 ^ (w - 1)
  match sa, sb with
  | true, false => true
  | false, true => false
  | false, false => decide (ma ≤ mb)
  | true, true => decide (mb ≤ ma)

/-- three-way form of `totalOrder` -/
def floatTotalCmp (w : Nat) (a b : Nat) : Ordering :=
  if floatTotalLe w a b then (if floatTotalLe w b a then .eq else .lt) else .gt

/-- lexicographic order of byte strings (what `<[u8] as Ord>::cmp` is) -/
def bytesCmp (a b : List Nat) : Ordering := lexList (fun x y : Nat => compare x y) a b

end ArrowModel.C10
