import ArrowModel.C10.Lemmas
/-
C10 — property theorems.  "For every supported type and every choice of ascending/descending
and nulls-first/last, the slot comparator is a total preorder consistent with equality,
sorting returns (the first k elements of) a permutation of the indices that is non-decreasing
under that comparator, lexicographic sort does so for the tuple order, rank and partition
boundaries are those induced by the comparator, and the comparison kernels return per row
what the comparator says, with null handling as documented.  Floats are ordered by IEEE-754
totalOrder."

All statements quantify over every column, every value, all four option combinations and
every limit.  `slice::sort_unstable_by` / `select_nth_unstable_by` enter only through
`SortContract` (Spec.lean).
-/
namespace ArrowModel.C10
open ArrowModel.Generated.C10

/-! ## (1) the slot comparator -/

/-- **`compare_impl` is the documented slot order.**  For every column pair, every option
combination and every in-range `i`, `j`, the comparator built by `compare(l, r, opts, cmp)`
(all four `(l.nulls, r.nulls)` arms, null buffers dropped when `null_count == 0`) returns
exactly `compareSlot`: null = null, null before/after every value according to `nulls_first`
*only* (not affected by `descending`), values by `cmp`, reversed when `descending`. -/
theorem make_comparator_is_compareSlot {α : Type} (vcmp : α → α → Ordering) (dflt : α)
    (o : SortOptions) (l r : List (Option α)) (i j : Nat) (hi : i < l.length) (hj : j < r.length) :
    compareArr vcmp dflt o l r i j = compareSlot vcmp o (l.getD i none) (r.getD j none) :=
  compareArr_eq_spec vcmp dflt o l r i j hi hj

example : (2 : Nat) < [some 1, none, some 3].length := by decide

/-- **The slot order is a total order on `Option α`** for each of the four option
combinations: reflexive, `cmp b a` is the reverse of `cmp a b` (hence total), transitive,
and `.eq` holds only for equal slots. -/
theorem compareSlot_total_order {α : Type} {cmp : α → α → Ordering} (h : TotalCmp cmp)
    (o : SortOptions) : TotalCmp (compareSlot cmp o) := compareSlot_totalCmp h o

/-- `.eq` ⇔ the two slots are logically equal (both null, or equal values). -/
theorem compareSlot_eq_iff {α : Type} {cmp : α → α → Ordering} (h : TotalCmp cmp)
    (o : SortOptions) (a b : Option α) : compareSlot cmp o a b = .eq ↔ a = b :=
  (compareSlot_totalCmp h o).eq_iff a b

example : TotalCmp (fun x y : Int => compare x y) := intCmp_totalCmp

/-- **Row comparator of a column** (what sort / rank / partition consume) is a total
preorder on row indices. -/
theorem rowCmp_total_preorder {α : Type} {cmp : α → α → Ordering} (h : TotalCmp cmp)
    (o : SortOptions) (col : List (Option α)) : TotalPreCmp (rowCmp cmp o col) :=
  rowCmp_totalPreCmp h o col

/-- **Nested types** (`compare_list`, `compare_fixed_list`, `compare_list_view`, `compare_map`):
the element loop "first non-equal child, then the lengths" is the lexicographic order, and
with children compared under `child_opts` it is again a total order, so the construction
composes to any nesting depth. -/
theorem nested_list_total_order {α : Type} {cmp : α → α → Ordering} (h : TotalCmp cmp)
    (o : SortOptions) : TotalCmp (listLoop (compareSlot cmp (childOpts o))) := by
  have : listLoop (compareSlot cmp (childOpts o)) = lexList (compareSlot cmp (childOpts o)) := by
    funext l r; exact listLoop_eq _ l r
  rw [this]; exact lexList_totalCmp (compareSlot_totalCmp h (childOpts o))

/-- **`child_opts` keeps nested nulls where the parent's `nulls_first` says**: after the
parent's `descending` reversal, a null child is before a valid child iff `nulls_first`. -/
theorem child_nulls_follow_parent {α : Type} (cmp : α → α → Ordering) (o : SortOptions) (x : α) :
    applyDesc o.descending (compareSlot cmp (childOpts o) none (some x))
      = (if o.nullsFirst then .lt else .gt) := by
  cases hd : o.descending <;> cases hn : o.nullsFirst <;>
    simp [applyDesc, compareSlot, childOpts, hd, hn, Ordering.swap]

/-- **Tuple order** (`LexicographicalComparator`, `FixedLexicographicalComparator`,
`compare_struct`): the loop is the lexicographic combination, a total preorder on rows. -/
theorem lexicographic_comparator_total_preorder {ι : Type} (cs : List (ι → ι → Ordering))
    (h : ∀ c ∈ cs, TotalPreCmp c) :
    (∀ i j, lexCompareModel cs i j = lexCmp cs i j) ∧ TotalPreCmp (lexCmp cs) :=
  ⟨lexCompareModel_eq cs, lexCmp_totalPreCmp cs h⟩

/-! ## (2) floats: IEEE-754 totalOrder -/

/-- **f64**: `total_cmp` (key `x ^ (((x >> 63) as u64) >> 1)`, signed compare) is IEEE-754
totalOrder on all 2^64 bit patterns (every NaN payload of both signs, ±0, ±inf, subnormals).
Uses `bv_decide`. -/
theorem float64_total_cmp_is_totalOrder (a b : BitVec 64) :
    floatCmpBV a b = floatTotalCmp 64 a.toNat b.toNat :=
  floatCmpBV_eq_spec (by decide) floatKey64_sle a b

/-- **f32** -/
theorem float32_total_cmp_is_totalOrder (a b : BitVec 32) :
    floatCmpBV a b = floatTotalCmp 32 a.toNat b.toNat :=
  floatCmpBV_eq_spec (by decide) floatKey32_sle a b

/-- **f16** (`half::f16::total_cmp`) -/
theorem float16_total_cmp_is_totalOrder (a b : BitVec 16) :
    floatCmpBV a b = floatTotalCmp 16 a.toNat b.toNat :=
  floatCmpBV_eq_spec (by decide) floatKey16_sle a b

/-- the float comparison is a total order on bit patterns (`.eq` ⇔ same bits, which is what
`is_eq` = `to_bits() == to_bits()` uses) -/
theorem float_total_cmp_total_order :
    TotalCmp (floatCmpBV (w := 64)) ∧ TotalCmp (floatCmpBV (w := 32)) ∧ TotalCmp (floatCmpBV (w := 16)) :=
  ⟨floatCmpBV_totalCmp floatKey64_inj, floatCmpBV_totalCmp floatKey32_inj, floatCmpBV_totalCmp floatKey16_inj⟩

/-- −NaN < −0 < +0 < +NaN under the model (f32) -/
example : floatCmp 32 0xFFC00000 0x80000000 = .lt ∧ floatCmp 32 0x80000000 0 = .lt ∧
    floatCmp 32 0 0x7FC00000 = .lt := by decide

/-! ## (3) byte strings -/

/-- **`sort_bytes` comparator** (4-byte big-endian prefix, length shortcut when a side is
shorter than 4, full compare) **is the lexicographic byte order**, with the constants read
from the source (`SORT_BYTES_PREFIX_LEN`, `SORT_BYTES_SHORT_A/B`). -/
theorem sort_bytes_comparator_is_lexicographic (a b : List Nat) (ha : isBytes a) (hb : isBytes b) :
    cmpBytesPrefix a b = bytesCmp a b := cmpBytesPrefix_eq a b ha hb

/-- the same for any prefix length `P` and thresholds `S, S' ≤ P + 1` (a retune within this
range is harmless; `la < 6` with a 4-byte prefix is not). -/
theorem sort_bytes_comparator_general (P S S' : Nat) (hS : S ≤ P + 1) (hS' : S' ≤ P + 1)
    (a b : List Nat) (ha : isBytes a) (hb : isBytes b) :
    cmpBytesPrefixG P S S' a b = bytesCmp a b := cmpBytesPrefixG_eq P S S' hS hS' a b ha hb

/-- **View arrays**: `inline_key_fast` (12 data bytes big-endian, then the length) orders
inline values lexicographically, and `compare_unchecked` / `cmp_mixed` / `is_lt`
(inline keys, else 4-byte prefix, else full data) is the lexicographic order. -/
theorem view_comparator_is_lexicographic (a b : List Nat) (ha : isBytes a) (hb : isBytes b) :
    cmpView a b = bytesCmp a b := cmpView_eq a b ha hb

theorem inline_key_order (a b : List Nat) (ha : isBytes a) (hb : isBytes b)
    (la : a.length ≤ MAX_INLINE_VIEW_LEN) (lb : b.length ≤ MAX_INLINE_VIEW_LEN) :
    compare (inlineKey a) (inlineKey b) = bytesCmp a b := inlineKey_cmp a b ha hb la lb

/-- the lexicographic byte order is a total order -/
theorem bytes_total_order : TotalCmp bytesCmp := bytesCmp_totalCmp

example : isBytes [1, 0, 0, 0, 5] := by intro x hx; simp at hx; omega

/-! ## (4) sort -/

/-- **`sort_to_indices`** (`partition_validity` + `sort_impl`): for every column, options and
limit the result is the first `min(limit, len)` elements of a permutation of `0..len` sorted
under the slot comparator — it has that length, is non-decreasing, is duplicate-free and in
range (together with a `rest` it is a rearrangement of `0..len`), and no omitted row is
strictly before an included one. Under the std sorting contract. -/
theorem sort_to_indices_sorted_prefix {α : Type} (sortBy : PartialSorter) (hs : SortContract sortBy)
    (cmp : α → α → Ordering) (hc : TotalPreCmp cmp) (o : SortOptions)
    (col : List (Option α)) (limit : Option Nat) :
    isSortedPrefix (rowCmp cmp o col) (List.range col.length)
      (sortToIndices sortBy cmp o col limit) (min (limit.getD col.length) col.length) :=
  sortToIndices_ok sortBy hs cmp hc o col limit

/-- **`lexsort_to_indices`** (multi-column path): the same for the tuple comparator. -/
theorem lexsort_to_indices_sorted_prefix (sortBy : PartialSorter) (hs : SortContract sortBy)
    (cs : List (Nat → Nat → Ordering)) (hcs : ∀ c ∈ cs, TotalPreCmp c)
    (rowCount : Nat) (limit : Option Nat) :
    isSortedPrefix (lexCmp cs) (List.range rowCount)
      (lexsortToIndices sortBy cs rowCount limit) (min (limit.getD rowCount) rowCount) :=
  lexsortToIndices_ok sortBy hs cs hcs rowCount limit

/-- **The sorting contract is satisfiable** (core `List.mergeSort` meets it), so the sort
theorems are not vacuous. -/
theorem sort_contract_satisfiable : SortContract mergeSorter := mergeSorter_contract

/-- the model on a concrete column (descending, nulls last, limit 4), with the driver's sorter -/
example : sortToIndices insSorter (fun x y : Int => compare x y) ⟨true, false⟩
    [some 5, none, some 1, some 5, none, some (-2)] (some 4) = [0, 3, 2, 5] := by decide

/-! ## (5) rank and partition -/

/-- **`rank`** (`rank_impl`: sort the valid entries, reverse when descending, walk them from the
back with `valid_rank`/`count`, nulls get `null_rank`): for every column and option
combination the result is, for each row, the number of rows that are `≤` it under the slot
comparator — i.e. ties share the highest rank, nulls rank first/last as `nulls_first` says.
Under the std sorting contract. -/
theorem rank_is_comparator_rank {α : Type} (sortBy : PartialSorter) (hs : SortContract sortBy)
    (cmp : α → α → Ordering) (hc : TotalPreCmp cmp) (o : SortOptions) (col : List (Option α)) :
    rankCol (fun c xs => sortBy c xs.length xs) cmp o col = rankSpec (rowCmp cmp o col) col.length :=
  rankCol_eq_spec sortBy hs cmp hc o col

/-- the doc example of `rank`: `["foo", null, "foo", null, "bar"]` → `[5, 2, 5, 2, 3]` -/
example : rankCol (fun c xs => insSort c xs) bytesCmp ⟨false, true⟩
    [some [102, 111, 111], none, some [102, 111, 111], none, some [98, 97, 114]] = [5, 2, 5, 2, 3] := by
  decide

/-- **`partition` boundaries** (`find_boundaries` per column, OR-ed): bit `i` is set exactly
when rows `i` and `i+1` differ under the tuple comparator of the columns. -/
theorem partition_boundaries_are_comparator_changes (cs : List (Nat → Nat → Ordering))
    (hcs : cs ≠ []) (len : Nat) :
    partitionBounds cs len = boundarySpec (lexCmp cs) len := partitionBounds_eq cs hcs len

/-- **`Partitions::ranges`** (walk over the set bits, trailing range) yields the maximal runs
of rows without a boundary between them, for every mask. -/
theorem partition_ranges_are_runs (bounds : List Bool) (len : Nat) :
    partitionRanges bounds len = rangesSpec bounds len := partitionRanges_eq bounds len

example : partitionRanges [false, true, false, false, true] 6 = [(0, 2), (2, 5), (5, 6)] := by decide

/-! ## (6) comparison kernels -/

/-- **`compare_op`**: with `is_eq`/`is_lt` induced by the comparator, every kernel returns
per row the comparator's verdict; `eq…gt_eq` are null iff a side is null; `distinct` /
`not_distinct` are never null and equal `compareSlot ≠ .eq` / `= .eq` (null = null). Covers
the operand swap + negation encodings of `<=`, `>`, `>=` and the three bit formulas. -/
theorem compare_op_is_comparator_verdict {α : Type} (cmp : α → α → Ordering) (h : TotalPreCmp cmp)
    (dflt : α) (op : CmpOp) (a b : Option α) :
    compareOp (fun x y => cmp x y == .eq) (fun x y => cmp x y == .lt) dflt op a b
      = kernelSpec cmp op a b := compareOp_eq_spec cmp h dflt op a b


/-! ## tie to the source: shapes of the critical expressions -/

/-- **Every source fragment the model mirrors is still present verbatim** (modulo white space):
`child_opts` / `child_rank` option derivation, the `compare_impl` arms, `sort_impl`'s `v_limit`
and assembly, `partial_sort`, the top-k heap, `rank_impl`'s loop, `partition`'s boundary
construction and `ranges`, the three `distinct` bit formulas, the operator table of `apply`,
`eq_inline_scalar`'s mask, `inline_key_fast`, the float `compare`/`is_eq`.  An edit of any of
them makes the corresponding `*_lost` flag true and this theorem fail, so the change must be
re-modelled rather than silently accepted. -/
theorem source_shape_ties :
    SORT_BYTES_PREFIX_LEN_lost = false ∧
    SORT_BYTES_PAD_TO_lost = false ∧
    SORT_BYTES_SHORT_A_lost = false ∧
    SORT_BYTES_SHORT_B_lost = false ∧
    MAX_INLINE_VIEW_LEN_lost = false ∧
    INLINE_KEY_SHIFT_lost = false ∧
    VIEW_CMP_INLINE_L_lost = false ∧
    VIEW_CMP_INLINE_R_lost = false ∧
    VIEW_LT_INLINE_L_lost = false ∧
    VIEW_LT_INLINE_R_lost = false ∧
    SHAPE_CHILD_OPTS_lost = false ∧
    SHAPE_CHILD_RANK_lost = false ∧
    SHAPE_COMPARE_DISPATCH_lost = false ∧
    SHAPE_COMPARE_NULL_FILTER_lost = false ∧
    SHAPE_COMPARE_IMPL_DESC_lost = false ∧
    SHAPE_COMPARE_IMPL_NULLS_lost = false ∧
    SHAPE_COMPARE_IMPL_ARMS_lost = false ∧
    SHAPE_LIST_LOOP_lost = false ∧
    SHAPE_FLOAT_COMPARE_lost = false ∧
    SHAPE_FLOAT_IS_EQ_lost = false ∧
    SHAPE_INT_COMPARE_lost = false ∧
    SHAPE_SORT_BYTES_CMP_lost = false ∧
    SHAPE_SORT_BYTES_PREFIX_lost = false ∧
    SHAPE_SORT_IMPL_VLIMIT_lost = false ∧
    SHAPE_SORT_IMPL_DESC_lost = false ∧
    SHAPE_SORT_IMPL_ASSEMBLY_lost = false ∧
    SHAPE_SORT_UNSTABLE_BY_lost = false ∧
    SHAPE_PARTIAL_SORT_lost = false ∧
    SHAPE_LEXSORT_HEAP_GUARD_lost = false ∧
    SHAPE_LEXSORT_TRUNCATE_lost = false ∧
    SHAPE_LEXSORT_TOPK_lost = false ∧
    SHAPE_LEX_COMPARE_lost = false ∧
    SHAPE_RANK_SORT_lost = false ∧
    SHAPE_RANK_INIT_lost = false ∧
    SHAPE_RANK_LOOP_lost = false ∧
    SHAPE_PARTITION_OR_lost = false ∧
    SHAPE_PARTITION_BOUNDS_lost = false ∧
    SHAPE_PARTITION_CMP_lost = false ∧
    SHAPE_PARTITION_RANGES_lost = false ∧
    SHAPE_CMP_DISTINCT_lost = false ∧
    SHAPE_CMP_NOT_DISTINCT_lost = false ∧
    SHAPE_CMP_DISTINCT_ONE_lost = false ∧
    SHAPE_CMP_NOT_DISTINCT_ONE_lost = false ∧
    SHAPE_CMP_UNION_NULLS_lost = false ∧
    SHAPE_CMP_APPLY_TABLE_lost = false ∧
    SHAPE_CMP_APPLY_TABLE_VEC_lost = false ∧
    SHAPE_CMP_INLINE_SCALAR_lost = false ∧
    SHAPE_VIEW_INLINE_KEY_lost = false ∧
    SHAPE_IN_LIST_EQ_lost = false ∧
    MAX_LOW_HALF_LEN_lost = false ∧
    LEXSORT_HEAP_DIVISOR_lost = false := by
  decide

/-- constants of the scalar-equality fast path and the top-k guard are in their safe ranges:
the needle (length + bytes) fits the low 64 bits of a view; any divisor ≥ 1 keeps
`limit ≤ row_count` on the heap path -/
theorem fast_path_constants_safe :
    32 + 8 * MAX_LOW_HALF_LEN ≤ 64 ∧ MAX_LOW_HALF_LEN ≤ MAX_INLINE_VIEW_LEN ∧ 1 ≤ LEXSORT_HEAP_DIVISOR := by
  decide

end ArrowModel.C10
