import ArrowModel.C09.Physical
/-
C09 specification.  The property statement appeals to

* `ArrowModel.Physical.WellFormed` (the Arrow columnar layout rules, in `Physical.lean`,
  written from the format specification) and its executable form `wellFormedB`;
* `ArrowModel.Physical.decode` (reads only through checked accessors);
* `BatchWF`: a record batch is a schema plus well-formed columns of the schema's types, all
  of the same length, with no null in a column whose field is not nullable.

"A checked constructor never accepts a malformed layout" then reads
`validateModel d = ok → WellFormed d` (see `Theorems.lean`).
-/
namespace ArrowModel.C09
open ArrowModel.Physical

/-- the number of rows of a batch: the explicit `row_count` option, else the first column's length -/
def batchRows (rows : Option Nat) (cols : List ArrayData) : Option Nat :=
  match rows with
  | some r => some r
  | none => cols.head?.map (·.len)

/-- column `c` fits field `(type, nullable)` in a batch of `r` rows -/
def ColumnFits (r : Nat) (f : DType × Bool) (c : ArrayData) : Prop :=
  c.len = r ∧ c.type = f.1 ∧ (f.2 = false → ∀ i, i < c.len → c.isValid i = true)

def columnFitsB (r : Nat) (f : DType × Bool) (c : ArrayData) : Bool :=
  c.len == r && decide (c.type = f.1) && (f.2 || allBelow c.len c.isValid)

/-- pointwise relation on two lists of equal length -/
def Forall2 {α β} (R : α → β → Prop) : List α → List β → Prop
  | [], [] => True
  | a :: as, b :: bs => R a b ∧ Forall2 R as bs
  | _, _ => False

def forall2B {α β} (R : α → β → Bool) : List α → List β → Bool
  | [], [] => true
  | a :: as, b :: bs => R a b && forall2B R as bs
  | _, _ => false

/-- **well-formed record batch** -/
def BatchWF (rows : Option Nat) (fields : List (DType × Bool)) (cols : List ArrayData) : Prop :=
  ∃ r, batchRows rows cols = some r ∧ Forall2 (ColumnFits r) fields cols ∧ ∀ c, c ∈ cols → WellFormed c

def batchSpecB (rows : Option Nat) (fields : List (DType × Bool)) (cols : List ArrayData) : Bool :=
  match batchRows rows cols with
  | some r => forall2B (columnFitsB r) fields cols && cols.all wellFormedB
  | none => false

end ArrowModel.C09
