import ArrowModel.C09.Physical
import ArrowModel.Generated.C09
/-
C09 algorithm model: `ArrayData::try_new` / `ArrayDataBuilder::build` / `validate` /
`validate_nulls` / `validate_values` / `validate_data` / `validate_full` of
`arrow-data/src/data.rs`, **check by check as the Rust does it — including what it does
not check**:

* `validate_child_data` compares struct and fixed-size-list child lengths with `len`, not
  with `offset + len` (sparse unions *do* use `offset + len`);
* `validate_non_nullable` → `NullBuffer::contains` zips the parent mask with the child mask
  from position 0 in 64-bit words, i.e. it ignores the parent offset and truncates to the
  shorter of the two;

`usize` is modelled as `Nat` with explicit `2^64` overflow checks exactly where the Rust
has `checked_*`/`saturating_*`/`expect`.  Outcomes: `ok`, `err` (any `ArrowError`), `panic`.
Buffer alignment is not part of `ArrayData` here; it is modelled separately by `alignOk`.
-/
namespace ArrowModel.C09
open ArrowModel.Physical

/-- outcome of a checked constructor / validator -/
inductive Res where
  | ok | err | panic
  deriving DecidableEq, Repr

/-- sequencing: run `k` only after success -/
@[inline] def Res.andThen (r : Res) (k : Unit → Res) : Res :=
  match r with
  | .ok => k ()
  | e => e

/-- `if c then err else ok` -/
@[inline] def errIf (c : Bool) : Res := if c then .err else .ok

/-- `usize::MAX + 1` -/
def USIZE : Nat := 2 ^ 64

/-- `checked_len_plus_offset` / `usize::checked_add` -/
def checkedAdd (a b : Nat) : Option Nat := if a + b < USIZE then some (a + b) else none

/-- `usize::saturating_mul` -/
def satMul (a b : Nat) : Nat := if a * b < USIZE then a * b else USIZE - 1

/-- `bit_util::ceil(x, 8)` -/
def ceil8 (x : Nat) : Nat := (x + 7) / 8

/-- `BufferSpec` -/
inductive BufSpec where
  | fixed (w : Nat)
  | var
  | bitmap

/-- `layout(data_type)`: (buffer specs, can_contain_null_mask) -/
def layout : DType → List BufSpec × Bool
  | .null => ([], false)
  | .bool => ([.bitmap], true)
  | .prim w => ([.fixed w], true)
  | .fsb n => ([.fixed n], true)
  | .view _ => ([.fixed 16], true)                  -- `new_view()`: variadic
  | .utf8 l | .binary l => ([.fixed (offW l), .var], true)
  | .list l _ _ => ([.fixed (offW l)], true)
  | .fsl _ _ _ => ([], true)
  | .struct _ => ([], true)
  | .ree _ _ => ([], false)
  | .union dense _ => (if dense then [.fixed 1, .fixed 4] else [.fixed 1], false)
  | .dict kw _ _ => ([.fixed kw], true)

/-- `DataTypeLayout::variadic` (extra data buffers are legal) -/
def variadic : DType → Bool
  | .view _ => true
  | _ => false

/-- the `for (buffer, spec) in buffers.zip(layout.buffers)` loop of `validate` -/
def buffersOk (lpo : Nat) : List BufSpec → List (List Nat) → Bool
  | .fixed w :: ss, b :: bs => decide (satMul lpo w ≤ b.length) && buffersOk lpo ss bs
  | .var :: ss, _ :: bs => buffersOk lpo ss bs
  | .bitmap :: ss, b :: bs => decide (ceil8 lpo ≤ b.length) && buffersOk lpo ss bs
  | _, _ => true

/-- first part of `validate`: `len + offset`, null mask allowed, buffer count and sizes,
null buffer checks -/
def validateHead (d : ArrayData) : Res :=
  match checkedAdd d.len d.offset with
  | none => .err
  | some lpo =>
    let (specs, canNull) := layout d.type
    if !canNull && d.nulls.isSome then .err
    else if d.buffers.length < specs.length || (!variadic d.type && d.buffers.length != specs.length) then .err
    else if !buffersOk lpo specs d.buffers then .err
    else match d.nulls with
      | none => .ok
      | some n =>
        if n.nullCount > d.len then .err
        else if n.bytes.length < ceil8 lpo then .err
        else if n.len != d.len then .err
        else .ok

/-- `typed_buffer::<T>(idx, len)` success: `(len + offset) * W` bytes are present -/
def typedBufferOk (d : ArrayData) (buf : List Nat) (len w : Nat) : Bool :=
  match checkedAdd len d.offset with
  | none => false
  | some req => decide (req * w < USIZE) && decide (req * w ≤ buf.length)

/-- `validate_offsets::<T>(values_length)` (first / last offset only) -/
def validateOffsets (d : ArrayData) (large : Bool) (valuesLen : Nat) : Res :=
  match d.buffers with
  | offs :: _ =>
    if d.len = 0 ∧ offs.isEmpty then .ok
    else match checkedAdd d.len 1 with
      | none => .err
      | some l1 =>
        if !typedBufferOk d offs l1 (offW large) then .err
        else if offs.length % offW large != 0 then .panic     -- `typed_data` asserts an empty suffix
        else
          match readInt offs (offW large) true d.offset, readInt offs (offW large) true (d.offset + d.len) with
          | some first, some last =>
            if first < 0 ∨ last < 0 then .err
            else if first > valuesLen then .err
            else if last > valuesLen then .err
            else if first > last then .err
            else .ok
          | _, _ => .err
  | [] => .err

mutual
/-- `ArrayData::validate` (cheap validation; recursive through `get_valid_child_data`) -/
def validate : ArrayData → Res
  | ⟨t, l, o, n, bs, cs⟩ =>
    let d : ArrayData := ⟨t, l, o, n, bs, cs⟩
    (validateHead d).andThen fun _ =>
    -- `validate_child_data`
    (match t with
      | .list large item _ =>
        (singleChild item cs).andThen fun _ =>
        match cs with
        | c :: _ => validateOffsets d large c.len
        | [] => .err
      | .fsl n item _ =>
        (singleChild item cs).andThen fun _ =>
        match cs with
        | c :: _ =>
          -- `self.len.checked_mul(list_size).expect(..)`
          if l * n ≥ USIZE then .panic
          else errIf (c.len < l * n)          -- NB: `len`, not `offset + len`
        | [] => .err
      | .struct fields =>
        (errIf (cs.length != fields.toList.length)).andThen fun _ =>
        structChildren l fields.toList cs     -- NB: `len`, not `offset + len`
      | .ree rw value =>
        (errIf (cs.length != 2)).andThen fun _ =>
        match cs with
        | [re, vals] =>
          (errIf (re.type != DType.prim rw)).andThen fun _ =>
          (validate re).andThen fun _ =>
          (errIf (vals.type != value)).andThen fun _ =>
          (validate vals).andThen fun _ =>
          (errIf (re.len != vals.len)).andThen fun _ =>
          errIf re.nulls.isSome
        | _ => .err
      | .union dense fields =>
        (errIf (cs.length != fields.toList.length)).andThen fun _ =>
        unionChildren dense l o fields.toList cs
      | .dict _ _ value => singleChild value cs
      | _ => errIf (!cs.isEmpty)).andThen fun _ =>
    -- type specific tail of `validate`
    match t with
    | .utf8 large | .binary large =>
      match bs with
      | [_, data] => validateOffsets d large data.length
      | _ => .err
    | .dict kw _ _ => errIf (!(kw = 1 ∨ kw = 2 ∨ kw = 4 ∨ kw = 8))
    | .ree rw _ => errIf (!(rw = 2 ∨ rw = 4 ∨ rw = 8))
    | _ => .ok
/-- `get_single_valid_child_data(expected_type)` -/
def singleChild (expected : DType) : List ArrayData → Res
  | [c] => (errIf (c.type != expected)).andThen fun _ => validate c
  | _ => .err
/-- the `for (i, field) in fields.iter().enumerate()` loop of the `Struct` arm -/
def structChildren (len : Nat) : List Field → List ArrayData → Res
  | f :: fs, c :: cs =>
    (errIf (c.type != f.2.1)).andThen fun _ =>
    (validate c).andThen fun _ =>
    (errIf (c.len < len)).andThen fun _ =>
    structChildren len fs cs
  | _, _ => .ok
/-- the loop of the `Union` arm -/
def unionChildren (dense : Bool) (len offset : Nat) : List Field → List ArrayData → Res
  | f :: fs, c :: cs =>
    (errIf (c.type != f.2.1)).andThen fun _ =>
    (validate c).andThen fun _ =>
    (if dense then Res.ok
     else match checkedAdd len offset with
       | none => Res.err
       | some lpo => errIf (c.len < lpo)).andThen fun _ =>
    unionChildren dense len offset fs cs
  | _, _ => .ok
end

/-- declared null count of a child (`ArrayData::null_count`) -/
def nullCountOf (d : ArrayData) : Nat :=
  match d.nulls with
  | some n => n.nullCount
  | none => 0

/-- bit `i` of a null buffer, `false` outside its logical length -/
def _root_.ArrowModel.Physical.Nulls.bit (n : Nulls) (i : Nat) : Bool := decide (i < n.len) && bitAt n.bytes (n.off + i) == some true

/-- `NullBuffer::contains`: word-wise `(l & !r) == 0` over `zip` of the two `iter_padded`
streams — positions `i < min(mask.len, 64·(child.len/64 + 1))`, no offset adjustment -/
def containsModel (mask child : Nulls) : Bool :=
  child.nullCount == 0 ||
  allBelow (min mask.len (64 * (child.len / 64 + 1))) (fun i => !mask.bit i || child.bit i)

/-- `NullBuffer::expand(count)` as a bit function -/
def expandNulls (n : Nulls) (count : Nat) : Nulls :=
  let bits := (List.range (n.len * count)).map (fun k => n.bit (k / count))
  -- packed LSB-first into bytes
  let bytes := (List.range ((n.len * count + 7) / 8)).map (fun b =>
    (List.range 8).foldl (fun acc j => if bits.getD (8 * b + j) false then acc + 2 ^ j else acc) 0)
  { bytes := bytes, off := 0, len := n.len * count, nullCount := n.nullCount * count }

/-- `validate_non_nullable(mask, child)` -/
def validateNonNullable (mask : Option Nulls) (child : ArrayData) : Res :=
  match mask with
  | none => errIf (nullCountOf child != 0)
  | some m =>
    match child.nulls with
    | some cn => errIf (!containsModel m cn)
    | none => .ok

/-- the struct arm of `validate_nulls`: `fields.iter().zip(&self.child_data)` -/
def structNonNullable (mask : Option Nulls) : List Field → List ArrayData → Res
  | f :: fs, c :: cs =>
    (if f.2.2 then .ok else validateNonNullable mask c).andThen fun _ => structNonNullable mask fs cs
  | _, _ => .ok

/-- `ArrayData::validate_nulls` -/
def validateNulls (d : ArrayData) : Res :=
  (match d.nulls with
   | some n => errIf (countNulls n.bytes n.off n.len != n.nullCount)
   | none => .ok).andThen fun _ =>
  match d.type, d.children with
  | .list _ _ nullable, c :: _ => if nullable then .ok else validateNonNullable none c
  | .fsl k _ nullable, c :: _ =>
    if nullable then .ok
    else match d.nulls with
      | some n => validateNonNullable (some (expandNulls n k)) c
      | none => validateNonNullable none c
  | .struct fields, cs => structNonNullable d.nulls fields.toList cs
  | _, _ => .ok

/-- `str::is_char_boundary` -/
def isCharBoundary (data : List Nat) (i : Nat) : Bool :=
  i == 0 || i == data.length ||
  match data[i]? with
  | some b => !isCont b
  | none => false

/-- all offsets `offset ..= offset+len` read, are non-negative, `≤ limit` and monotone; and
`each i start end` holds for every slot (the closure of `validate_each_offset`) -/
def eachOffset (d : ArrayData) (offs : List Nat) (large : Bool) (limit : Nat)
    (each : Nat → Nat → Bool) : Res :=
  if d.len = 0 ∧ offs.isEmpty then .ok
  else match checkedAdd d.len 1 with
    | none => .err
    | some l1 =>
      if !typedBufferOk d offs l1 (offW large) then .err
      else if offs.length % offW large != 0 then .panic       -- `typed_data` asserts an empty suffix
      else
        match readInt offs (offW large) true d.offset with
        | none => .err
        | some first =>
          if first < 0 ∨ first > limit then .err
          else errIf (!allBelow d.len (fun i =>
            match readInt offs (offW large) true (d.offset + i), readInt offs (offW large) true (d.offset + i + 1) with
            | some a, some b => decide (0 ≤ a ∧ a ≤ b ∧ b ≤ (limit : Int)) && each a.toNat b.toNat
            | _, _ => false))

/-- `validate_utf8::<T>` (both branches) -/
def validateUtf8 (d : ArrayData) (large : Bool) : Res :=
  match d.buffers with
  | [offs, data] =>
    if utf8Valid data then
      eachOffset d offs large data.length (fun a b => isCharBoundary data a && isCharBoundary data b)
    else
      eachOffset d offs large data.length (fun a b =>
        match sliceChecked data a b with
        | some v => utf8Valid v
        | none => false)
  | _ => .err

/-- `check_bounds::<T>(max_value)` of a dictionary's keys -/
def checkBounds (d : ArrayData) (keys : List Nat) (kw : Nat) (signed : Bool) (dictLen : Nat) : Res :=
  if keys.length % kw != 0 then .panic else                   -- `typed_data` asserts an empty suffix
  errIf (!allBelow d.len (fun i =>
    !d.isValid i ||
    match readInt keys kw signed (d.offset + i) with
    | some k => decide (k < 2 ^ 63 ∧ 0 ≤ k ∧ k ≤ (dictLen : Int) - 1)
    | none => false))

/-- `check_run_ends::<T>(len_plus_offset)`, called on the run-ends child `re` with the logical
`offset + len` of the run-end-encoded parent -/
def checkRunEnds (re : ArrayData) (rw : Nat) (lpo : Nat) : Res :=
  match re.buffers with
  | b :: _ =>
    if !typedBufferOk re b re.len rw then .err
    else if b.length % rw != 0 then .panic                    -- `typed_data` asserts an empty suffix
    else if !allBelow re.len (runEndOk re rw) then .err
    else match lastRunEnd re rw with
      | some last => errIf (last < lpo)
      | none => .err
  | [] => .err

/-- `ArrayData::validate_values` -/
def validateValues (d : ArrayData) : Res :=
  match d.type with
  | .utf8 large => validateUtf8 d large
  | .binary large =>
    match d.buffers with
    | [offs, data] => eachOffset d offs large data.length (fun _ _ => true)
    | _ => .err
  | .view utf8 =>
    -- `typed_buffer::<u128>(0, len)` then `validate_view_impl` over every slot of the window
    match d.buffers with
    | views :: datas =>
      if !typedBufferOk d views d.len 16 then .err
      else if views.length % 16 != 0 then .panic
      else errIf (!allBelow d.len (fun i =>
        viewSlotOkN ArrowModel.Generated.C09.MAX_INLINE_VIEW_LEN views datas utf8 (d.offset + i)))
    | [] => .err
  | .list large _ _ =>
    match d.buffers, d.children with
    | offs :: _, c :: _ => eachOffset d offs large c.len (fun _ _ => true)
    | _, _ => .err
  | .union dense fields =>
    -- every type id declared; dense offsets inside the selected child
    match checkedAdd d.len d.offset, d.buffers with
    | some _, ids :: rest =>
      let offs := rest.headD []
      if dense && offs.length % 4 != 0 then .panic            -- `typed_data::<i32>` asserts an empty suffix
      else errIf (!allBelow d.len (fun i => unionSlotOk fields dense ids offs d.children (d.offset + i)))
    | _, _ => .err
  | .dict kw signed _ =>
    match d.buffers, d.children with
    | keys :: _, v :: _ =>
      -- `self.child_data[0].len.try_into().unwrap()` (usize → i64)
      if v.len ≥ 2 ^ 63 then .panic else checkBounds d keys kw signed v.len
    | _, _ => .err
  | .ree rw _ =>
    match d.children with
    | re :: _ =>
      match checkedAdd d.len d.offset with
      | some lpo => checkRunEnds re rw lpo
      | none => .err
    | [] => .err
  | _ => .ok

/-- `ArrayData::validate_data` -/
def validateData (d : ArrayData) : Res :=
  (validate d).andThen fun _ => (validateNulls d).andThen fun _ => validateValues d

mutual
/-- `ArrayData::validate_full` -/
def validateFull : ArrayData → Res
  | ⟨t, l, o, n, bs, cs⟩ =>
    (validateData ⟨t, l, o, n, bs, cs⟩).andThen fun _ => validateFullAll cs
def validateFullAll : List ArrayData → Res
  | [] => .ok
  | c :: cs => (validateFull c).andThen fun _ => validateFullAll cs
end

/-- **the model of the checked entry points** (`validate_full`; `try_new` bottom-up is
`tryNewRec` below and agrees with it on `ok`) -/
abbrev validateModel : ArrayData → Res := validateFull

/-! ### `ArrayDataBuilder::build` and `ArrayData::try_new` -/

mutual
/-- what `build` stores: `nulls.filter(|b| b.null_count() != 0)` at every node -/
def buildTree : ArrayData → ArrayData
  | ⟨t, l, o, n, bs, cs⟩ => ⟨t, l, o, n.filter (fun x => x.nullCount != 0), bs, buildAll cs⟩
def buildAll : List ArrayData → List ArrayData
  | [] => []
  | c :: cs => buildTree c :: buildAll cs
end

/-- the `null_bit_buffer` pre-check of `ArrayData::try_new` -/
def tryNewPrecheck (d : ArrayData) : Res :=
  match d.nulls with
  | none => .ok
  | some n =>
    match checkedAdd d.len d.offset with
    | none => .err
    | some lpo => errIf (n.bytes.length < ceil8 lpo)

mutual
/-- `ArrayData::try_new` applied bottom-up (children first, left to right) to a raw layout
whose `nulls` carry the *computed* null count -/
def tryNewRec : ArrayData → Res
  | ⟨t, l, o, n, bs, cs⟩ =>
    (tryNewAll cs).andThen fun _ =>
    (tryNewPrecheck ⟨t, l, o, n, bs, []⟩).andThen fun _ =>
    validateData (buildTree ⟨t, l, o, n, bs, cs⟩)
def tryNewAll : List ArrayData → Res
  | [] => .ok
  | c :: cs => (tryNewRec c).andThen fun _ => tryNewAll cs
end

mutual
/-- `BooleanBuffer::new(buffer, offset, len)` inside `build` panics when the bitmap is too
short (`build_unchecked` path: no pre-check) -/
def buildPanics : ArrayData → Bool
  | ⟨_, l, o, n, _, cs⟩ =>
    (match n with
     | some x => decide (8 * x.bytes.length < min (o + l) (USIZE - 1))
     | none => false) || buildPanicsAll cs
def buildPanicsAll : List ArrayData → Bool
  | [] => false
  | c :: cs => buildPanics c || buildPanicsAll cs
end

/-- build everything with `build_unchecked`, then `validate_full` on the root -/
def uncheckedThenFull (d : ArrayData) : Res :=
  if buildPanics d then .panic else validateFull (buildTree d)

/-! ### alignment (modelled apart from the layout) -/

/-- `mem::align_of::<T>()` of buffer `idx` of type `t` on x86_64 (`none`: not a `FixedWidth` spec) -/
def alignOf (t : DType) (idx : Nat) : Option Nat :=
  match (layout t).1[idx]? with
  | some (.fixed w) =>
    match t with
    | .fsb _ => some 1
    | .view _ => some 16
    | .prim 32 => some 16    -- i256 is `repr(C)` {u128, i128}
    | _ => some w
  | _ => none

/-- `buffer.as_ptr().align_offset(alignment) == 0` for a pointer that is `ptrMod` modulo 64 -/
def alignOk (t : DType) (idx ptrMod : Nat) : Bool :=
  match alignOf t idx with
  | some a => ptrMod % a == 0
  | none => true

end ArrowModel.C09

namespace ArrowModel.C09
open ArrowModel.Physical

/-- `RecordBatch::try_new_impl(schema, columns, options)` (with `match_field_names = true`) -/
def batchModel (rows : Option Nat) (fields : List (DType × Bool)) (cols : List ArrayData) : Res :=
  if fields.length != cols.length then .err
  else
    match (match rows with
           | some r => some r
           | none => cols.head?.map (·.len)) with
    | none => .err
    | some rc =>
      if (cols.zip fields).any (fun (c, f) => !f.2 && nullCountOf c > 0) then .err
      else if cols.any (fun c => c.len != rc) then .err
      else if (cols.zip fields).any (fun (c, f) => c.type != f.1) then .err
      else .ok

end ArrowModel.C09

/-! ### Typed constructors (arrow-buffer / arrow-array), as the harness assembles their
arguments from a physical layout with `offset = 0` -/
namespace ArrowModel.C09
open ArrowModel.Physical

/-- `ScalarBuffer::<T>::from(buffer)` as a list: `buffer.len() / size_of::<T>()` elements -/
def scalarEntries (bs : List Nat) (w : Nat) (signed : Bool) : List Int :=
  (List.range (bs.length / w)).filterMap (readInt bs w signed)

/-- `buffer.windows(2).all(|w| w[0] <= w[1])` -/
def monotoneAdj : List Int → Bool
  | a :: b :: rest => decide (a ≤ b) && monotoneAdj (b :: rest)
  | _ => true

/-- `buffer.windows(2).all(|w| w[0] < w[1])` -/
def strictAdj : List Int → Bool
  | a :: b :: rest => decide (a < b) && strictAdj (b :: rest)
  | _ => true

/-- `OffsetBuffer::new(buffer)`: panics unless non-empty, first ≥ 0, monotonically increasing -/
def offsetBufferNew (es : List Int) : Res :=
  match es with
  | [] => .panic
  | e0 :: _ => if e0 < 0 then .panic else if monotoneAdj es then .ok else .panic

/-- `OffsetBuffer::from_lengths(lengths)` for a `w`-byte offset type: prefix sums, panics on overflow -/
def fromLengths (w : Nat) (lens : List Nat) : Option (List Nat) :=
  let offs := lens.foldl (fun acc l => acc ++ [acc.getLastD 0 + l]) [0]
  if offs.getLastD 0 < 2 ^ (8 * w - 1) then some offs else none

/-- `RunEndBuffer::new(run_ends, logical_offset, logical_length)` for a `w`-byte run-end type -/
def runEndBufferNew (w : Nat) (es : List Int) (off len : Nat) : Res :=
  if !strictAdj es then .panic
  else if len = 0 then .ok
  else
    match es with
    | [] => .panic
    | e0 :: _ =>
      let e := if off + len < USIZE then off + len else USIZE - 1     -- saturating_add
      if e ≥ 2 ^ (8 * w - 1) then .panic                              -- `E::from_usize(..).unwrap()`
      else if e0 ≤ 0 then .panic
      else if es.getLastD 0 < (e : Int) then .panic else .ok

/-- `nulls_of(p)`: `NullBuffer::new(BooleanBuffer::new(buf, 0, p.len))` panics on a short bitmap -/
def typedNullsOk (d : ArrayData) : Res :=
  match d.nulls with
  | none => .ok
  | some n => if 8 * n.bytes.length < d.len then .panic else .ok

/-- children handed to a typed constructor are built with `ArrayData::try_new` (bottom-up) -/
def kidsOk (cs : List ArrayData) : Res := tryNewAll cs

/-- child types for which `Array::logical_nulls` is the physical validity bitmap -/
def logicalSimple : DType → Bool
  | .null | .dict _ _ _ | .ree _ _ | .union _ _ => false
  | _ => true

/-- built child: its validity after `build` (dropped when the count is 0) -/
def builtNulls (c : ArrayData) : Option Nulls := c.nulls.filter (fun x => x.nullCount != 0)

/-- `GenericByteArray::<T>::try_new(OffsetBuffer::new(..), values, nulls)` -/
def typedBytes (d : ArrayData) (large utf8 : Bool) : Res :=
  match d.buffers with
  | [offs, data] =>
    let es := scalarEntries offs (offW large) true
    (offsetBufferNew es).andThen fun _ =>
    (typedNullsOk d).andThen fun _ =>
    (if utf8 then
        -- `GenericStringType::validate`: whole buffer valid, every offset on a char boundary
        errIf (!(utf8Valid data && es.all (fun o => isCharBoundary data o.toNat)))
      else
        -- `GenericBinaryType::validate`: last offset within the values
        errIf (decide ((data.length : Int) < es.getLastD 0))).andThen fun _ =>
    errIf (d.nulls.isSome && d.len != es.length - 1)
  | _ => .panic

/-- `GenericListArray::try_new(field, OffsetBuffer::new(..), values, nulls)` -/
def typedList (d : ArrayData) (large : Bool) (item : DType) (nullable : Bool) : Res :=
  match d.buffers with
  | offs :: _ =>
    let es := scalarEntries offs (offW large) true
    (offsetBufferNew es).andThen fun _ =>
    match d.children with
    | [c] =>
      (kidsOk [c]).andThen fun _ =>
      (typedNullsOk d).andThen fun _ =>
      (errIf (decide ((c.len : Int) < es.getLastD 0))).andThen fun _ =>
      (errIf (d.nulls.isSome && d.len != es.length - 1)).andThen fun _ =>
      (errIf (!nullable && (builtNulls c).isSome)).andThen fun _ =>
      errIf (c.type != item)
    | _ => .err
  | [] => .panic

/-- `FixedSizeListArray::try_new(field, size, values, nulls)` -/
def typedFsl (d : ArrayData) (k : Nat) (item : DType) (nullable : Bool) : Res :=
  match d.children with
  | [c] =>
    (kidsOk [c]).andThen fun _ =>
    (typedNullsOk d).andThen fun _ =>
    let nlen : Option Nat := d.nulls.map (fun _ => d.len)
    (if k = 0 then Res.ok
     else if c.len % k != 0 then Res.err
     else match nlen with
       | some nl => errIf (k * nl != c.len)
       | none => Res.ok).andThen fun _ =>
    let len := if k = 0 then nlen.getD 0 else c.len / k
    (errIf (nlen.isSome && nlen != some len)).andThen fun _ =>
    (errIf (k == 0 && c.len != 0)).andThen fun _ =>
    (errIf (c.len != len * k)).andThen fun _ =>
    (errIf (c.type != item)).andThen fun _ =>
    match builtNulls c with
    | none => .ok
    | some a =>
      errIf (!(nullable ||
        (match d.nulls with
         | some n => containsModel (expandNulls { n with off := 0, len := d.len } k) a
         | none => a.nullCount == 0)))
  | _ => .err

/-- the per-field loop of `StructArray::try_new_with_length` -/
def typedStructFields (len : Nat) (mask : Option Nulls) : List Field → List ArrayData → Res
  | f :: fs, c :: cs =>
    (errIf (c.type != f.2.1)).andThen fun _ =>
    (errIf (c.len != len)).andThen fun _ =>
    (match f.2.2, builtNulls c with
     | false, some a =>
       errIf ((match mask with
               | none => true
               | some n => !containsModel n a) && a.nullCount > 0)
     | _, _ => .ok).andThen fun _ =>
    typedStructFields len mask fs cs
  | _, _ => .ok

/-- `StructArray::try_new_with_length(fields, arrays, nulls, len)` -/
def typedStruct (d : ArrayData) (fields : Fields) : Res :=
  (kidsOk d.children).andThen fun _ =>
  (typedNullsOk d).andThen fun _ =>
  (errIf (fields.toList.length != d.children.length)).andThen fun _ =>
  typedStructFields d.len (d.nulls.map (fun n => { n with off := 0, len := d.len })) fields.toList d.children

/-- `DictionaryArray::<K>::try_new(PrimitiveArray::try_new(keys, nulls)?, values)` -/
def typedDict (d : ArrayData) (kw : Nat) (signed : Bool) : Res :=
  match d.children with
  | [v] =>
    (kidsOk [v]).andThen fun _ =>
    match d.buffers with
    | keys :: _ =>
      let ks := scalarEntries keys kw signed
      (typedNullsOk d).andThen fun _ =>
      (errIf (d.nulls.isSome && d.len != ks.length)).andThen fun _ =>
      let validAt (i : Nat) : Bool :=
        match d.nulls with
        | none => true
        | some n => bitAt n.bytes i == some true
      let nullCount := ((List.range ks.length).filter (fun i => !validAt i)).length
      if nullCount == ks.length then .ok
      else errIf ((List.range ks.length).any (fun i =>
        validAt i && (match ks[i]? with
                      | some k => decide (k < 0 ∨ (v.len : Int) ≤ k)
                      | none => false)))
    | [] => .panic
  | _ => .err

/-- `PrimitiveArray::from(data)` then `to_data()`: the window of the values buffer at offset 0 -/
def normPrim (re : ArrayData) (w : Nat) : ArrayData :=
  { re with offset := 0, nulls := builtNulls re,
            buffers := re.buffers.map (fun b => (b.drop (re.offset * w)).take (re.len * w)) }

/-- `RunArray::<R>::try_new(&PrimitiveArray::from(run_ends_data), values)` -/
def typedRun (d : ArrayData) (rw : Nat) : Res :=
  match d.children with
  | [re, vals] =>
    (tryNewRec re).andThen fun _ =>
    (if re.type != DType.prim rw then Res.panic else Res.ok).andThen fun _ =>
    (tryNewRec vals).andThen fun _ =>
    let len : Nat :=
      if re.len = 0 then 0
      else match runEndAt re rw (re.len - 1) with
        | some e => if e < 0 then (USIZE - e.natAbs) else e.toNat      -- `as_usize`
        | none => 0
    validateData ⟨.ree rw vals.type, len, 0, none, [], [normPrim re rw, buildTree vals]⟩
  | _ => .err

/-- `UnionArray::try_new(fields, type_ids, offsets, children)` -/
def typedUnion (d : ArrayData) (dense : Bool) (fields : Fields) : Res :=
  (kidsOk d.children).andThen fun _ =>
  match d.buffers with
  | idsB :: rest =>
    let ids := scalarEntries idsB 1 true
    let offs : List Int := match rest with
      | o :: _ => scalarEntries o 4 true
      | [] => []
    if dense && rest.isEmpty then .panic
    else
    (errIf (fields.toList.length != d.children.length)).andThen fun _ =>
    -- every child has the data type declared by its field
    (errIf ((d.children.zip fields.toList).any (fun (c, f) => c.type != f.2.1))).andThen fun _ =>
    (if dense then errIf (offs.length != ids.length)
     else errIf (d.children.any (fun c => c.len != ids.length))).andThen fun _ =>
    let lenOf (id : Int) : Option Nat :=
      if id < 0 then none else (fields.indexOf id).bind (fun k => d.children[k]?.map (·.len))
    (errIf (ids.any (fun id => (lenOf id).isNone))).andThen fun _ =>
    if dense then
      errIf ((ids.zip offs).any (fun (id, o) =>
        match lenOf id with
        | some l => decide (o < 0 ∨ (l : Int) ≤ o)
        | none => true))
    else .ok
  | [] => .panic

/-- `GenericByteViewArray::<T>::try_new(ScalarBuffer::<u128>::from(views), buffers, nulls)` -/
def typedView (d : ArrayData) (utf8 : Bool) : Res :=
  match d.buffers with
  | views :: datas =>
    (typedNullsOk d).andThen fun _ =>
    (errIf (!allBelow (views.length / 16) (fun i =>
      viewSlotOkN ArrowModel.Generated.C09.MAX_INLINE_VIEW_LEN views datas utf8 i))).andThen fun _ =>
    errIf (d.nulls.isSome && d.len != views.length / 16)
  | [] => .panic

/-- `FixedSizeBinaryArray::try_new(size, values, nulls)` -/
def typedFsb (d : ArrayData) (n : Nat) : Res :=
  match d.buffers with
  | vals :: _ =>
    (typedNullsOk d).andThen fun _ =>
    if n = 0 then errIf (!vals.isEmpty)
    else errIf (d.nulls.isSome && d.len != vals.length / n)
  | [] => .panic

/-- `PrimitiveArray::<T>::try_new(ScalarBuffer::from(values), nulls)` -/
def typedPrim (d : ArrayData) (w : Nat) : Res :=
  match d.buffers with
  | vals :: _ => (typedNullsOk d).andThen fun _ => errIf (d.nulls.isSome && d.len != vals.length / w)
  | [] => .panic

/-- length a typed constructor derives from its components (`none`: taken from the layout) -/
def typedLen (kind : String) (d : ArrayData) : Option Nat :=
  match kind, d.type with
  | "bytes", .utf8 l | "bytes", .binary l | "list", .list l _ _ | "map", .list l _ _ =>
    d.buffers.head?.map (fun b => b.length / offW l - 1)
  | "fsl", .fsl k _ _ =>
    if k = 0 then some (if d.nulls.isSome then d.len else 0) else d.children.head?.map (fun c => c.len / k)
  | "dict", .dict kw _ _ => d.buffers.head?.map (fun b => b.length / kw)
  | "union", _ => d.buffers.head?.map (·.length)
  | "view", .view _ => d.buffers.head?.map (fun b => b.length / 16)
  | "fsbin", .fsb n => if n = 0 then some (if d.nulls.isSome then d.len else 0) else d.buffers.head?.map (fun b => b.length / n)
  | "prim", .prim w => d.buffers.head?.map (fun b => b.length / w)
  | _, _ => none

/-- dispatch on the harness `kind` -/
def typedModel (kind : String) (d : ArrayData) : Res :=
  if d.offset != 0 then .err else
  match kind, d.type with
  | "bytes", .utf8 l => typedBytes d l true
  | "bytes", .binary l => typedBytes d l false
  | "list", .list l item n => typedList d l item n
  -- `MapArray::try_new`: the `GenericListArray` checks with a non-nullable entries field
  | "map", .list false item false => typedList d false item false
  | "fsl", .fsl k item n => typedFsl d k item n
  | "struct", .struct fs => typedStruct d fs
  | "dict", .dict kw s _ => typedDict d kw s
  | "run", .ree rw _ => typedRun d rw
  | "union", .union dense fs => typedUnion d dense fs
  | "view", .view u => typedView d u
  | "fsbin", .fsb n => typedFsb d n
  | "prim", .prim w => typedPrim d w
  | _, _ => .err

end ArrowModel.C09
