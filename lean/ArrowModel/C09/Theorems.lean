import ArrowModel.C09.Lemmas
/-
C09 property statements.

The property: *a checked constructor never accepts a malformed layout*, i.e.
`validateModel d = ok → WellFormed d` (and, with `wellFormed_decode`, acceptance ⇒ every read
of the abstraction function stays inside its buffers).

For the code as written this is **false**; the negation is proved below with concrete
witnesses (each is replayed on the real `ArrayData::try_new` by the harness on every run):
  * `validate_accepts_malformed_union`            – type ids / dense offsets never checked
  * `validate_accepts_malformed_struct_offset`    – child length compared with `len`, not `offset+len`
  * `validate_accepts_malformed_fsl_offset`       – same for fixed-size lists
  * `validate_accepts_ree_len_beyond_run_ends`    – `check_run_ends` uses the child's len/offset
  * `validate_accepts_null_in_nonnullable_child`  – `NullBuffer::contains` ignores the parent offset
The `…_partial` theorems prove the property for everything outside these gaps.
-/
namespace ArrowModel.C09
open ArrowModel.Physical

/-! ### witnesses -/

/-- `len` zero-filled Int32 values -/
def i32zeros (len : Nat) : ArrayData := ⟨.prim 4, len, 0, none, [List.replicate (4 * len) 0], []⟩

/-- dense union, ids {0,1}: `type_ids = [0,5,1]`, `offsets = [0,100,7]`, two children of length 2 -/
def wUnion : ArrayData :=
  ⟨.union true (.cons 0 (.prim 4) true (.cons 1 (.prim 4) true .nil)), 3, 0, none,
   [[0, 5, 1], [0,0,0,0, 100,0,0,0, 7,0,0,0]], [i32zeros 2, i32zeros 2]⟩

/-- `Struct{Int32}` with `len = 3`, `offset = 2` over a child of length 3 -/
def wStruct : ArrayData := ⟨.struct (.cons 0 (.prim 4) true .nil), 3, 2, none, [], [i32zeros 3]⟩

/-- `FixedSizeList(Int32, 2)` with `len = 2`, `offset = 1` over a child of length 4 -/
def wFsl : ArrayData := ⟨.fsl 2 (.prim 4) true, 2, 1, none, [], [i32zeros 4]⟩

/-- run-end encoded, run ends `[1, 2]`, logical length 100 -/
def wRee : ArrayData :=
  ⟨.ree 4 (.prim 4), 100, 0, none, [],
   [⟨.prim 4, 2, 0, none, [[1,0,0,0, 2,0,0,0]], []⟩, i32zeros 2]⟩

/-- `Struct{Int32 not null}`, `len = 2`, `offset = 1`, parent validity (bits 1..2) = [null, valid];
child validity = [valid, valid, null]: the valid parent slot 1 owns the null child slot 2 -/
def wNonNull : ArrayData :=
  ⟨.struct (.cons 0 (.prim 4) false .nil), 2, 1, some ⟨[0xfd], 1, 2, 1⟩, [],
   [⟨.prim 4, 3, 0, some ⟨[0x03], 0, 3, 1⟩, [List.replicate 12 0], []⟩]⟩

/-- **The property fails for unions.**  `ArrayData::try_new` / `validate_full` accept a dense
union whose type id `5` is not declared and whose offsets `100`, `7` are outside the children. -/
theorem validate_accepts_malformed_union :
    ∃ d, validateModel d = .ok ∧ tryNewRec d = .ok ∧ ¬ WellFormed d :=
  ⟨wUnion, by decide, by decide, by decide⟩

/-- **The property fails for sliced structs**: child length 3 < offset + len = 5 is accepted. -/
theorem validate_accepts_malformed_struct_offset :
    ∃ d, validateModel d = .ok ∧ tryNewRec d = .ok ∧ ¬ WellFormed d :=
  ⟨wStruct, by decide, by decide, by decide⟩

/-- **The property fails for sliced fixed-size lists**: child length 4 < (offset+len)·2 = 6 is accepted. -/
theorem validate_accepts_malformed_fsl_offset :
    ∃ d, validateModel d = .ok ∧ tryNewRec d = .ok ∧ ¬ WellFormed d :=
  ⟨wFsl, by decide, by decide, by decide⟩

/-- **The property fails for run-end encoded arrays**: logical length 100 with last run end 2 is
accepted (`check_run_ends` compares the last run end with the run-ends child's own length). -/
theorem validate_accepts_ree_len_beyond_run_ends :
    ∃ d, validateModel d = .ok ∧ tryNewRec d = .ok ∧ ¬ WellFormed d :=
  ⟨wRee, by decide, by decide, by decide⟩

/-- **The non-nullable-child check ignores the parent offset**: a null in a non-nullable struct
child under a *valid* parent slot is accepted when the struct has a non-zero offset. -/
theorem validate_accepts_null_in_nonnullable_child :
    ∃ d, validateModel d = .ok ∧ tryNewRec d = .ok ∧ ¬ WellFormed d :=
  ⟨wNonNull, by decide, by decide, by decide⟩

/-- **C09 for fixed-width leaf types (partial: Null, Boolean, primitives, FixedSizeBinary).**
If `ArrayData::validate_data` (hence `try_new` / `validate_full`) accepts, the layout is
well-formed. -/
theorem validate_sound_fixed_partial {d : ArrayData} (h : validateData d = .ok) (hi : RustInv d)
    (ht : d.type = .null ∨ d.type = .bool ∨ (∃ w, d.type = .prim w) ∨ (∃ n, d.type = .fsb n)) :
    LocalWF d ∧ d.children = [] := by
  obtain ⟨hh, hn⟩ := validate_head_of_data h
  have hc : d.children = [] := by
    unfold validateData at h; rw [andThen_ok] at h; exact validate_children_nil h.1 ht
  refine ⟨?_, hc⟩
  unfold LocalWF
  refine ⟨nullsOk_of_validate hh hn hi, ?_⟩
  obtain ⟨hlt, hnull, hlen, hbuf, _⟩ := validateHead_ok hh
  rcases ht with ht | ht | ⟨w, ht⟩ | ⟨w, ht⟩ <;> rw [ht] at hnull hlen hbuf ⊢ <;> simp only [layout] at hnull hlen hbuf ⊢
  · refine ⟨?_, ?_, hc⟩
    · cases hx : d.nulls <;> simp_all
    · simpa using hlen
  · refine ⟨hc, ?_⟩
    rcases hb : d.buffers with _ | ⟨b, _ | ⟨b2, r⟩⟩ <;> rw [hb] at hlen hbuf <;> simp at hlen
    refine ⟨b, rfl, ?_⟩
    have hb8 : (d.len + d.offset + 7) / 8 ≤ b.length := by
      simp only [buffersOk, ceil8, Bool.and_true] at hbuf
      exact of_decide_eq_true hbuf
    omega
  · refine ⟨hc, ?_⟩
    rcases hb : d.buffers with _ | ⟨b, _ | ⟨b2, r⟩⟩ <;> rw [hb] at hlen hbuf <;> simp at hlen
    refine ⟨b, rfl, ?_⟩
    simp [buffersOk] at hbuf
    have := satMul_le hbuf (hi.1 b (by simp [hb]))
    rw [Nat.add_comm]; exact this
  · refine ⟨hc, ?_⟩
    rcases hb : d.buffers with _ | ⟨b, _ | ⟨b2, r⟩⟩ <;> rw [hb] at hlen hbuf <;> simp at hlen
    refine ⟨b, rfl, ?_⟩
    simp [buffersOk] at hbuf
    have := satMul_le hbuf (hi.1 b (by simp [hb]))
    rw [Nat.add_comm]; exact this


/-- tree form: an accepted leaf array of a fixed-width type is `WellFormed`, hence (with
`wellFormedB_iff`) the independent validator accepts it too. -/
theorem validate_sound_fixed_tree_partial {d : ArrayData} (h : validateModel d = .ok) (hi : RustInv d)
    (ht : d.type = .null ∨ d.type = .bool ∨ (∃ w, d.type = .prim w) ∨ (∃ n, d.type = .fsb n)) :
    WellFormed d := by
  cases d with
  | mk t l o n bs cs =>
  have hd : validateData ⟨t, l, o, n, bs, cs⟩ = .ok := by
    unfold validateModel validateFull at h
    rw [andThen_ok] at h
    exact h.1
  obtain ⟨hl, hc⟩ := validate_sound_fixed_partial hd hi ht
  simp only at hc
  subst hc
  exact ⟨hl, trivial⟩

example : validateModel (i32zeros 3) = .ok ∧ RustInv (i32zeros 3) := by
  refine ⟨by decide, ?_, ?_⟩
  · intro b hb; simp [i32zeros] at hb; subst hb; simp [USIZE]
  · intro n hn; simp [i32zeros] at hn

/-- the executable validator decides the specification predicate (restated for the audit) -/
theorem wellFormedB_correct (d : ArrayData) : wellFormedB d = true ↔ WellFormed d :=
  wellFormedB_iff d

example : WellFormed (i32zeros 3) := by decide

end ArrowModel.C09
