import ArrowModel.C09.Lemmas
/-
C09 property statements.

The property: *a checked constructor never accepts a malformed layout*, i.e.
`validateModel d = ok → WellFormed d` (and, with `wellFormed_decode`, acceptance ⇒ every read
of the abstraction function stays inside its buffers).

For the code as written this is **false**; the negation is proved below with concrete
witnesses (each is replayed on the real `ArrayData::try_new` by the harness on every run):
  * `validate_accepts_malformed_struct_offset`    – child length compared with `len`, not `offset+len`
  * `validate_accepts_malformed_fsl_offset`       – same for fixed-size lists
  * `validate_accepts_null_in_nonnullable_child`  – `NullBuffer::contains` ignores the parent offset
The `…_partial` theorems prove the property for everything outside these gaps.
-/
namespace ArrowModel.C09
open ArrowModel.Physical

/-! ### witnesses -/

/-- `len` zero-filled Int32 values -/
def i32zeros (len : Nat) : ArrayData := ⟨.prim 4, len, 0, none, [List.replicate (4 * len) 0], []⟩

/-- dense union, ids {0,1}: `type_ids = [0,5,1]`, `offsets = [0,100,7]`, two children of length 2 -/
def wUnion : ArrayData :=
  ⟨.union true (.cons 0 (.prim 4) true (.cons 1 (.prim 4) true .nil)), 3, 0, none,
   [[0, 5, 1], [0,0,0,0, 100,0,0,0, 7,0,0,0]], [i32zeros 2, i32zeros 2]⟩

/-- `Struct{Int32}` with `len = 3`, `offset = 2` over a child of length 3 -/
def wStruct : ArrayData := ⟨.struct (.cons 0 (.prim 4) true .nil), 3, 2, none, [], [i32zeros 3]⟩

/-- `FixedSizeList(Int32, 2)` with `len = 2`, `offset = 1` over a child of length 4 -/
def wFsl : ArrayData := ⟨.fsl 2 (.prim 4) true, 2, 1, none, [], [i32zeros 4]⟩

/-- run-end encoded, run ends `[1, 2]`, logical length 100 -/
def wRee : ArrayData :=
  ⟨.ree 4 (.prim 4), 100, 0, none, [],
   [⟨.prim 4, 2, 0, none, [[1,0,0,0, 2,0,0,0]], []⟩, i32zeros 2]⟩

/-- `Struct{Int32 not null}`, `len = 2`, `offset = 1`, parent validity (bits 1..2) = [null, valid];
child validity = [valid, valid, null]: the valid parent slot 1 owns the null child slot 2 -/
def wNonNull : ArrayData :=
  ⟨.struct (.cons 0 (.prim 4) false .nil), 2, 1, some ⟨[0xfd], 1, 2, 1⟩, [],
   [⟨.prim 4, 3, 0, some ⟨[0x03], 0, 3, 1⟩, [List.replicate 12 0], []⟩]⟩

/-- Undeclared type ids and out-of-range dense offsets are rejected (regression witness of a
former defect: `validate_values` had a TODO for unions). -/
theorem validate_rejects_malformed_union : validateModel wUnion = .err ∧ ¬ WellFormed wUnion :=
  ⟨by decide, by decide⟩

/-- **The property fails for sliced structs**: child length 3 < offset + len = 5 is accepted. -/
theorem validate_accepts_malformed_struct_offset :
    ∃ d, validateModel d = .ok ∧ tryNewRec d = .ok ∧ ¬ WellFormed d :=
  ⟨wStruct, by decide, by decide, by decide⟩

/-- **The property fails for sliced fixed-size lists**: child length 4 < (offset+len)·2 = 6 is accepted. -/
theorem validate_accepts_malformed_fsl_offset :
    ∃ d, validateModel d = .ok ∧ tryNewRec d = .ok ∧ ¬ WellFormed d :=
  ⟨wFsl, by decide, by decide, by decide⟩

/-- Run ends must cover the logical range: logical length 100 with last run end 2 is rejected
(regression witness of a former defect: `check_run_ends` used the child's own length). -/
theorem validate_rejects_ree_len_beyond_run_ends : validateModel wRee = .err ∧ ¬ WellFormed wRee :=
  ⟨by decide, by decide⟩

/-- **The non-nullable-child check ignores the parent offset**: a null in a non-nullable struct
child under a *valid* parent slot is accepted when the struct has a non-zero offset. -/
theorem validate_accepts_null_in_nonnullable_child :
    ∃ d, validateModel d = .ok ∧ tryNewRec d = .ok ∧ ¬ WellFormed d :=
  ⟨wNonNull, by decide, by decide, by decide⟩

/-- **C09 for fixed-width leaf types (partial: Null, Boolean, primitives, FixedSizeBinary).**
If `ArrayData::validate_data` (hence `try_new` / `validate_full`) accepts, the layout is
well-formed. -/
theorem validate_sound_fixed_partial {d : ArrayData} (h : validateData d = .ok) (hi : RustInv d)
    (ht : d.type = .null ∨ d.type = .bool ∨ (∃ w, d.type = .prim w) ∨ (∃ n, d.type = .fsb n)) :
    LocalWF d ∧ d.children = [] := by
  obtain ⟨hh, hn⟩ := validate_head_of_data h
  have hc : d.children = [] := by
    unfold validateData at h; rw [andThen_ok] at h; exact validate_children_nil h.1 ht
  refine ⟨?_, hc⟩
  unfold LocalWF
  refine ⟨nullsOk_of_validate hh hn hi, ?_⟩
  obtain ⟨hlt, hnull, hlen, hbuf, _⟩ := validateHead_ok hh
  rcases ht with ht | ht | ⟨w, ht⟩ | ⟨w, ht⟩ <;> rw [ht] at hnull hlen hbuf ⊢ <;> replace hlen := hlen rfl <;> simp only [layout] at hnull hlen hbuf ⊢
  · refine ⟨?_, ?_, hc⟩
    · cases hx : d.nulls <;> simp_all
    · simpa using hlen
  · refine ⟨hc, ?_⟩
    rcases hb : d.buffers with _ | ⟨b, _ | ⟨b2, r⟩⟩ <;> rw [hb] at hlen hbuf <;> simp at hlen
    refine ⟨b, rfl, ?_⟩
    have hb8 : (d.len + d.offset + 7) / 8 ≤ b.length := by
      simp only [buffersOk, ceil8, Bool.and_true] at hbuf
      exact of_decide_eq_true hbuf
    omega
  · refine ⟨hc, ?_⟩
    rcases hb : d.buffers with _ | ⟨b, _ | ⟨b2, r⟩⟩ <;> rw [hb] at hlen hbuf <;> simp at hlen
    refine ⟨b, rfl, ?_⟩
    simp [buffersOk] at hbuf
    have := satMul_le hbuf (hi.1 b (by simp [hb]))
    rw [Nat.add_comm]; exact this
  · refine ⟨hc, ?_⟩
    rcases hb : d.buffers with _ | ⟨b, _ | ⟨b2, r⟩⟩ <;> rw [hb] at hlen hbuf <;> simp at hlen
    refine ⟨b, rfl, ?_⟩
    simp [buffersOk] at hbuf
    have := satMul_le hbuf (hi.1 b (by simp [hb]))
    rw [Nat.add_comm]; exact this


/-- tree form: an accepted leaf array of a fixed-width type is `WellFormed`, hence (with
`wellFormedB_iff`) the independent validator accepts it too. -/
theorem validate_sound_fixed_tree_partial {d : ArrayData} (h : validateModel d = .ok) (hi : RustInv d)
    (ht : d.type = .null ∨ d.type = .bool ∨ (∃ w, d.type = .prim w) ∨ (∃ n, d.type = .fsb n)) :
    WellFormed d := by
  cases d with
  | mk t l o n bs cs =>
  have hd : validateData ⟨t, l, o, n, bs, cs⟩ = .ok := by
    unfold validateModel validateFull at h
    rw [andThen_ok] at h
    exact h.1
  obtain ⟨hl, hc⟩ := validate_sound_fixed_partial hd hi ht
  simp only at hc
  subst hc
  exact ⟨hl, trivial⟩

example : validateModel (i32zeros 3) = .ok ∧ RustInv (i32zeros 3) := by
  refine ⟨by decide, ?_, ?_⟩
  · intro b hb; simp [i32zeros] at hb; subst hb; simp [USIZE]
  · intro n hn; simp [i32zeros] at hn

/-- **C09 for Binary / LargeBinary**: acceptance ⇒ offsets present, non-negative, monotone and
within the values buffer for every visible slot. -/
theorem validate_sound_binary {d : ArrayData} {large : Bool} (h : validateData d = .ok)
    (hi : RustInv d) (ht : d.type = .binary large) : LocalWF d ∧ d.children = [] := by
  obtain ⟨hh, hn⟩ := validate_head_of_data h
  obtain ⟨hv, hvals⟩ := validateValues_of_data h
  have hc : d.children = [] := validate_children_nil_bin hv (Or.inl ⟨large, ht⟩)
  refine ⟨?_, hc⟩
  unfold LocalWF
  refine ⟨nullsOk_of_validate hh hn hi, ?_⟩
  obtain ⟨_, _, hlen, _, _⟩ := validateHead_ok hh
  rw [ht] at hlen ⊢
  replace hlen := hlen rfl
  simp only [layout] at hlen ⊢
  obtain ⟨offs, data, hb⟩ := two_buffers (by simpa using hlen)
  refine ⟨hc, offs, data, hb, ?_⟩
  unfold validateValues at hvals
  rw [ht] at hvals
  simp only [hb] at hvals
  rcases eachOffset_ok hvals with h0 | h1
  · exact Or.inl h0
  · exact Or.inr (fun i hi => (h1 i hi).1)

/-- **C09 for Dictionary arrays**: acceptance ⇒ every key at a valid slot addresses a
dictionary value. -/
theorem validate_sound_dict {d : ArrayData} {kw : Nat} {signed : Bool} {value : DType}
    (h : validateData d = .ok) (hi : RustInv d) (ht : d.type = .dict kw signed value) : LocalWF d := by
  obtain ⟨hh, hn⟩ := validate_head_of_data h
  obtain ⟨hv, hvals⟩ := validateValues_of_data h
  obtain ⟨⟨c, hc, hct, _⟩, hkw⟩ := validate_dict_parts hv ht
  unfold LocalWF
  refine ⟨nullsOk_of_validate hh hn hi, ?_⟩
  obtain ⟨_, _, hlen, hbuf, _⟩ := validateHead_ok hh
  rw [ht] at hlen hbuf ⊢
  replace hlen := hlen rfl
  simp only [layout] at hlen hbuf ⊢
  obtain ⟨keys, hb⟩ := one_buffer (by simpa using hlen)
  rw [hb] at hbuf
  simp only [buffersOk, Bool.and_true, decide_eq_true_eq] at hbuf
  have hsz := satMul_le hbuf (hi.1 keys (by simp [hb]))
  refine ⟨keys, c, hb, hc, hct, hkw, by rw [Nat.add_comm]; exact hsz, ?_⟩
  unfold validateValues at hvals
  rw [ht] at hvals
  simp only [hb, hc] at hvals
  split at hvals
  · simp at hvals
  · unfold checkBounds at hvals
    split at hvals
    · simp at hvals
    rw [errIf_ok] at hvals
    simp only [Bool.not_eq_false'] at hvals
    rw [allBelow_iff] at hvals
    intro i hi hvalid
    have := hvals i hi
    rw [hvalid] at this
    simp only [Bool.not_true, Bool.false_or] at this
    unfold keyOk
    split at this
    · rename_i k hk
      rw [hk]
      simp only [decide_eq_true_eq] at this ⊢
      omega
    · simp at this

/-- **C09 for List / LargeList** (the child's own null count must be exact, which the
recursive validation of the child establishes). -/
theorem validate_sound_list {d : ArrayData} {large : Bool} {item : DType} {nullable : Bool}
    (h : validateData d = .ok) (hi : RustInv d) (ht : d.type = .list large item nullable)
    (hchild : ∀ c, c ∈ d.children → NullsOk c) : LocalWF d := by
  obtain ⟨hh, hn⟩ := validate_head_of_data h
  obtain ⟨hv, hvals⟩ := validateValues_of_data h
  obtain ⟨c, hc, hct, _⟩ := validate_list_parts hv ht
  unfold LocalWF
  refine ⟨nullsOk_of_validate hh hn hi, ?_⟩
  obtain ⟨_, _, hlen, _, _⟩ := validateHead_ok hh
  rw [ht] at hlen ⊢
  replace hlen := hlen rfl
  simp only [layout] at hlen ⊢
  obtain ⟨offs, hb⟩ := one_buffer (by simpa using hlen)
  refine ⟨offs, c, hb, hc, hct, ?_, ?_⟩
  · unfold validateValues at hvals
    rw [ht] at hvals
    simp only [hb, hc] at hvals
    rcases eachOffset_ok hvals with h0 | h1
    · exact Or.inl h0
    · exact Or.inr (fun i hi => (h1 i hi).1)
  · intro hnn
    unfold validateNulls at hn
    rw [andThen_ok] at hn
    have h2 := hn.2
    rw [ht] at h2
    simp only [hc, hnn] at h2
    unfold validateNonNullable at h2
    simp only [Bool.false_eq_true, if_false, errIf_ok] at h2
    have h0 : nullCountOf c = 0 := by simpa using h2
    exact allValid_of_nullCount_zero (hchild c (by simp [hc])) h0

/-- **C09 for Utf8 / LargeUtf8**: acceptance ⇒ offsets in range and monotone, and every visible
string is well-formed UTF-8 — through *both* branches of `validate_utf8` (whole-buffer fast path
with boundary tests at the start and the end of every string; per-string check otherwise). -/
theorem validate_sound_utf8 {d : ArrayData} {large : Bool} (h : validateData d = .ok)
    (hi : RustInv d) (ht : d.type = .utf8 large) : LocalWF d ∧ d.children = [] := by
  obtain ⟨hh, hn⟩ := validate_head_of_data h
  obtain ⟨hv, hvals⟩ := validateValues_of_data h
  have hc : d.children = [] := validate_children_nil_bin hv (Or.inr ⟨large, ht⟩)
  refine ⟨?_, hc⟩
  unfold LocalWF
  refine ⟨nullsOk_of_validate hh hn hi, ?_⟩
  obtain ⟨_, _, hlen, _, _⟩ := validateHead_ok hh
  rw [ht] at hlen ⊢
  replace hlen := hlen rfl
  simp only [layout] at hlen ⊢
  obtain ⟨offs, data, hb⟩ := two_buffers (by simpa using hlen)
  refine ⟨hc, offs, data, hb, ?_⟩
  unfold validateValues at hvals
  rw [ht] at hvals
  simp only at hvals
  unfold validateUtf8 at hvals
  simp only [hb] at hvals
  split at hvals
  · rename_i hwhole
    rcases eachOffset_ok hvals with h0 | h1
    · exact Or.inl h0
    · right
      intro i hi
      obtain ⟨hp, a, b, ha, hbb, ha0, hb0, hab, hbl, hbd⟩ := h1 i hi
      refine ⟨hp, ?_⟩
      simp only [Bool.and_eq_true] at hbd
      obtain ⟨v, hs, hvv⟩ := utf8Valid_slice (a := a.toNat) (b := b.toNat) hwhole (by omega) (by omega)
        (isBoundary_of_isCharBoundary hbd.1) (isBoundary_of_isCharBoundary hbd.2)
      unfold utf8SlotOk binValue
      rw [ha, hbb]
      simp [ha0, hb0, hs, hvv]
  · rcases eachOffset_ok hvals with h0 | h1
    · exact Or.inl h0
    · right
      intro i hi
      obtain ⟨hp, a, b, ha, hbb, ha0, hb0, _, _, hbd⟩ := h1 i hi
      refine ⟨hp, ?_⟩
      unfold utf8SlotOk binValue
      rw [ha, hbb]
      simp only [ha0, hb0, and_self, if_true]
      split at hbd
      · rename_i v hs; rw [hs]; exact hbd
      · simp at hbd

theorem validate_children_nil_view {d : ArrayData} {u : Bool} (h : validate d = .ok)
    (ht : d.type = .view u) : d.children = [] := by
  cases d with
  | mk t l o n bs cs =>
  unfold validate at h
  rw [andThen_ok, andThen_ok] at h
  have h2 := h.2.1
  simp only at ht
  subst ht
  simp [errIf_ok] at h2
  simpa using h2

/-- the source's inline limit is the format's (T-tie: regenerated from `byte_view.rs`) -/
theorem inline_limit_is_12 : ArrowModel.Generated.C09.MAX_INLINE_VIEW_LEN = 12 := by decide

/-- **C09 for Utf8View / BinaryView**: acceptance ⇒ every view of the window is well-formed
(`validate_view_impl`: inline padding, buffer index, range, prefix, UTF-8). -/
theorem validate_sound_view {d : ArrayData} {u : Bool} (h : validateData d = .ok) (hi : RustInv d)
    (ht : d.type = .view u) : LocalWF d ∧ d.children = [] := by
  obtain ⟨hh, hn⟩ := validate_head_of_data h
  obtain ⟨hv, hvals⟩ := validateValues_of_data h
  have hc := validate_children_nil_view hv ht
  refine ⟨?_, hc⟩
  unfold LocalWF
  refine ⟨nullsOk_of_validate hh hn hi, ?_⟩
  obtain ⟨_, _, _, hbuf, _⟩ := validateHead_ok hh
  unfold validateValues at hvals
  rw [ht] at hbuf hvals ⊢
  simp only [layout] at hbuf
  simp only at hvals ⊢
  rcases hb : d.buffers with _ | ⟨views, datas⟩
  · rw [hb] at hvals; simp at hvals
  · rw [hb] at hvals hbuf
    simp only [buffersOk, Bool.and_eq_true, decide_eq_true_eq] at hbuf
    have hsz := satMul_le hbuf.1 (hi.1 views (by simp [hb]))
    refine ⟨hc, views, datas, rfl, by rw [Nat.add_comm]; exact hsz, ?_⟩
    simp only at hvals
    split at hvals
    · simp at hvals
    · split at hvals
      · simp at hvals
      · rw [errIf_ok] at hvals
        simp only [Bool.not_eq_false'] at hvals
        rw [allBelow_iff] at hvals
        intro i hi'
        have := hvals i hi'
        rw [inline_limit_is_12] at this
        exact this

/-- **`check_bounds` as written, for every key width, signedness and EVERY dictionary length**
(nothing assumes that the dictionary length fits the key type): if the model of the scan accepts,
every key at a non-null slot of the window is present and satisfies `0 ≤ k ≤ max_value`
(`max_value = dictLen − 1`). -/
theorem checkBounds_sound {d : ArrayData} {keys : List Nat} {kw : Nat} {signed : Bool} {dictLen : Nat}
    (h : checkBounds d keys kw signed dictLen = .ok) :
    ∀ i, i < d.len → d.isValid i = true →
      ∃ k : Int, readInt keys kw signed (d.offset + i) = some k ∧ 0 ≤ k ∧ k ≤ (dictLen : Int) - 1 := by
  unfold checkBounds at h
  split at h
  · simp at h
  rw [errIf_ok] at h
  simp only [Bool.not_eq_false'] at h
  rw [allBelow_iff] at h
  intro i hi hv
  have := h i hi
  rw [hv] at this
  simp only [Bool.not_true, Bool.false_or] at this
  split at this
  · rename_i k hk
    simp only [decide_eq_true_eq] at this
    exact ⟨k, hk, this.2.1, this.2.2⟩
  · simp at this

set_option maxRecDepth 8192 in
/-- a negative key is never accepted, however long the dictionary is: Int8 keys `[-1]` over 129
dictionary values (more than an `i8` can address) are rejected by the model of `try_new`. -/
theorem validate_rejects_negative_key_large_dictionary :
    validateModel ⟨.dict 1 true (.prim 1), 1, 0, none, [[0xff]],
      [⟨.prim 1, 129, 0, none, [List.replicate 129 0], []⟩]⟩ = .err := by decide

/-- **T-tie**: every source expression whose shape the model (and the counterexample theorems)
depend on is still written the way the model mirrors it — regenerated from /repo on every run by
`tools/translate.py` (`tools/items/C09.py`); an edit of one of them makes this theorem fail. -/
theorem source_shape_ties :
    (ArrowModel.Generated.C09.MAX_INLINE_VIEW_LEN_lost
      || ArrowModel.Generated.C09.NULL_BITMAP_CEIL_DIV_lost
      || ArrowModel.Generated.C09.TYPED_OFFSETS_PLUS_lost
      || ArrowModel.Generated.C09.STRUCT_CHILD_LEN_USES_LEN_lost
      || ArrowModel.Generated.C09.FSL_CHILD_LEN_USES_LEN_lost
      || ArrowModel.Generated.C09.SPARSE_UNION_USES_LEN_PLUS_OFFSET_lost
      || ArrowModel.Generated.C09.UNION_VALUES_UNCHECKED_lost
      || ArrowModel.Generated.C09.REE_CHECK_RUN_ENDS_ON_CHILD_lost
      || ArrowModel.Generated.C09.UTF8_BOUNDARY_BOTH_ENDS_lost
      || ArrowModel.Generated.C09.EACH_OFFSET_SHAPE_lost
      || ArrowModel.Generated.C09.CHECK_BOUNDS_SHAPE_lost
      || ArrowModel.Generated.C09.RUN_ENDS_SHAPE_lost
      || ArrowModel.Generated.C09.CHECK_BOUNDS_NO_EARLY_RETURN_lost
      || ArrowModel.Generated.C09.CHECK_BOUNDS_MAX_VALUE_lost
      || ArrowModel.Generated.C09.DICT_TRY_NEW_SHAPE_lost
      || ArrowModel.Generated.C09.CONTAINS_ZIP_NO_OFFSET_lost
      || ArrowModel.Generated.C09.OFFSET_BUFFER_WINDOWS_lost
      || ArrowModel.Generated.C09.RUN_END_BUFFER_WINDOWS_lost
      || ArrowModel.Generated.C09.VIEW_IMPL_SHAPE_lost
      || ArrowModel.Generated.C09.UNION_TRY_NEW_SHAPE_lost) = false
    ∧ ArrowModel.Generated.C09.MAX_INLINE_VIEW_LEN = 12
    ∧ ArrowModel.Generated.C09.NULL_BITMAP_CEIL_DIV = 8
    ∧ ArrowModel.Generated.C09.TYPED_OFFSETS_PLUS = 1
    ∧ ArrowModel.Generated.C09.OFFSET_BUFFER_WINDOWS = 2
    ∧ ArrowModel.Generated.C09.RUN_END_BUFFER_WINDOWS = 2
    ∧ ArrowModel.Generated.C09.VIEW_IMPL_SHAPE = 32 := by decide

/-- the types for which acceptance ⇒ well-formedness is proved -/
def coveredType : DType → Bool
  | .null | .bool | .prim _ | .fsb _ | .binary _ | .utf8 _ | .view _ | .list _ _ _ | .dict _ _ _ => true
  | _ => false

mutual
/-- every node has a covered type and satisfies the Rust type invariants -/
def Covered : ArrayData → Prop
  | ⟨t, l, o, n, bs, cs⟩ => coveredType t = true ∧ RustInv ⟨t, l, o, n, bs, cs⟩ ∧ CoveredAll cs
def CoveredAll : List ArrayData → Prop
  | [] => True
  | c :: cs => Covered c ∧ CoveredAll cs
end

theorem localWF_of_wellFormed : ∀ (d : ArrayData), WellFormed d → LocalWF d
  | ⟨_, _, _, _, _, _⟩, h => h.1

theorem wellFormedAll_mem : ∀ (cs : List ArrayData), WellFormedAll cs → ∀ c, c ∈ cs → WellFormed c
  | [], _, c, hc => by simp at hc
  | x :: xs, h, c, hc => by
    rcases List.mem_cons.mp hc with rfl | h'
    · exact h.1
    · exact wellFormedAll_mem xs h.2 c h'

mutual
/-- **C09, positive part (partial: trees built from Null, Boolean, primitives, FixedSizeBinary,
Utf8/LargeUtf8, Binary/LargeBinary, List/LargeList, Dictionary).**  If the model of
`ArrayData::validate_full` (equivalently `try_new` bottom-up) accepts, the layout is `WellFormed`,
so the independent validator accepts too.  The remaining types are exactly those with the
counterexamples above (Union, Struct, FixedSizeList, RunEndEncoded). -/
theorem validate_sound_tree_partial : ∀ (d : ArrayData), validateModel d = .ok → Covered d → WellFormed d
  | ⟨t, l, o, n, bs, cs⟩, h, hcov => by
    unfold validateModel validateFull at h
    rw [andThen_ok] at h
    obtain ⟨hd, hkids⟩ := h
    obtain ⟨hty, hinv, hcs⟩ := hcov
    have hall : WellFormedAll cs := validate_sound_all_partial cs hkids hcs
    refine ⟨?_, hall⟩
    cases t with
    | null => exact (validate_sound_fixed_partial hd hinv (Or.inl rfl)).1
    | bool => exact (validate_sound_fixed_partial hd hinv (Or.inr (Or.inl rfl))).1
    | prim w => exact (validate_sound_fixed_partial hd hinv (Or.inr (Or.inr (Or.inl ⟨w, rfl⟩)))).1
    | fsb w => exact (validate_sound_fixed_partial hd hinv (Or.inr (Or.inr (Or.inr ⟨w, rfl⟩)))).1
    | binary large => exact (validate_sound_binary hd hinv rfl).1
    | utf8 large => exact (validate_sound_utf8 hd hinv rfl).1
    | list large item nullable =>
      exact validate_sound_list hd hinv rfl
        (fun c hc => (localWF_of_wellFormed c (wellFormedAll_mem cs hall c hc)).1)
    | dict kw signed value => exact validate_sound_dict hd hinv rfl
    | view u => exact (validate_sound_view hd hinv rfl).1
    | fsl _ _ _ => simp [coveredType] at hty
    | struct _ => simp [coveredType] at hty
    | ree _ _ => simp [coveredType] at hty
    | union _ _ => simp [coveredType] at hty
theorem validate_sound_all_partial : ∀ (cs : List ArrayData), validateFullAll cs = .ok → CoveredAll cs → WellFormedAll cs
  | [], _, _ => trivial
  | c :: cs, h, hcov => by
    unfold validateFullAll at h
    rw [andThen_ok] at h
    exact ⟨validate_sound_tree_partial c h.1 hcov.1, validate_sound_all_partial cs h.2 hcov.2⟩
end

/-- acceptance of a covered tree ⇒ the executable spec validator accepts -/
theorem validate_accept_implies_spec_partial (d : ArrayData) (h : validateModel d = .ok) (hc : Covered d) :
    wellFormedB d = true := (wellFormedB_iff d).mpr (validate_sound_tree_partial d h hc)

/-- `["é", "a"]` as a Utf8 array behind one unused slot -/
def exUtf8 : ArrayData := ⟨.utf8 false, 2, 1, none, [[0,0,0,0, 0,0,0,0, 2,0,0,0, 3,0,0,0], [0xc3, 0xa9, 0x61]], []⟩

example : validateModel exUtf8 = .ok ∧ Covered exUtf8 := by
  refine ⟨by decide, rfl, ⟨?_, ?_⟩, trivial⟩
  · intro b hb
    simp [exUtf8] at hb
    rcases hb with rfl | rfl <;> simp [USIZE]
  · intro n hn; simp [exUtf8] at hn

/-- **C09 for Struct arrays, partial: `offset = 0` and every field nullable.**  (With a non-zero
offset the property is false — `validate_accepts_malformed_struct_offset`; non-nullable fields
go through `NullBuffer::contains`, not proved here.) -/
theorem validate_sound_struct_offset0_partial {d : ArrayData} {fields : Fields}
    (h : validateData d = .ok) (hi : RustInv d) (ht : d.type = .struct fields) (ho : d.offset = 0)
    (hnull : ∀ f, f ∈ fields.toList → f.2.2 = true) : LocalWF d := by
  obtain ⟨hh, hn⟩ := validate_head_of_data h
  obtain ⟨hv, _⟩ := validateValues_of_data h
  obtain ⟨hlen, hsc⟩ := validate_struct_parts hv ht
  unfold LocalWF
  refine ⟨nullsOk_of_validate hh hn hi, ?_⟩
  obtain ⟨_, _, hbl, _, _⟩ := validateHead_ok hh
  rw [ht] at hbl ⊢
  replace hbl := hbl rfl
  simp only [layout, List.length_nil, List.length_eq_zero_iff] at hbl
  simp only
  refine ⟨hbl, ?_, ?_⟩
  · rw [ho, Nat.zero_add]; exact structChildren_ok _ _ hlen hsc
  · clear hsc
    generalize fields.toList = fs at hlen hnull
    generalize d.children = cs at hlen
    induction fs generalizing cs with
    | nil => cases cs <;> simp_all [fieldsMatch]
    | cons f fs ih =>
      rcases cs with _ | ⟨c, cs⟩
      · simp at hlen
      · simp only [fieldsMatch, Bool.and_eq_true]
        refine ⟨by simp [hnull f (by simp)], ih (fun g hg => hnull g (List.mem_cons_of_mem _ hg)) cs (by simpa using hlen)⟩

example : validateData ⟨.struct (.cons 0 (.prim 4) true .nil), 3, 0, none, [], [i32zeros 3]⟩ = .ok := by decide

/-- **Typed constructor soundness (DESIGN Th 2) — `GenericByteArray::try_new` over
`OffsetBuffer::new`** (String/LargeString/Binary/LargeBinary): if the model of the constructor
accepts, the array it assembles is well-formed. -/
theorem typedBytes_sound {d : ArrayData} {offs data : List Nat} {large utf8 : Bool}
    (hb : d.buffers = [offs, data]) (h : typedBytes d large utf8 = .ok) :
    LocalWF ⟨if utf8 then .utf8 large else .binary large, offs.length / offW large - 1, 0,
             typedNulls d, [offs, data], []⟩ := by
  unfold typedBytes at h
  rw [hb] at h
  simp only [andThen_ok] at h
  obtain ⟨h1, h2, h3, h4⟩ := h
  have hw := offW_pos large
  obtain ⟨hlen, hget⟩ := scalarEntries_get (bs := offs) (w := offW large) (signed := true) hw
  generalize hes : scalarEntries offs (offW large) true = es at *
  -- OffsetBuffer::new
  have hne : es ≠ [] ∧ 0 ≤ es.headD 0 ∧ monotoneAdj es = true := by
    unfold offsetBufferNew at h1
    rcases es with _ | ⟨e0, rest⟩
    · simp at h1
    · simp only at h1
      split at h1
      · simp at h1
      · split at h1
        · rename_i h0 hm; exact ⟨by simp, by simpa using h0, hm⟩
        · simp at h1
  obtain ⟨hne, hfirst, hmono⟩ := hne
  have hn1 : 1 ≤ offs.length / offW large := by
    rw [← hlen]; cases es with
    | nil => exact absurd rfl hne
    | cons _ _ => simp
  unfold LocalWF
  refine ⟨?_, ?_⟩
  · -- validity bitmap
    unfold NullsOk typedNulls
    cases hn : d.nulls with
    | none => simp
    | some n =>
      simp only [Option.map_some]
      rw [errIf_ok] at h4
      simp only [hn, Option.isSome_some, Bool.true_and, bne_eq_false_iff_eq] at h4
      unfold typedNullsOk at h2
      simp only [hn] at h2
      refine ⟨by rw [h4, hlen], ?_, trivial⟩
      split at h2
      · simp at h2
      · omega
  · -- offsets and values
    have pair : ∀ i, i < offs.length / offW large - 1 →
        ∃ a b : Int, readInt offs (offW large) true i = some a ∧ readInt offs (offW large) true (i + 1) = some b ∧
          0 ≤ a ∧ a ≤ b ∧ b ≤ es.getLastD 0 ∧ a ∈ es ∧ b ∈ es := by
      intro i hi
      obtain ⟨a, ha⟩ := readInt_isSome (bs := offs) (signed := true) hw (show i < offs.length / offW large by omega)
      obtain ⟨b, hb'⟩ := readInt_isSome (bs := offs) (signed := true) hw (show i + 1 < offs.length / offW large by omega)
      have ga : es[i]? = some a := by rw [hget i (by omega)]; exact ha
      have gb : es[i + 1]? = some b := by rw [hget (i + 1) (by omega)]; exact hb'
      refine ⟨a, b, ha, hb', ?_, monotoneAdj_get es hmono i a b ga gb, (monotoneAdj_bounds es hmono (i + 1) b gb).2,
        List.mem_of_getElem? ga, List.mem_of_getElem? gb⟩
      have := (monotoneAdj_bounds es hmono i a ga).1
      omega
    cases utf8 with
    | false =>
      simp only [Bool.false_eq_true, if_false] at h3 ⊢
      rw [errIf_ok] at h3
      have hlast : es.getLastD 0 ≤ (data.length : Int) := by simpa using h3
      refine ⟨trivial, offs, data, rfl, Or.inr ?_⟩
      intro i hi
      obtain ⟨a, b, ha, hb', h0, hab, hbl, _, _⟩ := pair i hi
      unfold offsetPairOk
      simp only [Nat.zero_add, ha, hb', decide_eq_true_eq]
      omega
    | true =>
      simp only [if_true] at h3 ⊢
      rw [errIf_ok] at h3
      simp only [Bool.not_eq_false', Bool.and_eq_true, List.all_eq_true] at h3
      obtain ⟨hvalid, hbd⟩ := h3
      refine ⟨trivial, offs, data, rfl, Or.inr ?_⟩
      intro i hi
      obtain ⟨a, b, ha, hb', h0, hab, hbl, hma, hmb⟩ := pair i hi
      have hba := hbd a hma
      have hbb := hbd b hmb
      have hble := isCharBoundary_le hbb
      constructor
      · unfold offsetPairOk
        simp only [Nat.zero_add, ha, hb', decide_eq_true_eq]
        omega
      · obtain ⟨v, hs, hvv⟩ := utf8Valid_slice (a := a.toNat) (b := b.toNat) hvalid (by omega) hble
          (isBoundary_of_isCharBoundary hba) (isBoundary_of_isCharBoundary hbb)
        unfold utf8SlotOk binValue
        simp only [Nat.zero_add, ha, hb']
        have : 0 ≤ a ∧ 0 ≤ b := ⟨h0, by omega⟩
        simp [this, hs, hvv]

/-- **Typed constructor soundness — `DictionaryArray::try_new(PrimitiveArray::try_new(keys, nulls)?, values)`**:
if the model accepts, every key at a valid slot addresses a dictionary value. -/
theorem typedDict_sound {d : ArrayData} {keys : List Nat} {v : ArrayData} {kw : Nat} {signed : Bool}
    (hk : kw = 1 ∨ kw = 2 ∨ kw = 4 ∨ kw = 8) (hb : d.buffers = [keys]) (hc : d.children = [v])
    (h : typedDict d kw signed = .ok) :
    LocalWF ⟨.dict kw signed v.type, keys.length / kw, 0, typedNulls d, [keys], [buildTree v]⟩ := by
  have hw : 0 < kw := by omega
  unfold typedDict at h
  rw [hc, hb] at h
  simp only [andThen_ok] at h
  obtain ⟨_, h2, h4, h5⟩ := h
  obtain ⟨hlen, hget⟩ := scalarEntries_get (bs := keys) (w := kw) (signed := signed) hw
  have hvlen : (buildTree v).len = v.len ∧ (buildTree v).type = v.type := by
    cases v; simp [buildTree]
  unfold LocalWF
  refine ⟨?_, ?_⟩
  · unfold NullsOk typedNulls
    cases hn : d.nulls with
    | none => simp
    | some n =>
      simp only [Option.map_some]
      rw [errIf_ok] at h4
      simp only [hn, Option.isSome_some, Bool.true_and, bne_eq_false_iff_eq] at h4
      unfold typedNullsOk at h2
      simp only [hn] at h2
      refine ⟨by rw [h4, hlen], ?_, trivial⟩
      split at h2
      · simp at h2
      · omega
  · refine ⟨keys, buildTree v, rfl, rfl, hvlen.2, hk, ?_, ?_⟩
    · simp only [Nat.zero_add]; exact Nat.div_mul_le_self _ _
    · intro i hi hvalid
      simp only at hi
      have hvi : (match d.nulls with
                  | none => true
                  | some n => bitAt n.bytes i == some true) = true := by
        unfold ArrayData.isValid ArrayData.validAt typedNulls at hvalid
        cases hn : d.nulls with
        | none => rfl
        | some n => simpa [hn] using hvalid
      obtain ⟨k, hk'⟩ := readInt_isSome (bs := keys) (signed := signed) hw hi
      have gk : (scalarEntries keys kw signed)[i]? = some k := by rw [hget i hi]; exact hk'
      unfold keyOk
      simp only [Nat.zero_add, hk', hvlen.1, decide_eq_true_eq]
      have hmem : i ∈ List.range (scalarEntries keys kw signed).length :=
        List.mem_range.mpr (by rw [hlen]; exact hi)
      cases hn : d.nulls with
      | none =>
        simp only [hn] at h5
        split at h5
        · rename_i hall
          simp only [beq_iff_eq] at hall
          have := filter_length_eq _ _ (by rw [hall, List.length_range]) i hmem
          simp at this
        · rw [errIf_ok, List.any_eq_false] at h5
          have := h5 i hmem
          simp [gk] at this
          omega
      | some n =>
        simp only [hn] at h5 hvi
        split at h5
        · rename_i hall
          simp only [beq_iff_eq] at hall
          have := filter_length_eq _ _ (by rw [hall, List.length_range]) i hmem
          simp [hvi] at this
        · rw [errIf_ok, List.any_eq_false] at h5
          have := h5 i hmem
          simp [gk, hvi] at this
          omega

mutual
/-- `ArrayData::try_new` applied bottom-up accepts only what `validate_full` accepts on the
built tree (so the soundness theorems about `validateModel` apply to `try_new` as well) -/
theorem tryNewRec_validateFull : ∀ (d : ArrayData), tryNewRec d = .ok → validateFull (buildTree d) = .ok
  | ⟨t, l, o, n, bs, cs⟩, h => by
    unfold tryNewRec at h
    simp only [andThen_ok] at h
    obtain ⟨hk, _, hd⟩ := h
    unfold buildTree validateFull
    rw [andThen_ok]
    refine ⟨?_, tryNewAll_validateFullAll cs hk⟩
    simpa [buildTree] using hd
theorem tryNewAll_validateFullAll : ∀ (cs : List ArrayData), tryNewAll cs = .ok → validateFullAll (buildAll cs) = .ok
  | [], _ => by simp [buildAll, validateFullAll]
  | c :: cs, h => by
    unfold tryNewAll at h
    rw [andThen_ok] at h
    unfold buildAll validateFullAll
    rw [andThen_ok]
    exact ⟨tryNewRec_validateFull c h.1, tryNewAll_validateFullAll cs h.2⟩
end

/-- a dense union declared `{1: Utf8, 5: Int32}` whose first child is an Int32 array -/
def wUnionChildType : ArrayData :=
  ⟨.union true (.cons 1 (.utf8 false) true (.cons 5 (.prim 4) true .nil)), 3, 0, none,
   [[1, 5, 1], [0,0,0,0, 1,0,0,0, 1,0,0,0]], [i32zeros 2, i32zeros 2]⟩

/-- `UnionArray::try_new` rejects a child whose data type differs from the declared field
(regression witness of a former defect). -/
theorem typedUnion_rejects_wrong_child_type : typedModel "union" wUnionChildType = .err := by decide

/-- the positive part for `ArrayData::try_new` (bottom-up) itself -/
theorem tryNew_sound_tree_partial (d : ArrayData) (h : tryNewRec d = .ok) (hc : Covered (buildTree d)) :
    WellFormed (buildTree d) :=
  validate_sound_tree_partial _ (tryNewRec_validateFull d h) hc

/-- **Typed constructor soundness — `GenericListArray::try_new` over `OffsetBuffer::new`**
(List / LargeList): if the model accepts, the list node it assembles satisfies the layout rules
(the child array itself was built by `ArrayData::try_new`). -/
theorem typedList_sound {d : ArrayData} {offs : List Nat} {c : ArrayData} {large : Bool} {item : DType}
    {nullable : Bool} (hb : d.buffers = [offs]) (hc : d.children = [c])
    (h : typedList d large item nullable = .ok) :
    LocalWF ⟨.list large item nullable, offs.length / offW large - 1, 0, typedNulls d, [offs], [buildTree c]⟩ := by
  unfold typedList at h
  rw [hb, hc] at h
  simp only [andThen_ok] at h
  obtain ⟨h1, _, h2, h3, h4, h5, h6⟩ := h
  obtain ⟨hlen, hn1, hpair⟩ := offsetBufferNew_pairs h1
  obtain ⟨bt, bl, bn⟩ := buildTree_fields c
  unfold LocalWF
  refine ⟨?_, ?_⟩
  · unfold NullsOk typedNulls
    cases hn : d.nulls with
    | none => simp
    | some n =>
      simp only [Option.map_some]
      rw [errIf_ok] at h4
      simp only [hn, Option.isSome_some, Bool.true_and, bne_eq_false_iff_eq] at h4
      unfold typedNullsOk at h2
      simp only [hn] at h2
      refine ⟨by rw [h4, hlen], ?_, trivial⟩
      split at h2
      · simp at h2
      · omega
  · rw [errIf_ok] at h3 h5 h6
    have hlast : (scalarEntries offs (offW large) true).getLastD 0 ≤ (c.len : Int) := by simpa using h3
    refine ⟨offs, buildTree c, rfl, rfl, ?_, Or.inr ?_, ?_⟩
    · rw [bt]; simpa using h6
    · intro i hi
      obtain ⟨a, b, ha, hb', h0, hab, hbl⟩ := hpair i hi
      unfold offsetPairOk
      simp only [Nat.zero_add, ha, hb', decide_eq_true_eq, bl]
      omega
    · intro hnn j _
      subst hnn
      simp only [Bool.not_false, Bool.true_and] at h5
      apply isValid_of_nulls_none
      rw [bn]
      cases hx : builtNulls c with
      | none => rfl
      | some _ => simp [hx] at h5

/-- the executable validator decides the specification predicate (restated for the audit) -/
theorem wellFormedB_correct (d : ArrayData) : wellFormedB d = true ↔ WellFormed d :=
  wellFormedB_iff d

example : WellFormed (i32zeros 3) := by decide

end ArrowModel.C09
