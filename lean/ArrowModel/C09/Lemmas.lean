import ArrowModel.C09.Physical
import ArrowModel.C09.Spec
import ArrowModel.C09.Model
/-
C09 helper lemmas: the executable validator is the specification predicate
(`localWFB_iff`, `wellFormedB_iff`), plus small facts about the checked readers.
-/
namespace ArrowModel.Physical

theorem allFrom_iff (p : Nat → Bool) : ∀ (f i : Nat),
    allFrom p i f = true ↔ ∀ j, i ≤ j → j < i + f → p j = true
  | 0, i => by simp [allFrom]; intro j h1 h2; omega
  | f + 1, i => by
    simp only [allFrom, Bool.and_eq_true, allFrom_iff p f (i + 1)]
    constructor
    · rintro ⟨h0, h⟩ j h1 h2
      by_cases hj : j = i
      · subst hj; exact h0
      · exact h j (by omega) (by omega)
    · intro h
      exact ⟨h i (Nat.le_refl _) (by omega), fun j h1 h2 => h j (by omega) (by omega)⟩

theorem allBelow_iff (n : Nat) (p : Nat → Bool) :
    allBelow n p = true ↔ ∀ i, i < n → p i = true := by
  simp only [allBelow, allFrom_iff p n 0]
  constructor
  · intro h i hi; exact h i (Nat.zero_le _) (by omega)
  · intro h j _ hj; exact h j (by omega)

theorem nullsOkB_iff (d : ArrayData) : nullsOkB d = true ↔ NullsOk d := by
  unfold nullsOkB NullsOk
  cases d.nulls <;> simp [and_assoc]

theorem isValid_of_nulls_none {c : ArrayData} (h : c.nulls = none) (j : Nat) : c.isValid j = true := by
  simp [ArrayData.isValid, ArrayData.validAt, h]

theorem childValid_of_nulls_none {d c : ArrayData} (h : c.nulls = none) (k i : Nat) :
    childValidWhereParentValid d c k i = true := by
  simp only [childValidWhereParentValid, Bool.or_eq_true]
  right
  rw [allBelow_iff]
  intro j _
  exact isValid_of_nulls_none h _

/-- the struct non-nullable rule with and without the "child has no bitmap" shortcut -/
theorem fieldsMatch_nonnull_shortcut (d : ArrayData) : ∀ (fs : List Field) (cs : List ArrayData),
    fieldsMatch (fun f c => f.2.2 || c.nulls.isNone || allBelow d.len (childValidWhereParentValid d c 1)) fs cs
    = fieldsMatch (fun f c => f.2.2 || allBelow d.len (childValidWhereParentValid d c 1)) fs cs
  | [], [] => rfl
  | [], _ :: _ => rfl
  | _ :: _, [] => rfl
  | f :: fs, c :: cs => by
    simp only [fieldsMatch, fieldsMatch_nonnull_shortcut d fs cs]
    congr 1
    cases hn : c.nulls with
    | some _ => simp
    | none =>
      have : allBelow d.len (childValidWhereParentValid d c 1) = true := by
        rw [allBelow_iff]; intro i _; exact childValid_of_nulls_none hn 1 i
      simp [this]

theorem unionSlotOk_sparse_offs (fs : Fields) (ids x : List Nat) (cs : List ArrayData) (p : Nat) :
    unionSlotOk fs false ids x cs p = unionSlotOk fs false ids [] cs p := by
  unfold unionSlotOk
  cases readInt ids 1 true p <;> simp

theorem list_isEmpty_iff {α} (l : List α) : l.isEmpty = true ↔ l = [] := by
  cases l <;> simp

/-- **executable validator = specification predicate, one node** -/
theorem localWFB_iff (d : ArrayData) : localWFB d = true ↔ LocalWF d := by
  unfold localWFB LocalWF
  rw [Bool.and_eq_true, nullsOkB_iff]
  apply and_congr Iff.rfl
  cases ht : d.type with
  | null => simp [and_assoc]
  | bool =>
    simp only [Bool.and_eq_true, list_isEmpty_iff]
    apply and_congr Iff.rfl
    rcases hb : d.buffers with _ | ⟨b, _ | ⟨b2, r⟩⟩ <;> simp
  | prim w =>
    simp only [Bool.and_eq_true, list_isEmpty_iff]
    apply and_congr Iff.rfl
    rcases hb : d.buffers with _ | ⟨b, _ | ⟨b2, r⟩⟩ <;> simp
  | fsb n =>
    simp only [Bool.and_eq_true, list_isEmpty_iff]
    apply and_congr Iff.rfl
    rcases hb : d.buffers with _ | ⟨b, _ | ⟨b2, r⟩⟩ <;> simp
  | binary large =>
    simp only [Bool.and_eq_true, list_isEmpty_iff]
    apply and_congr Iff.rfl
    rcases hb : d.buffers with _ | ⟨b, _ | ⟨b2, _ | ⟨b3, r⟩⟩⟩ <;> simp [allBelow_iff]
    constructor
    · intro h; exact ⟨b, b2, ⟨rfl, rfl⟩, h⟩
    · rintro ⟨_, _, ⟨rfl, rfl⟩, h⟩; exact h
  | utf8 large =>
    simp only [Bool.and_eq_true, list_isEmpty_iff]
    apply and_congr Iff.rfl
    rcases hb : d.buffers with _ | ⟨b, _ | ⟨b2, _ | ⟨b3, r⟩⟩⟩ <;> simp [allBelow_iff]
    constructor
    · intro h; exact ⟨b, b2, ⟨rfl, rfl⟩, h⟩
    · rintro ⟨_, _, ⟨rfl, rfl⟩, h⟩; exact h
  | list large item nullable =>
    rcases hb : d.buffers with _ | ⟨b, _ | ⟨b2, r⟩⟩ <;>
      rcases hc : d.children with _ | ⟨c, _ | ⟨c2, r2⟩⟩ <;> simp [allBelow_iff]
    constructor
    · rintro ⟨⟨ha, hb⟩, h⟩
      refine ⟨ha, hb, fun hn j hj => ?_⟩
      rcases h with (h | h) | h
      · simp [hn] at h
      · exact isValid_of_nulls_none h j
      · exact h j hj
    · rintro ⟨ha, hb, h⟩
      refine ⟨⟨ha, hb⟩, ?_⟩
      cases nullable
      · right; exact h rfl
      · left; left; rfl
  | fsl n item nullable =>
    simp only [Bool.and_eq_true, list_isEmpty_iff]
    apply and_congr Iff.rfl
    rcases hc : d.children with _ | ⟨c, _ | ⟨c2, r2⟩⟩ <;> simp [allBelow_iff]
    constructor
    · rintro ⟨⟨ha, hb⟩, h⟩
      refine ⟨ha, hb, fun hn i hi => ?_⟩
      rcases h with (h | h) | h
      · simp [hn] at h
      · exact childValid_of_nulls_none h n i
      · exact h i hi
    · rintro ⟨ha, hb, h⟩
      refine ⟨⟨ha, hb⟩, ?_⟩
      cases nullable
      · right; exact h rfl
      · left; left; rfl
  | struct fields =>
    simp only [Bool.and_eq_true, list_isEmpty_iff, fieldsMatch_nonnull_shortcut, and_assoc]
  | dict kw signed value =>
    rcases hb : d.buffers with _ | ⟨b, _ | ⟨b2, r⟩⟩ <;>
      rcases hc : d.children with _ | ⟨c, _ | ⟨c2, r2⟩⟩ <;> simp [allBelow_iff, and_assoc]
    intro _ _ _
    constructor
    · intro h i hi hv
      have := h i hi
      simp [hv] at this
      exact this
    · intro h i hi
      cases hv : d.isValid i <;> simp
      exact h i hi hv
  | ree rw value =>
    simp only [Bool.and_eq_true, list_isEmpty_iff, Option.isNone_iff_eq_none, and_assoc]
    apply and_congr Iff.rfl
    apply and_congr Iff.rfl
    rcases hc : d.children with _ | ⟨re, _ | ⟨vals, _ | ⟨c3, r3⟩⟩⟩ <;> simp [allBelow_iff, and_assoc]
    intro _ _ _ _ _ _
    cases lastRunEnd re rw <;> simp
  | union dense fields =>
    simp only [Bool.and_eq_true, Option.isNone_iff_eq_none, and_assoc]
    apply and_congr Iff.rfl
    apply and_congr Iff.rfl
    cases dense
    · rcases hb : d.buffers with _ | ⟨b, _ | ⟨b2, r⟩⟩ <;> simp [allBelow_iff]
      intro _
      constructor
      · intro h; exact ⟨[], h⟩
      · rintro ⟨x, h⟩ i hi; rw [← unionSlotOk_sparse_offs fields b x]; exact h i hi
    · rcases hb : d.buffers with _ | ⟨b, _ | ⟨b2, _ | ⟨b3, r⟩⟩⟩ <;> simp [allBelow_iff, and_assoc]

mutual
/-- **executable validator = specification predicate** -/
theorem wellFormedB_iff : ∀ (d : ArrayData), wellFormedB d = true ↔ WellFormed d
  | ⟨t, l, o, n, bs, cs⟩ => by
    simp only [wellFormedB, WellFormed, Bool.and_eq_true, localWFB_iff, wellFormedAllB_iff cs]
theorem wellFormedAllB_iff : ∀ (cs : List ArrayData), wellFormedAllB cs = true ↔ WellFormedAll cs
  | [] => by simp [wellFormedAllB, WellFormedAll]
  | c :: cs => by
    simp only [wellFormedAllB, WellFormedAll, Bool.and_eq_true, wellFormedB_iff c, wellFormedAllB_iff cs]
end

instance (d : ArrayData) : Decidable (WellFormed d) := decidable_of_iff _ (wellFormedB_iff d)

end ArrowModel.Physical

namespace ArrowModel.C09
open ArrowModel.Physical

theorem andThen_ok (r : Res) (k : Unit → Res) : r.andThen k = .ok ↔ r = .ok ∧ k () = .ok := by
  cases r <;> simp [Res.andThen]

theorem errIf_ok (c : Bool) : errIf c = .ok ↔ c = false := by
  cases c <;> simp [errIf]

/-- invariants the Rust types guarantee by construction: no buffer is `usize::MAX` bytes long
(allocations are bounded by `isize::MAX`), and a `BooleanBuffer` covers its bit range
(`BooleanBuffer::new` asserts it) -/
def RustInv (d : ArrayData) : Prop :=
  (∀ b, b ∈ d.buffers → b.length < USIZE - 1) ∧
  (∀ n, d.nulls = some n → n.off + n.len ≤ 8 * n.bytes.length)

/-- what a successful `validateHead` establishes -/
theorem validateHead_ok {d : ArrayData} (h : validateHead d = .ok) :
    d.len + d.offset < USIZE ∧
    (d.nulls.isSome = true → (layout d.type).2 = true) ∧
    d.buffers.length = (layout d.type).1.length ∧
    buffersOk (d.len + d.offset) (layout d.type).1 d.buffers = true ∧
    ∀ n, d.nulls = some n → n.len = d.len := by
  unfold validateHead at h
  split at h
  · simp at h
  · rename_i lpo hl
    have hl' : d.len + d.offset < USIZE ∧ lpo = d.len + d.offset := by
      unfold checkedAdd at hl; split at hl <;> simp_all
    obtain ⟨hlt, rfl⟩ := hl'
    simp only at h
    split at h
    · simp at h
    · split at h
      · simp at h
      · split at h
        · simp at h
        · rename_i h1 h2 h3
          refine ⟨hlt, ?_, by simpa using h2, by simpa using h3, ?_⟩
          · intro hs; cases hc : (layout d.type).2 <;> simp_all
          · intro n hn
            rw [hn] at h
            simp only at h
            split at h
            · simp at h
            · split at h
              · simp at h
              · split at h
                · simp at h
                · simp_all

theorem nullsOk_of_validate {d : ArrayData} (h1 : validateHead d = .ok) (h2 : validateNulls d = .ok)
    (hi : RustInv d) : NullsOk d := by
  unfold NullsOk
  cases hn : d.nulls with
  | none => trivial
  | some n =>
    have hb := hi.2 n hn
    unfold validateNulls at h2
    rw [andThen_ok] at h2
    have h2 := h2.1
    simp only [hn, errIf_ok] at h2
    refine ⟨(validateHead_ok h1).2.2.2.2 n hn, hb, ?_⟩
    simp at h2; exact h2.symm

theorem satMul_le {a w n : Nat} (h : satMul a w ≤ n) (hn : n < USIZE - 1) : a * w ≤ n := by
  unfold satMul at h
  split at h <;> omega

theorem validate_head_of_data {d : ArrayData} (h : validateData d = .ok) :
    validateHead d = .ok ∧ validateNulls d = .ok := by
  unfold validateData at h
  rw [andThen_ok, andThen_ok] at h
  refine ⟨?_, h.2.1⟩
  have hv := h.1
  cases d
  unfold validate at hv
  rw [andThen_ok] at hv
  exact hv.1

theorem validate_children_nil {d : ArrayData} (h : validate d = .ok)
    (ht : d.type = .null ∨ d.type = .bool ∨ (∃ w, d.type = .prim w) ∨ (∃ n, d.type = .fsb n)) :
    d.children = [] := by
  cases d with
  | mk t l o n bs cs =>
  unfold validate at h
  rw [andThen_ok, andThen_ok] at h
  have h2 := h.2.1
  simp only at ht
  rcases ht with rfl | rfl | ⟨w, rfl⟩ | ⟨w, rfl⟩ <;> simp [errIf_ok] at h2 <;> simpa using h2


end ArrowModel.C09
