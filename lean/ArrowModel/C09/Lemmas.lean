import ArrowModel.C09.Physical
import ArrowModel.C09.Utf8
import ArrowModel.C09.Spec
import ArrowModel.C09.Model
/-
C09 helper lemmas: the executable validator is the specification predicate
(`localWFB_iff`, `wellFormedB_iff`), plus small facts about the checked readers.
-/
namespace ArrowModel.Physical

theorem allFrom_iff (p : Nat → Bool) : ∀ (f i : Nat),
    allFrom p i f = true ↔ ∀ j, i ≤ j → j < i + f → p j = true
  | 0, i => by simp [allFrom]; intro j h1 h2; omega
  | f + 1, i => by
    simp only [allFrom, Bool.and_eq_true, allFrom_iff p f (i + 1)]
    constructor
    · rintro ⟨h0, h⟩ j h1 h2
      by_cases hj : j = i
      · subst hj; exact h0
      · exact h j (by omega) (by omega)
    · intro h
      exact ⟨h i (Nat.le_refl _) (by omega), fun j h1 h2 => h j (by omega) (by omega)⟩

theorem allBelow_iff (n : Nat) (p : Nat → Bool) :
    allBelow n p = true ↔ ∀ i, i < n → p i = true := by
  simp only [allBelow, allFrom_iff p n 0]
  constructor
  · intro h i hi; exact h i (Nat.zero_le _) (by omega)
  · intro h j _ hj; exact h j (by omega)

theorem nullsOkB_iff (d : ArrayData) : nullsOkB d = true ↔ NullsOk d := by
  unfold nullsOkB NullsOk
  cases d.nulls <;> simp [and_assoc]

theorem isValid_of_nulls_none {c : ArrayData} (h : c.nulls = none) (j : Nat) : c.isValid j = true := by
  simp [ArrayData.isValid, ArrayData.validAt, h]

theorem childValid_of_nulls_none {d c : ArrayData} (h : c.nulls = none) (k i : Nat) :
    childValidWhereParentValid d c k i = true := by
  simp only [childValidWhereParentValid, Bool.or_eq_true]
  right
  rw [allBelow_iff]
  intro j _
  exact isValid_of_nulls_none h _

/-- the struct non-nullable rule with and without the "child has no bitmap" shortcut -/
theorem fieldsMatch_nonnull_shortcut (d : ArrayData) : ∀ (fs : List Field) (cs : List ArrayData),
    fieldsMatch (fun f c => f.2.2 || c.nulls.isNone || allBelow d.len (childValidWhereParentValid d c 1)) fs cs
    = fieldsMatch (fun f c => f.2.2 || allBelow d.len (childValidWhereParentValid d c 1)) fs cs
  | [], [] => rfl
  | [], _ :: _ => rfl
  | _ :: _, [] => rfl
  | f :: fs, c :: cs => by
    simp only [fieldsMatch, fieldsMatch_nonnull_shortcut d fs cs]
    congr 1
    cases hn : c.nulls with
    | some _ => simp
    | none =>
      have : allBelow d.len (childValidWhereParentValid d c 1) = true := by
        rw [allBelow_iff]; intro i _; exact childValid_of_nulls_none hn 1 i
      simp [this]

theorem unionSlotOk_sparse_offs (fs : Fields) (ids x : List Nat) (cs : List ArrayData) (p : Nat) :
    unionSlotOk fs false ids x cs p = unionSlotOk fs false ids [] cs p := by
  unfold unionSlotOk
  cases readInt ids 1 true p <;> simp

theorem list_isEmpty_iff {α} (l : List α) : l.isEmpty = true ↔ l = [] := by
  cases l <;> simp

/-- **executable validator = specification predicate, one node** -/
theorem localWFB_iff (d : ArrayData) : localWFB d = true ↔ LocalWF d := by
  unfold localWFB LocalWF
  rw [Bool.and_eq_true, nullsOkB_iff]
  apply and_congr Iff.rfl
  cases ht : d.type with
  | null => simp [and_assoc]
  | bool =>
    simp only [Bool.and_eq_true, list_isEmpty_iff]
    apply and_congr Iff.rfl
    rcases hb : d.buffers with _ | ⟨b, _ | ⟨b2, r⟩⟩ <;> simp
  | prim w =>
    simp only [Bool.and_eq_true, list_isEmpty_iff]
    apply and_congr Iff.rfl
    rcases hb : d.buffers with _ | ⟨b, _ | ⟨b2, r⟩⟩ <;> simp
  | fsb n =>
    simp only [Bool.and_eq_true, list_isEmpty_iff]
    apply and_congr Iff.rfl
    rcases hb : d.buffers with _ | ⟨b, _ | ⟨b2, r⟩⟩ <;> simp
  | view utf8 =>
    simp only [Bool.and_eq_true, list_isEmpty_iff]
    apply and_congr Iff.rfl
    rcases hb : d.buffers with _ | ⟨v, ds⟩ <;> simp [allBelow_iff]
    constructor
    · intro h; exact ⟨v, ds, ⟨rfl, rfl⟩, h⟩
    · rintro ⟨_, _, ⟨rfl, rfl⟩, h⟩; exact h
  | binary large =>
    simp only [Bool.and_eq_true, list_isEmpty_iff]
    apply and_congr Iff.rfl
    rcases hb : d.buffers with _ | ⟨b, _ | ⟨b2, _ | ⟨b3, r⟩⟩⟩ <;> simp [allBelow_iff]
    constructor
    · intro h; exact ⟨b, b2, ⟨rfl, rfl⟩, h⟩
    · rintro ⟨_, _, ⟨rfl, rfl⟩, h⟩; exact h
  | utf8 large =>
    simp only [Bool.and_eq_true, list_isEmpty_iff]
    apply and_congr Iff.rfl
    rcases hb : d.buffers with _ | ⟨b, _ | ⟨b2, _ | ⟨b3, r⟩⟩⟩ <;> simp [allBelow_iff]
    constructor
    · intro h; exact ⟨b, b2, ⟨rfl, rfl⟩, h⟩
    · rintro ⟨_, _, ⟨rfl, rfl⟩, h⟩; exact h
  | list large item nullable =>
    rcases hb : d.buffers with _ | ⟨b, _ | ⟨b2, r⟩⟩ <;>
      rcases hc : d.children with _ | ⟨c, _ | ⟨c2, r2⟩⟩ <;> simp [allBelow_iff]
    constructor
    · rintro ⟨⟨ha, hb⟩, h⟩
      refine ⟨ha, hb, fun hn j hj => ?_⟩
      rcases h with (h | h) | h
      · simp [hn] at h
      · exact isValid_of_nulls_none h j
      · exact h j hj
    · rintro ⟨ha, hb, h⟩
      refine ⟨⟨ha, hb⟩, ?_⟩
      cases nullable
      · right; exact h rfl
      · left; left; rfl
  | fsl n item nullable =>
    simp only [Bool.and_eq_true, list_isEmpty_iff]
    apply and_congr Iff.rfl
    rcases hc : d.children with _ | ⟨c, _ | ⟨c2, r2⟩⟩ <;> simp [allBelow_iff]
    constructor
    · rintro ⟨⟨ha, hb⟩, h⟩
      refine ⟨ha, hb, fun hn i hi => ?_⟩
      rcases h with (h | h) | h
      · simp [hn] at h
      · exact childValid_of_nulls_none h n i
      · exact h i hi
    · rintro ⟨ha, hb, h⟩
      refine ⟨⟨ha, hb⟩, ?_⟩
      cases nullable
      · right; exact h rfl
      · left; left; rfl
  | struct fields =>
    simp only [Bool.and_eq_true, list_isEmpty_iff, fieldsMatch_nonnull_shortcut, and_assoc]
  | dict kw signed value =>
    rcases hb : d.buffers with _ | ⟨b, _ | ⟨b2, r⟩⟩ <;>
      rcases hc : d.children with _ | ⟨c, _ | ⟨c2, r2⟩⟩ <;> simp [allBelow_iff, and_assoc]
    intro _ _ _
    constructor
    · intro h i hi hv
      have := h i hi
      simp [hv] at this
      exact this
    · intro h i hi
      cases hv : d.isValid i <;> simp
      exact h i hi hv
  | ree rw value =>
    simp only [Bool.and_eq_true, list_isEmpty_iff, Option.isNone_iff_eq_none, and_assoc]
    apply and_congr Iff.rfl
    apply and_congr Iff.rfl
    rcases hc : d.children with _ | ⟨re, _ | ⟨vals, _ | ⟨c3, r3⟩⟩⟩ <;> simp [allBelow_iff, and_assoc]
    intro _ _ _ _ _ _
    cases lastRunEnd re rw <;> simp
  | union dense fields =>
    simp only [Bool.and_eq_true, Option.isNone_iff_eq_none, and_assoc]
    apply and_congr Iff.rfl
    apply and_congr Iff.rfl
    cases dense
    · rcases hb : d.buffers with _ | ⟨b, _ | ⟨b2, r⟩⟩ <;> simp [allBelow_iff]
      intro _
      constructor
      · intro h; exact ⟨[], h⟩
      · rintro ⟨x, h⟩ i hi; rw [← unionSlotOk_sparse_offs fields b x]; exact h i hi
    · rcases hb : d.buffers with _ | ⟨b, _ | ⟨b2, _ | ⟨b3, r⟩⟩⟩ <;> simp [allBelow_iff, and_assoc]

mutual
/-- **executable validator = specification predicate** -/
theorem wellFormedB_iff : ∀ (d : ArrayData), wellFormedB d = true ↔ WellFormed d
  | ⟨t, l, o, n, bs, cs⟩ => by
    simp only [wellFormedB, WellFormed, Bool.and_eq_true, localWFB_iff, wellFormedAllB_iff cs]
theorem wellFormedAllB_iff : ∀ (cs : List ArrayData), wellFormedAllB cs = true ↔ WellFormedAll cs
  | [] => by simp [wellFormedAllB, WellFormedAll]
  | c :: cs => by
    simp only [wellFormedAllB, WellFormedAll, Bool.and_eq_true, wellFormedB_iff c, wellFormedAllB_iff cs]
end

instance (d : ArrayData) : Decidable (WellFormed d) := decidable_of_iff _ (wellFormedB_iff d)

end ArrowModel.Physical

namespace ArrowModel.C09
open ArrowModel.Physical

theorem andThen_ok (r : Res) (k : Unit → Res) : r.andThen k = .ok ↔ r = .ok ∧ k () = .ok := by
  cases r <;> simp [Res.andThen]

theorem errIf_ok (c : Bool) : errIf c = .ok ↔ c = false := by
  cases c <;> simp [errIf]

/-- invariants the Rust types guarantee by construction: no buffer is `usize::MAX` bytes long
(allocations are bounded by `isize::MAX`), and a `BooleanBuffer` covers its bit range
(`BooleanBuffer::new` asserts it) -/
def RustInv (d : ArrayData) : Prop :=
  (∀ b, b ∈ d.buffers → b.length < USIZE - 1) ∧
  (∀ n, d.nulls = some n → n.off + n.len ≤ 8 * n.bytes.length)

/-- what a successful `validateHead` establishes -/
theorem validateHead_ok {d : ArrayData} (h : validateHead d = .ok) :
    d.len + d.offset < USIZE ∧
    (d.nulls.isSome = true → (layout d.type).2 = true) ∧
    (variadic d.type = false → d.buffers.length = (layout d.type).1.length) ∧
    buffersOk (d.len + d.offset) (layout d.type).1 d.buffers = true ∧
    ∀ n, d.nulls = some n → n.len = d.len := by
  unfold validateHead at h
  split at h
  · simp at h
  · rename_i lpo hl
    have hl' : d.len + d.offset < USIZE ∧ lpo = d.len + d.offset := by
      unfold checkedAdd at hl; split at hl <;> simp_all
    obtain ⟨hlt, rfl⟩ := hl'
    simp only at h
    split at h
    · simp at h
    · split at h
      · simp at h
      · split at h
        · simp at h
        · rename_i h1 h2 h3
          refine ⟨hlt, ?_, (by intro hv; simp [hv] at h2; exact h2.2), by simpa using h3, ?_⟩
          · intro hs; cases hc : (layout d.type).2 <;> simp_all
          · intro n hn
            rw [hn] at h
            simp only at h
            split at h
            · simp at h
            · split at h
              · simp at h
              · split at h
                · simp at h
                · simp_all

theorem nullsOk_of_validate {d : ArrayData} (h1 : validateHead d = .ok) (h2 : validateNulls d = .ok)
    (hi : RustInv d) : NullsOk d := by
  unfold NullsOk
  cases hn : d.nulls with
  | none => trivial
  | some n =>
    have hb := hi.2 n hn
    unfold validateNulls at h2
    rw [andThen_ok] at h2
    have h2 := h2.1
    simp only [hn, errIf_ok] at h2
    refine ⟨(validateHead_ok h1).2.2.2.2 n hn, hb, ?_⟩
    simp at h2; exact h2.symm

theorem satMul_le {a w n : Nat} (h : satMul a w ≤ n) (hn : n < USIZE - 1) : a * w ≤ n := by
  unfold satMul at h
  split at h <;> omega

theorem validate_head_of_data {d : ArrayData} (h : validateData d = .ok) :
    validateHead d = .ok ∧ validateNulls d = .ok := by
  unfold validateData at h
  rw [andThen_ok, andThen_ok] at h
  refine ⟨?_, h.2.1⟩
  have hv := h.1
  cases d
  unfold validate at hv
  rw [andThen_ok] at hv
  exact hv.1

theorem validate_children_nil {d : ArrayData} (h : validate d = .ok)
    (ht : d.type = .null ∨ d.type = .bool ∨ (∃ w, d.type = .prim w) ∨ (∃ n, d.type = .fsb n)) :
    d.children = [] := by
  cases d with
  | mk t l o n bs cs =>
  unfold validate at h
  rw [andThen_ok, andThen_ok] at h
  have h2 := h.2.1
  simp only at ht
  rcases ht with rfl | rfl | ⟨w, rfl⟩ | ⟨w, rfl⟩ <;> simp [errIf_ok] at h2 <;> simpa using h2



/-- what a successful `validate_each_offset` establishes -/
theorem eachOffset_ok {d : ArrayData} {offs : List Nat} {large : Bool} {limit : Nat}
    {each : Nat → Nat → Bool} (h : eachOffset d offs large limit each = .ok) :
    (d.len = 0 ∧ offs = []) ∨
    ∀ i, i < d.len →
      offsetPairOk offs large limit (d.offset + i) = true ∧
      ∃ a b : Int, readInt offs (offW large) true (d.offset + i) = some a ∧
        readInt offs (offW large) true (d.offset + i + 1) = some b ∧ 0 ≤ a ∧ 0 ≤ b ∧
        a ≤ b ∧ b ≤ (limit : Int) ∧ each a.toNat b.toNat = true := by
  unfold eachOffset at h
  split at h
  · rename_i h0; left; exact ⟨h0.1, by simpa [list_isEmpty_iff] using h0.2⟩
  · right
    split at h
    · simp at h
    · split at h
      · simp at h
      · split at h
        · simp at h
        · split at h
          · simp at h
          · split at h
            · simp at h
            · rw [errIf_ok] at h
              simp only [Bool.not_eq_false'] at h
              rw [allBelow_iff] at h
              intro i hi
              have := h i hi
              unfold offsetPairOk
              split at this
              · rename_i a b ha hb
                simp only [Bool.and_eq_true, decide_eq_true_eq] at this
                rw [ha, hb]
                refine ⟨by simpa using this.1, a, b, rfl, rfl, this.1.1, by omega, this.1.2.1, this.1.2.2, this.2⟩
              · simp at this



theorem validateValues_of_data {d : ArrayData} (h : validateData d = .ok) :
    validate d = .ok ∧ validateValues d = .ok := by
  unfold validateData at h
  rw [andThen_ok, andThen_ok] at h
  exact ⟨h.1, h.2.2⟩

theorem validate_children_nil_bin {d : ArrayData} (h : validate d = .ok)
    (ht : (∃ l, d.type = .binary l) ∨ (∃ l, d.type = .utf8 l)) : d.children = [] := by
  cases d with
  | mk t l o n bs cs =>
  unfold validate at h
  rw [andThen_ok, andThen_ok] at h
  have h2 := h.2.1
  simp only at ht
  rcases ht with ⟨w, rfl⟩ | ⟨w, rfl⟩ <;> simp [errIf_ok] at h2 <;> simpa using h2

theorem two_buffers {d : ArrayData} (h : d.buffers.length = 2) : ∃ a b, d.buffers = [a, b] := by
  rcases hb : d.buffers with _ | ⟨a, _ | ⟨b, _ | ⟨c, r⟩⟩⟩ <;> rw [hb] at h <;> simp at h
  exact ⟨a, b, rfl⟩


theorem singleChild_ok {e : DType} {cs : List ArrayData} (h : singleChild e cs = .ok) :
    ∃ c, cs = [c] ∧ c.type = e ∧ validate c = .ok := by
  rcases cs with _ | ⟨c, _ | ⟨c2, r⟩⟩
  · simp [singleChild] at h
  · unfold singleChild at h
    rw [andThen_ok, errIf_ok] at h
    exact ⟨c, rfl, by simpa using h.1, h.2⟩
  · simp [singleChild] at h

theorem one_buffer {d : ArrayData} (h : d.buffers.length = 1) : ∃ a, d.buffers = [a] := by
  rcases hb : d.buffers with _ | ⟨a, _ | ⟨b, r⟩⟩ <;> rw [hb] at h <;> simp at h
  exact ⟨a, rfl⟩

theorem validate_dict_parts {d : ArrayData} {kw : Nat} {signed : Bool} {value : DType}
    (h : validate d = .ok) (ht : d.type = .dict kw signed value) :
    (∃ c, d.children = [c] ∧ c.type = value ∧ validate c = .ok) ∧ (kw = 1 ∨ kw = 2 ∨ kw = 4 ∨ kw = 8) := by
  cases d with
  | mk t l o n bs cs =>
  simp only at ht
  subst ht
  unfold validate at h
  rw [andThen_ok, andThen_ok] at h
  refine ⟨singleChild_ok h.2.1, ?_⟩
  have := h.2.2
  simp only [errIf_ok] at this
  simp only [Bool.not_eq_false', decide_eq_true_eq] at this
  exact this


theorem countNulls_zero {bytes : List Nat} {off len : Nat} (h : countNulls bytes off len = 0) :
    ∀ i, i < len → bitAt bytes (off + i) = some true := by
  unfold countNulls at h
  rw [List.length_eq_zero_iff, List.filter_eq_nil_iff] at h
  intro i hi
  have := h i (List.mem_range.mpr hi)
  simpa using this

/-- a child with declared null count 0 and an exact null count has only valid slots -/
theorem allValid_of_nullCount_zero {c : ArrayData} (hc : NullsOk c) (h0 : nullCountOf c = 0) :
    ∀ j, j < c.len → c.isValid j = true := by
  intro j hj
  unfold ArrayData.isValid ArrayData.validAt
  unfold NullsOk at hc
  unfold nullCountOf at h0
  cases hn : c.nulls with
  | none => simp
  | some n =>
    rw [hn] at hc h0
    simp only at hc h0
    have := countNulls_zero (by rw [← hc.2.2]; exact h0) j (by rw [hc.1]; exact hj)
    simp [this]

theorem validate_list_parts {d : ArrayData} {large : Bool} {item : DType} {nullable : Bool}
    (h : validate d = .ok) (ht : d.type = .list large item nullable) :
    ∃ c, d.children = [c] ∧ c.type = item ∧ validate c = .ok := by
  cases d with
  | mk t l o n bs cs =>
  simp only at ht
  subst ht
  unfold validate at h
  rw [andThen_ok, andThen_ok] at h
  have := h.2.1
  rw [andThen_ok] at this
  exact singleChild_ok this.1


theorem isBoundary_of_isCharBoundary {data : List Nat} {i : Nat} (h : isCharBoundary data i = true) :
    IsBoundary data i := by
  unfold isCharBoundary at h
  simp only [Bool.or_eq_true, beq_iff_eq] at h
  rcases h with (h | h) | h
  · exact Or.inl h
  · exact Or.inr (Or.inl h)
  · right; right
    split at h
    · rename_i b hb; exact ⟨b, hb, by simpa using h⟩
    · simp at h

theorem isBoundary_drop {data : List Nat} {a b : Nat} (hab : a ≤ b) (hb : b ≤ data.length)
    (h : IsBoundary data b) : IsBoundary (data.drop a) (b - a) := by
  rcases h with h | h | ⟨x, hx, hc⟩
  · left; omega
  · right; left; simp only [List.length_drop]; omega
  · right; right
    refine ⟨x, ?_, hc⟩
    rw [List.getElem?_drop, show a + (b - a) = b by omega]; exact hx

/-- a slice of a well-formed string between two character boundaries is well-formed -/
theorem utf8Valid_slice {data : List Nat} {a b : Nat} (hv : utf8Valid data = true) (hab : a ≤ b)
    (hb : b ≤ data.length) (ha' : IsBoundary data a) (hb' : IsBoundary data b) :
    ∃ v, sliceChecked data a b = some v ∧ utf8Valid v = true := by
  refine ⟨(data.drop a).take (b - a), by simp [sliceChecked, hab, hb], ?_⟩
  have h1 := (utf8Valid_split _ data a rfl hv (by omega) ha').1
  exact (utf8Valid_split _ (data.drop a) (b - a) rfl h1
    (by simp only [List.length_drop]; omega) (isBoundary_drop hab hb hb')).2



theorem structChildren_ok {len : Nat} : ∀ (fs : List Field) (cs : List ArrayData),
    cs.length = fs.length → structChildren len fs cs = .ok →
    fieldsMatch (fun f c => decide (c.type = f.2.1) && decide (len ≤ c.len)) fs cs = true
  | [], [], _, _ => rfl
  | [], _ :: _, h, _ => by simp at h
  | _ :: _, [], h, _ => by simp at h
  | f :: fs, c :: cs, hl, h => by
    unfold structChildren at h
    rw [andThen_ok, andThen_ok, andThen_ok, errIf_ok, errIf_ok] at h
    obtain ⟨h1, _, h3, h4⟩ := h
    simp only [fieldsMatch, Bool.and_eq_true, decide_eq_true_eq]
    refine ⟨⟨by simpa using h1, by simpa using h3⟩, structChildren_ok fs cs (by simpa using hl) h4⟩

theorem validate_struct_parts {d : ArrayData} {fields : Fields}
    (h : validate d = .ok) (ht : d.type = .struct fields) :
    d.children.length = fields.toList.length ∧ structChildren d.len fields.toList d.children = .ok := by
  cases d with
  | mk t l o n bs cs =>
  simp only at ht
  subst ht
  unfold validate at h
  rw [andThen_ok, andThen_ok] at h
  have := h.2.1
  rw [andThen_ok, errIf_ok] at this
  exact ⟨by simpa using this.1, this.2⟩



theorem readLE_isSome : ∀ (w : Nat) (bs : List Nat) (pos : Nat), pos + w ≤ bs.length →
    ∃ v, readLE bs pos w = some v
  | 0, _, _, _ => ⟨0, rfl⟩
  | w + 1, bs, pos, h => by
    obtain ⟨r, hr⟩ := readLE_isSome w bs (pos + 1) (by omega)
    have hb : pos < bs.length := by omega
    refine ⟨bs[pos] % 256 + 256 * r, ?_⟩
    simp [readLE, hr, List.getElem?_eq_getElem hb]

theorem readInt_isSome {bs : List Nat} {w : Nat} {signed : Bool} {i : Nat} (hw : 0 < w)
    (h : i < bs.length / w) : ∃ v, readInt bs w signed i = some v := by
  have h2 : (i + 1) * w ≤ bs.length := by
    have := Nat.div_mul_le_self bs.length w
    have : (i + 1) * w ≤ bs.length / w * w := Nat.mul_le_mul_right w h
    omega
  obtain ⟨v, hv⟩ := readLE_isSome w bs (i * w) (by rw [Nat.add_mul] at h2; omega)
  exact ⟨if signed then toSigned w v else (v : Int), by simp [readInt, hv]⟩

/-- entry `i` of the scalar view is the checked read at `i` -/
theorem scalarEntries_get {bs : List Nat} {w : Nat} {signed : Bool} (hw : 0 < w) :
    (scalarEntries bs w signed).length = bs.length / w ∧
    ∀ i, i < bs.length / w → (scalarEntries bs w signed)[i]? = readInt bs w signed i := by
  unfold scalarEntries
  have hall : ∀ i, i < bs.length / w → ∃ v, readInt bs w signed i = some v :=
    fun i hi => readInt_isSome hw hi
  generalize bs.length / w = n at hall
  have key : ∀ n, (∀ i, i < n → ∃ v, readInt bs w signed i = some v) →
      ((List.range n).filterMap (readInt bs w signed)).length = n ∧
      ∀ i, i < n → ((List.range n).filterMap (readInt bs w signed))[i]? = readInt bs w signed i := by
    intro n
    induction n with
    | zero => intro _; exact ⟨rfl, fun i hi => by omega⟩
    | succ n ih =>
      intro hn
      obtain ⟨hl, hg⟩ := ih (fun i hi => hn i (by omega))
      obtain ⟨v, hv⟩ := hn n (by omega)
      rw [List.range_succ, List.filterMap_append]
      simp only [List.filterMap_cons, hv, List.filterMap_nil, List.length_append, hl, List.length_singleton]
      refine ⟨trivial, fun i hi => ?_⟩
      by_cases hin : i < n
      · rw [List.getElem?_append_left (by omega)]; exact hg i hin
      · have : i = n := by omega
        subst this
        rw [List.getElem?_append_right (by omega)]
        simp [hl, hv]
  exact key n hall

/-- adjacent monotonicity gives every adjacent pair -/
theorem monotoneAdj_get : ∀ (es : List Int), monotoneAdj es = true →
    ∀ (i : Nat) (a b : Int), es[i]? = some a → es[i + 1]? = some b → a ≤ b
  | [], _, i, a, b, h, _ => by simp at h
  | [_], _, i, a, b, _, h2 => by simp at h2
  | x :: y :: rest, hm, i, a, b, h1, h2 => by
    simp only [monotoneAdj, Bool.and_eq_true, decide_eq_true_eq] at hm
    cases i with
    | zero => simp at h1 h2; omega
    | succ i => exact monotoneAdj_get (y :: rest) hm.2 i a b (by simpa using h1) (by simpa using h2)

/-- in a monotone list every entry lies between the first and the last -/
theorem monotoneAdj_bounds : ∀ (es : List Int), monotoneAdj es = true →
    ∀ (i : Nat) (a : Int), es[i]? = some a → es.headD 0 ≤ a ∧ a ≤ es.getLastD 0
  | [], _, i, a, h => by simp at h
  | [x], _, i, a, h => by
    cases i with
    | zero => simp at h; subst h; simp
    | succ i => simp at h
  | x :: y :: rest, hm, i, a, h => by
    simp only [monotoneAdj, Bool.and_eq_true, decide_eq_true_eq] at hm
    have ih := monotoneAdj_bounds (y :: rest) hm.2
    have hl : (x :: y :: rest).getLastD 0 = (y :: rest).getLastD 0 := rfl
    rw [hl]
    cases i with
    | zero =>
      simp at h; subst h
      have := (ih 0 y (by simp)).2
      exact ⟨by simp, by omega⟩
    | succ i =>
      have := ih i a (by simpa using h)
      simp only [List.headD_cons] at this ⊢
      exact ⟨by omega, this.2⟩



/-- validity handed to a typed constructor: `NullBuffer::new(BooleanBuffer::new(buf, 0, len))`
(the null count is computed) -/
def typedNulls (d : ArrayData) : Option Nulls :=
  d.nulls.map (fun n => (⟨n.bytes, 0, d.len, countNulls n.bytes 0 d.len⟩ : Nulls))

theorem isCharBoundary_le {data : List Nat} {i : Nat} (h : isCharBoundary data i = true) : i ≤ data.length := by
  unfold isCharBoundary at h
  simp only [Bool.or_eq_true, beq_iff_eq] at h
  rcases h with (h | h) | h
  · omega
  · omega
  · split at h
    · rename_i b hb
      have := (List.getElem?_eq_some_iff.mp hb).1
      omega
    · simp at h

theorem offW_pos (l : Bool) : 0 < offW l := by cases l <;> simp [offW]



theorem filter_length_eq {α} (p : α → Bool) : ∀ (l : List α), (l.filter p).length = l.length → ∀ x, x ∈ l → p x = true
  | [], _, x, hx => by simp at hx
  | a :: l, h, x, hx => by
    have hle := List.length_filter_le p l
    by_cases hp : p a = true
    · simp only [List.filter_cons, hp, if_true, List.length_cons, Nat.add_right_cancel_iff] at h
      rcases List.mem_cons.mp hx with rfl | hx'
      · exact hp
      · exact filter_length_eq p l h x hx'
    · simp only [List.filter_cons, hp, List.length_cons] at h
      simp at h
      omega



/-- what `OffsetBuffer::new` establishes about the checked reads of the offsets buffer -/
theorem offsetBufferNew_pairs {offs : List Nat} {large : Bool}
    (h1 : offsetBufferNew (scalarEntries offs (offW large) true) = .ok) :
    (scalarEntries offs (offW large) true).length = offs.length / offW large ∧
    1 ≤ offs.length / offW large ∧
    ∀ i, i < offs.length / offW large - 1 →
      ∃ a b : Int, readInt offs (offW large) true i = some a ∧ readInt offs (offW large) true (i + 1) = some b ∧
        0 ≤ a ∧ a ≤ b ∧ b ≤ (scalarEntries offs (offW large) true).getLastD 0 := by
  have hw := offW_pos large
  obtain ⟨hlen, hget⟩ := scalarEntries_get (bs := offs) (w := offW large) (signed := true) hw
  generalize hes : scalarEntries offs (offW large) true = es at *
  have hne : es ≠ [] ∧ 0 ≤ es.headD 0 ∧ monotoneAdj es = true := by
    unfold offsetBufferNew at h1
    rcases es with _ | ⟨e0, rest⟩
    · simp at h1
    · simp only at h1
      split at h1
      · simp at h1
      · split at h1
        · rename_i h0 hm; exact ⟨by simp, by simpa using h0, hm⟩
        · simp at h1
  obtain ⟨hne, hfirst, hmono⟩ := hne
  have hn1 : 1 ≤ offs.length / offW large := by
    rw [← hlen]; cases es with
    | nil => exact absurd rfl hne
    | cons _ _ => simp
  refine ⟨hlen, hn1, ?_⟩
  intro i hi
  obtain ⟨a, ha⟩ := readInt_isSome (bs := offs) (signed := true) hw (show i < offs.length / offW large by omega)
  obtain ⟨b, hb'⟩ := readInt_isSome (bs := offs) (signed := true) hw (show i + 1 < offs.length / offW large by omega)
  have ga : es[i]? = some a := by rw [hget i (by omega)]; exact ha
  have gb : es[i + 1]? = some b := by rw [hget (i + 1) (by omega)]; exact hb'
  refine ⟨a, b, ha, hb', ?_, monotoneAdj_get es hmono i a b ga gb, (monotoneAdj_bounds es hmono (i + 1) b gb).2⟩
  have := (monotoneAdj_bounds es hmono i a ga).1
  omega

theorem buildTree_fields (c : ArrayData) :
    (buildTree c).type = c.type ∧ (buildTree c).len = c.len ∧ (buildTree c).nulls = builtNulls c := by
  cases c; simp [buildTree, builtNulls]


end ArrowModel.C09
