import ArrowModel.Common.Proto
import ArrowModel.C09.Physical
import ArrowModel.C09.Spec
import ArrowModel.C09.Model
/-
C09 driver: one case per line → one canonical answer per line.

Physical dump grammar (no spaces):
  array    := `A(` type `;` len `;` offset `;` nulls `;` bufs `;` array* `)`
  nulls    := `-` | hex | hex `:` declaredNullCount          (without `:n` the count is computed, as `NullBuffer::new` does)
  bufs     := `-` | buf (`|` buf)*        buf := hex | `e` (empty buffer)
  type     := `n` | `b` | `p`W | `t` | `T` | `y` | `Y` | `x`N | `v` (Utf8View) | `w` (BinaryView) | `M`nb`<s<!K,?V>>` (Map = List<Struct>)
            | (`l`|`L`) nb `<` type `>` | `f`N nb `<` type `>` | `s<` (nb type),* `>`
            | `d`KW(`s`|`u`) `<` type `>` | `r`RW `<` type `>` | (`D`|`S`) `<` (id `:` type),* `>`
  nb       := `?` (nullable) | `!` (not nullable)

Answers: `ok wf=<0|1>` (model accepts; wf = verdict of the spec validator `wellFormedB` on the
built array), `ERR`, `PANIC`.  The harness prints `ok wf=1` for an accepted array, so an
accepted-but-malformed layout shows up as a disagreement.
-/
namespace ArrowModel.C09
open ArrowModel.Proto ArrowModel.Physical

abbrev P (α : Type) := List Char → Option (α × List Char)

def pNat : P Nat := fun cs =>
  let ds := cs.takeWhile Char.isDigit
  if ds.isEmpty then none else (String.ofList ds).toNat?.map (·, cs.drop ds.length)

def pInt : P Int := fun cs =>
  match cs with
  | '-' :: r => (pNat r).map (fun (n, r) => (-(n : Int), r))
  | _ => (pNat cs).map (fun (n, r) => ((n : Int), r))

def pChar (c : Char) : P Unit := fun cs =>
  match cs with
  | x :: r => if x = c then some ((), r) else none
  | [] => none

def pNb : P Bool := fun cs =>
  match cs with
  | '?' :: r => some (true, r)
  | '!' :: r => some (false, r)
  | _ => none

mutual
partial def pType : P DType := fun cs =>
  match cs with
  | 'n' :: r => some (.null, r)
  | 'b' :: r => some (.bool, r)
  | 'p' :: r => (pNat r).map (fun (w, r) => (.prim w, r))
  | 't' :: r => some (.utf8 false, r)
  | 'T' :: r => some (.utf8 true, r)
  | 'y' :: r => some (.binary false, r)
  | 'Y' :: r => some (.binary true, r)
  | 'x' :: r => (pNat r).map (fun (w, r) => (.fsb w, r))
  | 'v' :: r => some (.view true, r)
  | 'w' :: r => some (.view false, r)
  | 'l' :: r => pListLike false r
  | 'L' :: r => pListLike true r
  | 'M' :: r => pListLike false r       -- Map: physically List<Struct<key, value>>
  | 'f' :: r => do
    let (n, r) ← pNat r
    let (nb, r) ← pNb r
    let (_, r) ← pChar '<' r
    let (t, r) ← pType r
    let (_, r) ← pChar '>' r
    pure (.fsl n t nb, r)
  | 's' :: '<' :: r => do
    let (fs, r) ← pFields false r
    pure (.struct (Fields.ofList fs), r)
  | 'd' :: r => do
    let (kw, r) ← pNat r
    let (sg, r) ← (match r with
      | 's' :: r => some (true, r)
      | 'u' :: r => some (false, r)
      | _ => none)
    let (_, r) ← pChar '<' r
    let (t, r) ← pType r
    let (_, r) ← pChar '>' r
    pure (.dict kw sg t, r)
  | 'r' :: r => do
    let (rw, r) ← pNat r
    let (_, r) ← pChar '<' r
    let (t, r) ← pType r
    let (_, r) ← pChar '>' r
    pure (.ree rw t, r)
  | 'D' :: '<' :: r => do
    let (fs, r) ← pFields true r
    pure (.union true (Fields.ofList fs), r)
  | 'S' :: '<' :: r => do
    let (fs, r) ← pFields true r
    pure (.union false (Fields.ofList fs), r)
  | _ => none
partial def pListLike (large : Bool) : P DType := fun r => do
  let (nb, r) ← pNb r
  let (_, r) ← pChar '<' r
  let (t, r) ← pType r
  let (_, r) ← pChar '>' r
  pure (.list large t nb, r)
/-- fields up to and including the closing `>`; with ids (`id:type`, nullable) or with
nullability marks (`?type`, id = position) -/
partial def pFields (withIds : Bool) : P (List Field) := fun cs =>
  match cs with
  | '>' :: r => some ([], r)
  | _ =>
    let rec go (k : Nat) (cs : List Char) (acc : List Field) : Option (List Field × List Char) := do
      let (f, r) ← (if withIds then do
          let (id, r) ← pInt cs
          let (_, r) ← pChar ':' r
          let (t, r) ← pType r
          pure ((id, t, true), r)
        else do
          let (nb, r) ← pNb cs
          let (t, r) ← pType r
          pure (((k : Int), t, nb), r))
      match r with
      | ',' :: r => go (k + 1) r (f :: acc)
      | '>' :: r => pure ((f :: acc).reverse, r)
      | _ => none
    go 0 cs []
end

def pUntil (stop : Char → Bool) : P String := fun cs =>
  let s := cs.takeWhile (fun c => !stop c)
  some (String.ofList s, cs.drop s.length)

/-- hex, with `e` for the empty byte string -/
def hexE (s : String) : Option (List Nat) := if s = "e" then some [] else parseHex s

def parseBufs (s : String) : Option (List (List Nat)) :=
  if s = "-" then some [] else
  (s.splitOn "|").mapM hexE

partial def pArray : P ArrayData := fun cs => do
  let (_, r) ← pChar 'A' cs
  let (_, r) ← pChar '(' r
  let (t, r) ← pType r
  let (_, r) ← pChar ';' r
  let (len, r) ← pNat r
  let (_, r) ← pChar ';' r
  let (off, r) ← pNat r
  let (_, r) ← pChar ';' r
  let (ns, r) ← pUntil (· == ';') r
  let (_, r) ← pChar ';' r
  let (bs, r) ← pUntil (· == ';') r
  let (_, r) ← pChar ';' r
  let bufs ← parseBufs bs
  let nulls ← (if ns = "-" then some none else
    match ns.splitOn ":" with
    | [h] => (hexE h).map (fun b => some { bytes := b, off := off, len := len, nullCount := (if off + len ≤ 8 * b.length then countNulls b off len else 0) : Nulls })
    | [h, c] => do
      let b ← hexE h
      let c ← c.toNat?
      pure (some { bytes := b, off := off, len := len, nullCount := c : Nulls })
    | _ => none)
  let rec kids (r : List Char) (acc : List ArrayData) : Option (List ArrayData × List Char) :=
    match r with
    | ')' :: r => some (acc.reverse, r)
    | _ => do
      let (c, r) ← pArray r
      kids r (c :: acc)
  let (cs', r) ← kids r []
  pure (⟨t, len, off, nulls, bufs, cs'⟩, r)

def parseArray (s : String) : Option ArrayData :=
  match pArray s.toList with
  | some (a, []) => some a
  | _ => none

def parseType (s : String) : Option DType :=
  match pType s.toList with
  | some (a, []) => some a
  | _ => none

/-- `+`-separated list (`-` = empty) -/
def plusList {α} (f : String → Option α) (s : String) : Option (List α) :=
  if s = "-" then some [] else (s.splitOn "+").mapM f

/-- answer for a validation outcome on the array that the constructor would hand out -/
def answer (r : Res) (built : ArrayData) : String :=
  match r with
  | .ok => s!"ok wf={showBool (wellFormedB built)}"
  | .err => "ERR"
  | .panic => "PANIC"

/-- a non-nullable field over a child whose `logical_nulls` is not its validity bitmap
(Null / Dictionary / RunEndEncoded / Union): not modelled -/
def typedNeedsLogicalNulls (kind : String) (d : ArrayData) : Bool :=
  match kind, d.type with
  | "list", .list _ item false | "fsl", .fsl _ item false => !logicalSimple item
  | "struct", .struct fs => fs.toList.any (fun f => !f.2.2 && !logicalSimple f.2.1)
  | _, _ => false

def handle (toks : List String) : String :=
  match toks with
  -- `ArrayData::try_new`, bottom-up
  | ["trynew", a] =>
    match parseArray a with
    | some d => answer (tryNewRec d) (buildTree d)
    | none => "bad-op"
  -- `build_unchecked` everywhere, then `validate_full`
  | ["full", a] =>
    match parseArray a with
    | some d => answer (uncheckedThenFull d) (buildTree d)
    | none => "bad-op"
  -- typed constructor accepted this layout (recorded by the generator): spec verdict only
  | ["tacc", _kind, a] =>
    match parseArray a with
    | some d => s!"ok wf={showBool (wellFormedB (buildTree d))}"
    | none => "bad-op"
  -- typed constructor, modelled: accept / reject must coincide, and acceptance needs the spec verdict
  | ["typed", kind, a] =>
    match parseArray a with
    | some d =>
      if kind != "run" && (match typedLen kind d with
                           | some l => l != d.len
                           | none => false) then "SHAPE"
      else if typedNeedsLogicalNulls kind d then "SKIP"
      else match typedModel kind d with
        | .ok => s!"ok wf={showBool (wellFormedB (buildTree d))}"
        | _ => "REJ"
    | none => "bad-op"
  -- ListView / LargeListView of Int8: `ArrayData::try_new` (validate_offsets_and_sizes) and
  -- `GenericListViewArray::try_new`; spec = model: every visible (offset, size) pair is
  -- non-negative and `offset + size ≤ child length`
  | ["lview", w, len, off, ob, sb, cl] =>
    match w.toNat?, len.toNat?, off.toNat?, hexE ob, hexE sb, cl.toNat? with
    | some w, some len, some off, some ob, some sb, some cl =>
      let pairOk (i : Nat) : Bool :=
        match readInt ob w true i, readInt sb w true i with
        | some o, some s => decide (0 ≤ o ∧ 0 ≤ s ∧ o + s ≤ (cl : Int))
        | _, _ => false
      let t := if (len + off) * w ≤ ob.length ∧ (len + off) * w ≤ sb.length ∧ allBelow len (fun i => pairOk (off + i))
               then "ok" else "ERR"
      let n := ob.length / w
      let y := if sb.length / w = n ∧ allBelow n pairOk then "ok" else "REJ"
      s!"t={t} y={y}"
    | _, _, _, _, _, _ => "bad-op"
  -- C data interface round trip of an array the model accepts
  | ["ffi", a] =>
    match parseArray a with
    | some d => if tryNewRec d = .ok then "ok" else "ERR"
    | none => "bad-op"
  -- `OffsetBuffer::new`
  | ["obuf", w, h] =>
    match w.toNat?, hexE h with
    | some w, some b => if offsetBufferNew (scalarEntries b w true) = .ok then "ok" else "PANIC"
    | _, _ => "bad-op"
  -- `OffsetBuffer::from_lengths`
  | ["fromlens", w, ls] =>
    match w.toNat?, parseList String.toNat? ls with
    | some w, some ls =>
      match fromLengths w ls with
      | some offs => showList toString offs
      | none => "PANIC"
    | _, _ => "bad-op"
  -- `RunEndBuffer::new`
  | ["rebuf", w, h, off, len] =>
    match w.toNat?, hexE h, off.toNat?, len.toNat? with
    | some w, some b, some off, some len =>
      if runEndBufferNew w (scalarEntries b w true) off len = .ok then "ok" else "PANIC"
    | _, _, _, _ => "bad-op"
  -- typed constructor rejected this layout (recorded for coverage only)
  | ["trej", _kind, _a] => "REJ"
  -- alignment of one buffer
  | ["align", t, idx, pm] =>
    match parseType t, idx.toNat?, pm.toNat? with
    | some t, some idx, some pm => if alignOk t idx pm then "ok" else "ERR"
    | _, _, _ => "bad-op"
  -- `RecordBatch::try_new_with_options`
  | ["batch", rows, fields, cols] =>
    match (if rows = "-" then some none else rows.toNat?.map some),
          plusList (fun s => match pNb s.toList with
            | some (nb, r) => (pType r).bind (fun (t, r) => if r.isEmpty then some (t, nb) else none)
            | none => none) fields,
          plusList parseArray cols with
    | some rows, some fs, some cs =>
      if cs.any (fun c => tryNewRec c != .ok) then "COLERR" else
      let m := batchModel rows fs (cs.map buildTree)
      let s := batchSpecB rows fs (cs.map buildTree)
      if m = .ok then s!"ok wf={showBool s}" else if m = .err then "ERR" else "PANIC"
    | _, _, _ => "bad-op"
  | _ => "bad-op"

end ArrowModel.C09
