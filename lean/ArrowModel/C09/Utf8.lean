import ArrowModel.C09.Physical
/-
UTF-8 lemmas for C09/C01: the well-formed-sequence length function, fuel irrelevance, and the
slicing theorem `utf8Valid_split` (cutting a well-formed string at a character boundary gives
two well-formed strings) that justifies the whole-buffer fast path of `validate_utf8`.
-/
namespace ArrowModel.Physical

/-- a well-formed sequence has 1..4 bytes, all present; the first is not a continuation byte,
the others are -/
theorem utf8CharLen_spec {bs : List Nat} {k : Nat} (h : utf8CharLen bs = some k) :
    1 ≤ k ∧ k ≤ bs.length ∧
    (∀ j, 0 < j → j < k → ∃ x, bs[j]? = some x ∧ isCont x = true) ∧
    (∃ x, bs[0]? = some x ∧ isCont x = false) := by
  unfold utf8CharLen at h
  rcases bs with _ | ⟨b0, rest⟩
  · simp at h
  · simp only at h
    split at h
    · rename_i h0
      simp at h; subst h
      refine ⟨by omega, by simp, fun j h1 h2 => by omega, b0, by simp, ?_⟩
      simp [isCont]; omega
    · split at h
      · rename_i h0 h1
        rcases rest with _ | ⟨b1, r⟩
        · simp at h
        · simp only at h
          split at h
          · rename_i hc
            simp at h; subst h
            refine ⟨by omega, by simp, ?_, b0, by simp, ?_⟩
            · intro j hj1 hj2
              have : j = 1 := by omega
              subst this
              exact ⟨b1, by simp, hc⟩
            · simp [isCont]; omega
          · simp at h
      · split at h
        · rename_i h0 h1 h2
          rcases rest with _ | ⟨b1, _ | ⟨b2, r⟩⟩
          · simp at h
          · simp at h
          · simp only at h
            split at h
            · rename_i hc
              simp at h; subst h
              simp only [Bool.and_eq_true] at hc
              refine ⟨by omega, by simp, ?_, b0, by simp, ?_⟩
              · intro j hj1 hj2
                have : j = 1 ∨ j = 2 := by omega
                rcases this with rfl | rfl
                · refine ⟨b1, by simp, ?_⟩
                  have := hc.1
                  unfold snd3Ok at this
                  split at this
                  · simp [isCont] at this ⊢; omega
                  · split at this
                    · simp [isCont] at this ⊢; omega
                    · exact this
                · exact ⟨b2, by simp, hc.2⟩
              · simp [isCont]; omega
            · simp at h
        · split at h
          · rename_i h0 h1 h2 h3
            rcases rest with _ | ⟨b1, _ | ⟨b2, _ | ⟨b3, r⟩⟩⟩
            · simp at h
            · simp at h
            · simp at h
            · simp only at h
              split at h
              · rename_i hc
                simp at h; subst h
                simp only [Bool.and_eq_true] at hc
                refine ⟨by omega, by simp, ?_, b0, by simp, ?_⟩
                · intro j hj1 hj2
                  have : j = 1 ∨ j = 2 ∨ j = 3 := by omega
                  rcases this with rfl | rfl | rfl
                  · refine ⟨b1, by simp, ?_⟩
                    have := hc.1.1
                    unfold snd4Ok at this
                    split at this
                    · simp [isCont] at this ⊢; omega
                    · split at this
                      · simp [isCont] at this ⊢; omega
                      · exact this
                  · exact ⟨b2, by simp, hc.1.2⟩
                  · exact ⟨b3, by simp, hc.2⟩
                · simp [isCont]; omega
              · simp at h
          · simp at h

/-- the sequence length depends only on the first `k` bytes -/
theorem utf8CharLen_take {bs : List Nat} {k m : Nat} (h : utf8CharLen bs = some k) (hm : k ≤ m) :
    utf8CharLen (bs.take m) = some k := by
  have hk := (utf8CharLen_spec h).2.1
  unfold utf8CharLen at h ⊢
  rcases bs with _ | ⟨b0, rest⟩
  · simp at h
  · rcases m with _ | m
    · have := (utf8CharLen_spec (bs := b0 :: rest) (by unfold utf8CharLen; exact h)).1; omega
    · simp only [List.take_succ_cons] at h ⊢
      split at h
      · rename_i h0; simp [h0]; simpa using h
      · rename_i h0
        simp only [h0, if_false]
        split at h
        · rename_i h1
          simp only [h1, if_true]
          rcases rest with _ | ⟨b1, r⟩
          · simp at h
          · rcases m with _ | m
            · simp only at h; split at h <;> simp at h; omega
            · simpa using h
        · rename_i h1
          simp only [h1, if_false]
          split at h
          · rename_i h2
            simp only [h2, if_true]
            rcases rest with _ | ⟨b1, _ | ⟨b2, r⟩⟩
            · simp at h
            · simp at h
            · rcases m with _ | _ | m
              · simp only at h; split at h <;> simp at h; omega
              · simp only at h; split at h <;> simp at h; omega
              · simpa using h
          · rename_i h2
            simp only [h2, if_false]
            split at h
            · rename_i h3
              simp only [h3, if_true]
              rcases rest with _ | ⟨b1, _ | ⟨b2, _ | ⟨b3, r⟩⟩⟩
              · simp at h
              · simp at h
              · simp at h
              · rcases m with _ | _ | _ | m
                · simp only at h; split at h <;> simp at h; omega
                · simp only at h; split at h <;> simp at h; omega
                · simp only at h; split at h <;> simp at h; omega
                · simpa using h
            · simp at h


/-- more fuel than the length changes nothing -/
theorem utf8ValidAux_fuel : ∀ (f : Nat) (bs : List Nat), bs.length ≤ f → ∀ g, f ≤ g →
    utf8ValidAux g bs = utf8ValidAux f bs
  | _, [], _, _, _ => by simp [utf8ValidAux]
  | 0, _ :: _, h, _, _ => by simp at h
  | f + 1, b :: rest, h, g, hg => by
    obtain ⟨g', rfl⟩ : ∃ g', g = g' + 1 := ⟨g - 1, by omega⟩
    simp only [utf8ValidAux]
    cases hk : utf8CharLen (b :: rest) with
    | none => rfl
    | some k =>
      simp only
      have hs := utf8CharLen_spec hk
      apply utf8ValidAux_fuel f _ _ g' (by omega)
      simp only [List.length_drop, List.length_cons] at h ⊢
      omega

/-- one step of the validity check -/
theorem utf8Valid_step (b : Nat) (rest : List Nat) :
    utf8Valid (b :: rest) =
      match utf8CharLen (b :: rest) with
      | some k => utf8Valid ((b :: rest).drop k)
      | none => false := by
  unfold utf8Valid
  simp only [List.length_cons, utf8ValidAux]
  cases hk : utf8CharLen (b :: rest) with
  | none => rfl
  | some k =>
    simp only
    have hs := utf8CharLen_spec hk
    apply utf8ValidAux_fuel
    · exact Nat.le_refl _
    · have := hs.1
      simp only [List.length_drop, List.length_cons]; omega

/-- `i` is a character boundary of `bs` (start, end, or a byte that is not a continuation byte) -/
def IsBoundary (bs : List Nat) (i : Nat) : Prop :=
  i = 0 ∨ i = bs.length ∨ ∃ x, bs[i]? = some x ∧ isCont x = false

/-- **UTF-8 slicing**: cutting a well-formed string at a character boundary gives two
well-formed strings. -/
theorem utf8Valid_split : ∀ (n : Nat) (bs : List Nat) (a : Nat), bs.length = n →
    utf8Valid bs = true → a ≤ bs.length → IsBoundary bs a →
    utf8Valid (bs.drop a) = true ∧ utf8Valid (bs.take a) = true := by
  intro n
  induction n using Nat.strongRecOn with
  | _ n ih =>
    intro bs a hn hv ha hb
    rcases Nat.eq_zero_or_pos a with rfl | hpos
    · refine ⟨by simpa using hv, by simp [utf8Valid, utf8ValidAux]⟩
    · rcases bs with _ | ⟨b, rest⟩
      · simp at ha; omega
      · rw [utf8Valid_step] at hv
        cases hk : utf8CharLen (b :: rest) with
        | none => rw [hk] at hv; simp at hv
        | some k =>
          rw [hk] at hv
          simp only at hv
          obtain ⟨hk1, hk2, hcont, _⟩ := utf8CharLen_spec hk
          by_cases hak : a < k
          · exfalso
            obtain ⟨x, hx, hxc⟩ := hcont a hpos hak
            rcases hb with h0 | h1 | ⟨y, hy, hyc⟩
            · omega
            · omega
            · rw [hx] at hy; cases hy; rw [hxc] at hyc; cases hyc
          · have hak : k ≤ a := by omega
            have hlen' : ((b :: rest).drop k).length < n := by
              simp only [List.length_drop]; omega
            have hb' : IsBoundary ((b :: rest).drop k) (a - k) := by
              rcases hb with h0 | h1 | ⟨y, hy, hyc⟩
              · omega
              · right; left; simp only [List.length_drop]; omega
              · right; right
                refine ⟨y, ?_, hyc⟩
                rw [List.getElem?_drop]
                rw [show k + (a - k) = a by omega]; exact hy
            have := ih _ hlen' ((b :: rest).drop k) (a - k) rfl hv
              (by simp only [List.length_drop]; omega) hb'
            rw [List.drop_drop] at this
            rw [show k + (a - k) = a by omega] at this
            refine ⟨this.1, ?_⟩
            obtain ⟨a', rfl⟩ : ∃ a', a = a' + 1 := ⟨a - 1, by omega⟩
            rw [List.take_succ_cons, utf8Valid_step, ← List.take_succ_cons,
              utf8CharLen_take hk hak]
            simp only
            rw [List.drop_take]
            exact this.2
end ArrowModel.Physical
