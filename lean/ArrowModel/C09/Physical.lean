/-
Physical layout of Arrow arrays — shared library (created for C09, reused by C01/C02).

Import-free.  Everything here is written from the *Arrow columnar format specification*
(https://arrow.apache.org/docs/format/Columnar.html), not from `arrow-data/src/data.rs`:

* `DType`      – the data types that have a physical layout of their own;
* `ArrayData`  – (type, len, offset, validity bitmap, buffers as byte lists, children);
* `WellFormed` – the specification's layout rules as a `Prop`
                 (`LocalWF` for one node, `WellFormed` for the whole tree);
* `wellFormedB`– the executable (decidable) form; `wellFormedB_iff` is in `C09/Lemmas.lean`;
* `decode`     – the abstraction function `ArrayData → Option (List Val)`, reading buffers
                 *only* through checked accessors (`List.getElem?`, `readLE`, `sliceChecked`), so
                 `decode d = some _` means "no access outside any buffer";
* `slice`      – the specification's zero-copy slice (offset/len bump).

Conventions
* a buffer is a `List Nat` of bytes (each `< 256`; readers reduce `% 256` anyway);
* bitmaps are LSB-first (bit `i` is bit `i % 8` of byte `i / 8`);
* integers are little-endian, two's complement when signed;
* slot `i` (`i < len`) of an array lives at physical position `offset + i` of its own
  buffers; a parent with offset `o` addresses child slot `o + i` (struct, sparse union),
  `(o + i)·n + j` (fixed-size list) — the child's own `offset` is applied on top by the child;
* per-slot rules are phrased as `∀ i, i < len → check d i = true` over small named,
  executable checks (`offsetPairOk`, `keyOk`, …) so that the decidable form is literally the
  same checks run over `List.range len`.

Deliberate choices (documented deviations / strengthenings of the spec text)
* variable-size binary/list arrays of length 0 may have an *empty* offsets buffer (the spec
  asks for one offset; C++ and Rust both accept none);
* UTF-8 validity is required for every slot of a `Utf8` array, valid or null (the Rust
  accessor `value(i)` does not look at the validity bitmap before building a `&str`);
* "field is not nullable" is part of well-formedness: a non-nullable child may contain a
  null only where the spec makes the parent slot own that child slot and the parent slot is
  itself null (struct, fixed-size list); for lists the child must contain no null at all;
* for dense unions only "offset within the selected child" is required (the spec's
  per-child increasing-offset rule is not needed for safe access and is not modelled);
* lengths are unbounded naturals (the 2^63 limit of the C data interface is not modelled);
* view arrays are checked at every slot, valid or null, like `Utf8` (same reason);
* list-views are not modelled; a Map is physically a `List<Struct<key not null, value>>`.
-/
namespace ArrowModel.Physical

/-! ## Data types -/

mutual
/-- Arrow data types by physical layout.  Primitive fixed-width types are identified by
their byte width (`prim 4` = Int32/UInt32/Float32/Date32/…). -/
inductive DType where
  | null
  | bool
  /-- fixed-width primitive of `w` bytes -/
  | prim (w : Nat)
  /-- `Utf8` / `LargeUtf8` -/
  | utf8 (large : Bool)
  /-- `Binary` / `LargeBinary` -/
  | binary (large : Bool)
  /-- `FixedSizeBinary(n)` -/
  | fsb (n : Nat)
  /-- `Utf8View` (`utf8 = true`) / `BinaryView` -/
  | view (utf8 : Bool)
  /-- `List` / `LargeList` of `item`, item field nullable or not -/
  | list (large : Bool) (item : DType) (nullable : Bool)
  /-- `FixedSizeList(item, n)` -/
  | fsl (n : Nat) (item : DType) (nullable : Bool)
  /-- `Struct(fields)` (the `id` of a field is ignored) -/
  | struct (fields : Fields)
  /-- `Dictionary(key, value)`; the key is an integer of `kw` bytes, signed or not -/
  | dict (kw : Nat) (signed : Bool) (value : DType)
  /-- `RunEndEncoded(run_ends: Int{8·rw}, values: value)` -/
  | ree (rw : Nat) (value : DType)
  /-- `Union(fields, Dense | Sparse)`; the `id` of a field is its type id (an `i8`) -/
  | union (dense : Bool) (fields : Fields)
/-- list of fields (own list type so that `DType` is a plain mutual inductive) -/
inductive Fields where
  | nil
  | cons (id : Int) (type : DType) (nullable : Bool) (rest : Fields)
end

/-- a field: (type id, type, nullable) -/
abbrev Field := Int × DType × Bool

def Fields.toList : Fields → List Field
  | .nil => []
  | .cons i t n r => (i, t, n) :: r.toList

def Fields.ofList : List Field → Fields
  | [] => .nil
  | (i, t, n) :: r => .cons i t n (Fields.ofList r)

mutual
def DType.beq : DType → DType → Bool
  | .null, .null => true
  | .bool, .bool => true
  | .prim a, .prim b => a == b
  | .utf8 a, .utf8 b => a == b
  | .binary a, .binary b => a == b
  | .fsb a, .fsb b => a == b
  | .view a, .view b => a == b
  | .list a b c, .list a' b' c' => a == a' && b.beq b' && c == c'
  | .fsl a b c, .fsl a' b' c' => a == a' && b.beq b' && c == c'
  | .struct f, .struct g => f.beq g
  | .dict a b c, .dict a' b' c' => a == a' && b == b' && c.beq c'
  | .ree a b, .ree a' b' => a == a' && b.beq b'
  | .union d f, .union d' g => d == d' && f.beq g
  | _, _ => false
def Fields.beq : Fields → Fields → Bool
  | .nil, .nil => true
  | .cons i t n r, .cons i' t' n' r' => i == i' && t.beq t' && n == n' && r.beq r'
  | _, _ => false
end

mutual
theorem DType.beq_iff : ∀ (a b : DType), a.beq b = true ↔ a = b
  | .null, b => by cases b <;> simp [DType.beq]
  | .bool, b => by cases b <;> simp [DType.beq]
  | .prim _, b => by cases b <;> simp [DType.beq]
  | .utf8 _, b => by cases b <;> simp [DType.beq]
  | .binary _, b => by cases b <;> simp [DType.beq]
  | .fsb _, b => by cases b <;> simp [DType.beq]
  | .view _, b => by cases b <;> simp [DType.beq]
  | .list _ i _, b => by
      cases b <;> simp [DType.beq]
      rename_i a' i' c'
      rw [DType.beq_iff i i']
      constructor <;> (intro h; simp_all)
  | .fsl _ i _, b => by
      cases b <;> simp [DType.beq]
      rename_i a' i' c'
      rw [DType.beq_iff i i']
      constructor <;> (intro h; simp_all)
  | .struct f, b => by
      cases b <;> simp [DType.beq]
      exact Fields.beq_iff f _
  | .dict _ _ v, b => by
      cases b <;> simp [DType.beq]
      rename_i a' b' v'
      rw [DType.beq_iff v v']
      constructor <;> (intro h; simp_all)
  | .ree _ v, b => by
      cases b <;> simp [DType.beq]
      rename_i a' v'
      rw [DType.beq_iff v v']
      exact fun _ => Iff.rfl
  | .union _ f, b => by
      cases b <;> simp [DType.beq]
      rename_i d' g
      rw [Fields.beq_iff f g]
      exact fun _ => Iff.rfl
theorem Fields.beq_iff : ∀ (a b : Fields), a.beq b = true ↔ a = b
  | .nil, b => by cases b <;> simp [Fields.beq]
  | .cons _ t _ r, b => by
      cases b <;> simp [Fields.beq]
      rename_i i' t' n' r'
      rw [DType.beq_iff t t', Fields.beq_iff r r']
      constructor <;> (intro h; simp_all)
end

instance : DecidableEq DType := fun a b => decidable_of_iff _ (DType.beq_iff a b)
instance : DecidableEq Fields := fun a b => decidable_of_iff _ (Fields.beq_iff a b)

/-! ## Arrays -/

/-- validity bitmap with its own bit offset (Rust: `NullBuffer { BooleanBuffer { buffer,
offset, len }, null_count }`): slot `i` is valid iff bit `off + i` of `bytes` is set. -/
structure Nulls where
  bytes : List Nat
  off : Nat
  len : Nat
  /-- the *declared* number of nulls -/
  nullCount : Nat
  deriving Repr, DecidableEq

/-- the physical representation of an array (Rust: `arrow_data::ArrayData`) -/
structure ArrayData where
  type : DType
  len : Nat
  offset : Nat
  nulls : Option Nulls
  buffers : List (List Nat)
  children : List ArrayData

/-! ## Checked readers -/

/-- bit `i` of an LSB-first bitmap; `none` outside the buffer -/
def bitAt (bytes : List Nat) (i : Nat) : Option Bool :=
  (bytes[i / 8]?).map (fun b => b.testBit (i % 8))

/-- little-endian unsigned integer of `w` bytes at byte position `pos`; `none` if any byte
is outside the buffer -/
def readLE (bs : List Nat) (pos : Nat) : Nat → Option Nat
  | 0 => some 0
  | w + 1 =>
    match bs[pos]?, readLE bs (pos + 1) w with
    | some b, some r => some (b % 256 + 256 * r)
    | _, _ => none

/-- two's complement interpretation of a `w`-byte unsigned value -/
def toSigned (w : Nat) (v : Nat) : Int :=
  if 2 * v < 2 ^ (8 * w) then (v : Int) else (v : Int) - (2 ^ (8 * w) : Nat)

/-- element `i` of a buffer of `w`-byte integers -/
def readInt (bs : List Nat) (w : Nat) (signed : Bool) (i : Nat) : Option Int :=
  (readLE bs (i * w) w).map (fun v => if signed then toSigned w v else (v : Int))

/-- `xs[a..b]`, `none` unless `a ≤ b ≤ xs.length` -/
def sliceChecked {α} (xs : List α) (a b : Nat) : Option (List α) :=
  if a ≤ b ∧ b ≤ xs.length then some ((xs.drop a).take (b - a)) else none

/-- validity of slot `i` (`none` = bitmap too short) -/
def ArrayData.validAt (d : ArrayData) (i : Nat) : Option Bool :=
  match d.nulls with
  | none => some true
  | some n => bitAt n.bytes (n.off + i)

/-- slot `i` is valid (reads as `false` outside the bitmap) -/
def ArrayData.isValid (d : ArrayData) (i : Nat) : Bool := d.validAt i == some true

/-- number of zero bits among the `len` bits starting at `off` (bits outside count as zero) -/
def countNulls (bytes : List Nat) (off len : Nat) : Nat :=
  ((List.range len).filter (fun i => bitAt bytes (off + i) != some true)).length

/-- byte width of offsets -/
def offW (large : Bool) : Nat := if large then 8 else 4

/-! ## UTF-8 (Unicode 15 §3.9, table 3-7: well-formed byte sequences) -/

def isCont (b : Nat) : Bool := 0x80 ≤ b && b ≤ 0xBF

/-- constraint on the second byte of a 3-byte sequence (no overlongs, no surrogates) -/
def snd3Ok (b0 b1 : Nat) : Bool :=
  if b0 = 0xE0 then decide (0xA0 ≤ b1 ∧ b1 ≤ 0xBF)
  else if b0 = 0xED then decide (0x80 ≤ b1 ∧ b1 ≤ 0x9F)
  else isCont b1

/-- constraint on the second byte of a 4-byte sequence (no overlongs, nothing above U+10FFFF) -/
def snd4Ok (b0 b1 : Nat) : Bool :=
  if b0 = 0xF0 then decide (0x90 ≤ b1 ∧ b1 ≤ 0xBF)
  else if b0 = 0xF4 then decide (0x80 ≤ b1 ∧ b1 ≤ 0x8F)
  else isCont b1

/-- length of the well-formed UTF-8 byte sequence at the head of `bs` (table 3-7), if any -/
def utf8CharLen : List Nat → Option Nat
  | [] => none
  | b0 :: rest =>
    if b0 ≤ 0x7F then some 1
    else if 0xC2 ≤ b0 ∧ b0 ≤ 0xDF then
      match rest with
      | b1 :: _ => if isCont b1 then some 2 else none
      | _ => none
    else if 0xE0 ≤ b0 ∧ b0 ≤ 0xEF then
      match rest with
      | b1 :: b2 :: _ => if snd3Ok b0 b1 && isCont b2 then some 3 else none
      | _ => none
    else if 0xF0 ≤ b0 ∧ b0 ≤ 0xF4 then
      match rest with
      | b1 :: b2 :: b3 :: _ => if snd4Ok b0 b1 && isCont b2 && isCont b3 then some 4 else none
      | _ => none
    else none

/-- `utf8Valid bs` ⇔ `bs` is a concatenation of well-formed UTF-8 byte sequences
(no overlongs, no surrogates, nothing above U+10FFFF).  The fuel is the list length. -/
def utf8ValidAux : Nat → List Nat → Bool
  | _, [] => true
  | 0, _ :: _ => false
  | f + 1, b :: bs =>
    match utf8CharLen (b :: bs) with
    | some k => utf8ValidAux f ((b :: bs).drop k)
    | none => false

def utf8Valid (bs : List Nat) : Bool := utf8ValidAux bs.length bs

/-! ## Per-slot checks (executable, named after the spec rule they state) -/

/-- offsets `o[i] , o[i+1]` of slot `i` are present, non-negative, ordered and within a
values buffer / child of length `limit` -/
def offsetPairOk (offs : List Nat) (large : Bool) (limit : Nat) (p : Nat) : Bool :=
  match readInt offs (offW large) true p, readInt offs (offW large) true (p + 1) with
  | some a, some b => decide (0 ≤ a ∧ a ≤ b ∧ b ≤ (limit : Int))
  | _, _ => false

/-- the value bytes of the slot at physical position `p` of a binary-like array -/
def binValue (offs data : List Nat) (large : Bool) (p : Nat) : Option (List Nat) :=
  match readInt offs (offW large) true p, readInt offs (offW large) true (p + 1) with
  | some a, some b => if 0 ≤ a ∧ 0 ≤ b then sliceChecked data a.toNat b.toNat else none
  | _, _ => none

/-- the string at physical position `p` is well-formed UTF-8 -/
def utf8SlotOk (offs data : List Nat) (large : Bool) (p : Nat) : Bool :=
  match binValue offs data large p with
  | some v => utf8Valid v
  | none => false

/-- dictionary key at physical position `p` addresses one of `n` dictionary values -/
def keyOk (keys : List Nat) (kw : Nat) (signed : Bool) (n : Nat) (p : Nat) : Bool :=
  match readInt keys kw signed p with
  | some k => decide (0 ≤ k ∧ k < (n : Int))
  | none => false

/-- little-endian `u32` at byte `pos` of a 16-byte view (bytes outside read as 0) -/
def le32 (v : List Nat) (pos : Nat) : Nat :=
  v.getD pos 0 % 256 + 256 * (v.getD (pos + 1) 0 % 256) + 65536 * (v.getD (pos + 2) 0 % 256)
    + 16777216 * (v.getD (pos + 3) 0 % 256)

/-- the view at physical position `p` (`inl` = maximum inline length, 12): inline views are zero
padded (and well-formed UTF-8 for `Utf8View`); long views name an existing data buffer, lie inside
it, carry its first four bytes as prefix (and are well-formed UTF-8) -/
def viewSlotOkN (inl : Nat) (views : List Nat) (datas : List (List Nat)) (utf8 : Bool) (p : Nat) : Bool :=
  match sliceChecked views (p * 16) (p * 16 + 16) with
  | none => false
  | some v =>
    let len := le32 v 0
    if len ≤ inl then
      (v.drop (4 + len)).all (fun b => b % 256 == 0) && (!utf8 || utf8Valid ((v.drop 4).take len))
    else
      match datas[le32 v 8]? with
      | none => false
      | some data =>
        match sliceChecked data (le32 v 12) (le32 v 12 + len) with
        | none => false
        | some b => (b.take 4 == (v.drop 4).take 4) && (!utf8 || utf8Valid b)

/-- `viewSlotOkN` with the format's inline limit of 12 bytes -/
def viewSlotOk := viewSlotOkN 12

/-- the value bytes a view denotes -/
def viewValue (views : List Nat) (datas : List (List Nat)) (p : Nat) : Option (List Nat) :=
  match sliceChecked views (p * 16) (p * 16 + 16) with
  | none => none
  | some v =>
    let len := le32 v 0
    if len ≤ 12 then sliceChecked v 4 (4 + len)
    else match datas[le32 v 8]? with
      | none => none
      | some data => sliceChecked data (le32 v 12) (le32 v 12 + len)

/-- index of the first field with type id `id` -/
def Fields.indexOf (fs : Fields) (id : Int) : Option Nat :=
  match fs with
  | .nil => none
  | .cons i _ _ r => if i = id then some 0 else (r.indexOf id).map (· + 1)

/-- the type id at physical position `p` is declared, and (dense) the offset at `p`
addresses a slot of the selected child -/
def unionSlotOk (fs : Fields) (dense : Bool) (ids offs : List Nat) (children : List ArrayData)
    (p : Nat) : Bool :=
  match readInt ids 1 true p with
  | none => false
  | some id =>
    match fs.indexOf id with
    | none => false
    | some k =>
      if dense then
        match readInt offs 4 true p, children[k]? with
        | some o, some c => decide (0 ≤ o ∧ o < (c.len : Int))
        | _, _ => false
      else true

/-- run end `j` of a run-ends child (`re`), read at the child's own offset -/
def runEndAt (re : ArrayData) (rw : Nat) (j : Nat) : Option Int :=
  match re.buffers with
  | [b] => readInt b rw true (re.offset + j)
  | _ => none

/-- run end `j` is positive (j = 0) or strictly greater than run end `j-1` -/
def runEndOk (re : ArrayData) (rw : Nat) (j : Nat) : Bool :=
  match runEndAt re rw j with
  | none => false
  | some e =>
    if j = 0 then decide (0 < e)
    else match runEndAt re rw (j - 1) with
      | some e' => decide (e' < e)
      | none => false

/-- the last run end (0 for no runs) -/
def lastRunEnd (re : ArrayData) (rw : Nat) : Option Int :=
  if re.len = 0 then some 0 else runEndAt re rw (re.len - 1)

/-- `p i && p (i+1) && … ` for `f` consecutive indices (stops at the first failure and never
materialises the index list, so it is usable with astronomically large `f`) -/
def allFrom (p : Nat → Bool) : Nat → Nat → Bool
  | _, 0 => true
  | i, f + 1 => p i && allFrom p (i + 1) f

/-- all `n` slots `0..n` satisfy `p` -/
def allBelow (n : Nat) (p : Nat → Bool) : Bool := allFrom p 0 n

/-- non-nullable child rule for struct / fixed-size list: parent slot `i` valid ⇒ the
`k` child slots `(offset+i)·k … (offset+i)·k + k-1` are valid -/
def childValidWhereParentValid (d c : ArrayData) (k : Nat) (i : Nat) : Bool :=
  !d.isValid i || allBelow k (fun j => c.isValid ((d.offset + i) * k + j))

/-- `zipWith`-style: every field has a child of its type, checked by `f` -/
def fieldsMatch (f : Field → ArrayData → Bool) : List Field → List ArrayData → Bool
  | [], [] => true
  | fl :: fs, c :: cs => f fl c && fieldsMatch f fs cs
  | _, _ => false

/-! ## The validity bitmap rule -/

/-- the bitmap covers `len` slots, and the declared null count is exact -/
def nullsOkB (d : ArrayData) : Bool :=
  match d.nulls with
  | none => true
  | some n => n.len == d.len && decide (n.off + n.len ≤ 8 * n.bytes.length)
              && n.nullCount == countNulls n.bytes n.off n.len

def NullsOk (d : ArrayData) : Prop :=
  match d.nulls with
  | none => True
  | some n => n.len = d.len ∧ n.off + n.len ≤ 8 * n.bytes.length
              ∧ n.nullCount = countNulls n.bytes n.off n.len

/-! ## Well-formedness of one node (children looked at only through type/len/validity) -/

/-- `LocalWF d`: the layout rules of the specification for the node `d`. -/
def LocalWF (d : ArrayData) : Prop :=
  NullsOk d ∧
  match d.type with
  | .null => d.nulls = none ∧ d.buffers = [] ∧ d.children = []
  | .bool =>
    d.children = [] ∧ ∃ b, d.buffers = [b] ∧ d.offset + d.len ≤ 8 * b.length
  | .prim w =>
    d.children = [] ∧ ∃ b, d.buffers = [b] ∧ (d.offset + d.len) * w ≤ b.length
  | .fsb n =>
    d.children = [] ∧ ∃ b, d.buffers = [b] ∧ (d.offset + d.len) * n ≤ b.length
  | .view utf8 =>
    d.children = [] ∧ ∃ views datas, d.buffers = views :: datas ∧ (d.offset + d.len) * 16 ≤ views.length ∧
      ∀ i, i < d.len → viewSlotOk views datas utf8 (d.offset + i) = true
  | .binary large =>
    d.children = [] ∧ ∃ offs data, d.buffers = [offs, data] ∧
      ((d.len = 0 ∧ offs = []) ∨
       ∀ i, i < d.len → offsetPairOk offs large data.length (d.offset + i) = true)
  | .utf8 large =>
    d.children = [] ∧ ∃ offs data, d.buffers = [offs, data] ∧
      ((d.len = 0 ∧ offs = []) ∨
       ∀ i, i < d.len → (offsetPairOk offs large data.length (d.offset + i) = true
                          ∧ utf8SlotOk offs data large (d.offset + i) = true))
  | .list large item nullable =>
    ∃ offs c, d.buffers = [offs] ∧ d.children = [c] ∧ c.type = item ∧
      ((d.len = 0 ∧ offs = []) ∨
       ∀ i, i < d.len → offsetPairOk offs large c.len (d.offset + i) = true) ∧
      (nullable = false → ∀ j, j < c.len → c.isValid j = true)
  | .fsl n item nullable =>
    d.buffers = [] ∧ ∃ c, d.children = [c] ∧ c.type = item ∧ (d.offset + d.len) * n ≤ c.len ∧
      (nullable = false → ∀ i, i < d.len → childValidWhereParentValid d c n i = true)
  | .struct fields =>
    d.buffers = [] ∧
    fieldsMatch (fun f c => decide (c.type = f.2.1) && decide (d.offset + d.len ≤ c.len))
      fields.toList d.children = true ∧
    fieldsMatch (fun f c => f.2.2 || allBelow d.len (childValidWhereParentValid d c 1))
      fields.toList d.children = true
  | .dict kw signed value =>
    ∃ keys v, d.buffers = [keys] ∧ d.children = [v] ∧ v.type = value ∧
      (kw = 1 ∨ kw = 2 ∨ kw = 4 ∨ kw = 8) ∧
      (d.offset + d.len) * kw ≤ keys.length ∧
      ∀ i, i < d.len → d.isValid i = true → keyOk keys kw signed v.len (d.offset + i) = true
  | .ree rw value =>
    d.nulls = none ∧ d.buffers = [] ∧ ∃ re vals, d.children = [re, vals] ∧
      re.type = .prim rw ∧ vals.type = value ∧ (rw = 2 ∨ rw = 4 ∨ rw = 8) ∧
      re.nulls = none ∧ re.len = vals.len ∧
      (∀ j, j < re.len → runEndOk re rw j = true) ∧
      ∃ last, lastRunEnd re rw = some last ∧ ((d.offset + d.len : Nat) : Int) ≤ last
  | .union dense fields =>
    d.nulls = none ∧
    fieldsMatch (fun f c => decide (c.type = f.2.1) && (dense || decide (d.offset + d.len ≤ c.len)))
      fields.toList d.children = true ∧
    ∃ ids offs, d.buffers = (if dense then [ids, offs] else [ids]) ∧
      d.offset + d.len ≤ ids.length ∧ (dense = true → (d.offset + d.len) * 4 ≤ offs.length) ∧
      ∀ i, i < d.len → unionSlotOk fields dense ids offs d.children (d.offset + i) = true

mutual
/-- **The specification predicate**: every node of the tree satisfies the layout rules. -/
def WellFormed : ArrayData → Prop
  | ⟨t, l, o, n, bs, cs⟩ => LocalWF ⟨t, l, o, n, bs, cs⟩ ∧ WellFormedAll cs
def WellFormedAll : List ArrayData → Prop
  | [] => True
  | c :: cs => WellFormed c ∧ WellFormedAll cs
end

/-! ## Executable form -/

/-- executable `LocalWF` -/
def localWFB (d : ArrayData) : Bool :=
  nullsOkB d &&
  match d.type with
  | .null => d.nulls.isNone && d.buffers.isEmpty && d.children.isEmpty
  | .bool =>
    d.children.isEmpty &&
    match d.buffers with
    | [b] => decide (d.offset + d.len ≤ 8 * b.length)
    | _ => false
  | .prim w =>
    d.children.isEmpty &&
    match d.buffers with
    | [b] => decide ((d.offset + d.len) * w ≤ b.length)
    | _ => false
  | .fsb n =>
    d.children.isEmpty &&
    match d.buffers with
    | [b] => decide ((d.offset + d.len) * n ≤ b.length)
    | _ => false
  | .view utf8 =>
    d.children.isEmpty &&
    match d.buffers with
    | views :: datas =>
      decide ((d.offset + d.len) * 16 ≤ views.length) &&
      allBelow d.len (fun i => viewSlotOk views datas utf8 (d.offset + i))
    | [] => false
  | .binary large =>
    d.children.isEmpty &&
    match d.buffers with
    | [offs, data] =>
      (d.len == 0 && offs.isEmpty) ||
      allBelow d.len (fun i => offsetPairOk offs large data.length (d.offset + i))
    | _ => false
  | .utf8 large =>
    d.children.isEmpty &&
    match d.buffers with
    | [offs, data] =>
      (d.len == 0 && offs.isEmpty) ||
      allBelow d.len (fun i => offsetPairOk offs large data.length (d.offset + i)
                                && utf8SlotOk offs data large (d.offset + i))
    | _ => false
  | .list large item nullable =>
    match d.buffers, d.children with
    | [offs], [c] =>
      decide (c.type = item) &&
      ((d.len == 0 && offs.isEmpty) ||
       allBelow d.len (fun i => offsetPairOk offs large c.len (d.offset + i))) &&
      (nullable || c.nulls.isNone || allBelow c.len (fun j => c.isValid j))
    | _, _ => false
  | .fsl n item nullable =>
    d.buffers.isEmpty &&
    match d.children with
    | [c] =>
      decide (c.type = item) && decide ((d.offset + d.len) * n ≤ c.len) &&
      (nullable || c.nulls.isNone || allBelow d.len (childValidWhereParentValid d c n))
    | _ => false
  | .struct fields =>
    d.buffers.isEmpty &&
    fieldsMatch (fun f c => decide (c.type = f.2.1) && decide (d.offset + d.len ≤ c.len))
      fields.toList d.children &&
    fieldsMatch (fun f c => f.2.2 || c.nulls.isNone || allBelow d.len (childValidWhereParentValid d c 1))
      fields.toList d.children
  | .dict kw signed value =>
    match d.buffers, d.children with
    | [keys], [v] =>
      decide (v.type = value) && decide (kw = 1 ∨ kw = 2 ∨ kw = 4 ∨ kw = 8) &&
      decide ((d.offset + d.len) * kw ≤ keys.length) &&
      allBelow d.len (fun i => !d.isValid i || keyOk keys kw signed v.len (d.offset + i))
    | _, _ => false
  | .ree rw value =>
    d.nulls.isNone && d.buffers.isEmpty &&
    match d.children with
    | [re, vals] =>
      decide (re.type = .prim rw) && decide (vals.type = value) &&
      decide (rw = 2 ∨ rw = 4 ∨ rw = 8) &&
      re.nulls.isNone && re.len == vals.len &&
      allBelow re.len (runEndOk re rw) &&
      match lastRunEnd re rw with
      | some last => decide (((d.offset + d.len : Nat) : Int) ≤ last)
      | none => false
    | _ => false
  | .union dense fields =>
    d.nulls.isNone &&
    fieldsMatch (fun f c => decide (c.type = f.2.1) && (dense || decide (d.offset + d.len ≤ c.len)))
      fields.toList d.children &&
    match dense, d.buffers with
    | true, [ids, offs] =>
      decide (d.offset + d.len ≤ ids.length) && decide ((d.offset + d.len) * 4 ≤ offs.length) &&
      allBelow d.len (fun i => unionSlotOk fields true ids offs d.children (d.offset + i))
    | false, [ids] =>
      decide (d.offset + d.len ≤ ids.length) &&
      allBelow d.len (fun i => unionSlotOk fields false ids [] d.children (d.offset + i))
    | _, _ => false

mutual
/-- **the independent validator**: executable form of `WellFormed` -/
def wellFormedB : ArrayData → Bool
  | ⟨t, l, o, n, bs, cs⟩ => localWFB ⟨t, l, o, n, bs, cs⟩ && wellFormedAllB cs
def wellFormedAllB : List ArrayData → Bool
  | [] => true
  | c :: cs => wellFormedB c && wellFormedAllB cs
end

/-! ## Logical values and the abstraction function -/

/-- logical values -/
inductive Val where
  | null
  | bool (b : Bool)
  | int (i : Int)
  /-- fixed-width primitive / binary / string payload -/
  | bytes (bs : List Nat)
  | list (vs : List Val)
  | struct (vs : List Val)
  | union (id : Int) (v : Val)

/-- `w` bytes at element position `p` -/
def readBytes (bs : List Nat) (w p : Nat) : Option (List Nat) := sliceChecked bs (p * w) (p * w + w)

/-- `mapM` over `0..n` -/
def tabulateM {α} (n : Nat) (f : Nat → Option α) : Option (List α) := (List.range n).mapM f

/-- physical index of logical position `pos` in a run-end encoded array: the first run whose
end exceeds `pos` (searched among the first `fuel` runs starting at `j`) -/
def findRun (re : ArrayData) (rw : Nat) (pos : Nat) : Nat → Nat → Option Nat
  | 0, _ => none
  | fuel + 1, j =>
    match runEndAt re rw j with
    | none => none
    | some e => if (pos : Int) < e then some j else findRun re rw pos fuel (j + 1)

/-- the value of slot `i` of `d` given the decoded children `cvs`; reads only through
checked accessors -/
def slotVal (d : ArrayData) (cvs : List (List Val)) (i : Nat) : Option Val :=
  match d.validAt i with
  | none => none
  | some false => some .null
  | some true =>
    let p := d.offset + i
    match d.type with
    | .null => some .null
    | .bool =>
      match d.buffers with
      | [b] => (bitAt b p).map .bool
      | _ => none
    | .prim w =>
      match d.buffers with
      | [b] => (readBytes b w p).map .bytes
      | _ => none
    | .fsb n =>
      match d.buffers with
      | [b] => (readBytes b n p).map .bytes
      | _ => none
    | .binary large | .utf8 large =>
      match d.buffers with
      | [offs, data] => (binValue offs data large p).map .bytes
      | _ => none
    | .view _ =>
      match d.buffers with
      | views :: datas => (viewValue views datas p).map .bytes
      | [] => none
    | .list large _ _ =>
      match d.buffers, cvs with
      | [offs], [cv] =>
        match readInt offs (offW large) true p, readInt offs (offW large) true (p + 1) with
        | some a, some b =>
          if 0 ≤ a ∧ 0 ≤ b then (sliceChecked cv a.toNat b.toNat).map .list else none
        | _, _ => none
      | _, _ => none
    | .fsl n _ _ =>
      match cvs with
      | [cv] => (sliceChecked cv (p * n) (p * n + n)).map .list
      | _ => none
    | .struct _ => (cvs.mapM (fun cv => cv[p]?)).map .struct
    | .dict kw signed _ =>
      match d.buffers, cvs with
      | [keys], [cv] =>
        match readInt keys kw signed p with
        | some k => if 0 ≤ k then cv[k.toNat]? else none
        | none => none
      | _, _ => none
    | .ree rw _ =>
      match d.children, cvs with
      | [re, _], [_, vv] =>
        match findRun re rw p re.len 0 with
        | some j => vv[j]?
        | none => none
      | _, _ => none
    | .union dense fields =>
      match d.buffers with
      | ids :: rest =>
        match readInt ids 1 true p with
        | none => none
        | some id =>
          match fields.indexOf id with
          | none => none
          | some k =>
            match cvs[k]? with
            | none => none
            | some cv =>
              if dense then
                match rest with
                | [offs] =>
                  match readInt offs 4 true p with
                  | some o => if 0 ≤ o then (cv[o.toNat]?).map (.union id) else none
                  | none => none
                | _ => none
              else (cv[p]?).map (.union id)
      | [] => none

mutual
/-- **the abstraction function**: the logical column an array denotes; `none` iff some read
would fall outside a buffer / child -/
def decode : ArrayData → Option (List Val)
  | ⟨t, l, o, n, bs, cs⟩ =>
    match decodeAll cs with
    | none => none
    | some cvs => tabulateM l (slotVal ⟨t, l, o, n, bs, cs⟩ cvs)
def decodeAll : List ArrayData → Option (List (List Val))
  | [] => some []
  | c :: cs =>
    match decode c, decodeAll cs with
    | some v, some vs => some (v :: vs)
    | _, _ => none
end

/-! ## Slicing (specification level: bump offset, set length, re-count nulls) -/

def Nulls.slice (n : Nulls) (o l : Nat) : Nulls :=
  { bytes := n.bytes, off := n.off + o, len := l, nullCount := countNulls n.bytes (n.off + o) l }

/-- zero-copy slice `[o, o+l)` of `d` -/
def slice (d : ArrayData) (o l : Nat) : ArrayData :=
  { d with offset := d.offset + o, len := l, nulls := d.nulls.map (·.slice o l) }

end ArrowModel.Physical
